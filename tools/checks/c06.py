"""C06 — VariableSizeCommunicator delivers every item intact for any sizes / buffer size, and returns."""
from translators import tr_c06

PID = "C06"
CLAIM = True
MANIFEST_TEXT = ("Lean 4 theorems (all index lists incl. repeated indices, all per-index sizes incl. zero and all-zero, every "
                 "buffer size B >= the largest index, fixed- and variable-size handles, both directions, any number of ranks) "
                 "about an executable model of InterfaceTracker/MessageBuffer/PackEntries/UnpackEntries/SetupSend-/"
                 "SetupRecvRequest, the size pre-exchange and setupInterfaceTrackers: the message rounds concatenate to all "
                 "items, never split an index, are non-empty and never exceed B; the receiver partitions the stream exactly as "
                 "the sender packed it, so the k-th receive index gets exactly the k-th send index's items with the right "
                 "count; the size exchange round-trips; #messages sent = #receives posted (no hang; false for the unrepaired "
                 "code, witness proved); for the free interleaving of the per-neighbour small-step machines every "
                 "schedule is finite, every maximal one ends in the final state and all of them produce the same scatter "
                 "calls; for the rank-level systems (all ranks with program position and the loop counters "
                 "size_to_send/size_to_recv/no_to_send/no_to_recv resp. the three counters and the final MPI_Waitall of the "
                 "fixed-size path, ranks moving at their own pace, size and data messages on one FIFO) every schedule is finite, "
                 "the counters always equal the number of open requests, no message is matched with a receive of the other "
                 "phase, every maximal execution ends with every rank returned and every link delivered, and a rank that has "
                 "returned is quiet on all its links for the rest of the call (nothing of it in a FIFO, no request open, no "
                 "receive posted by its peer: a later call on the same communicator cannot meet this one); and for object "
                 "histories (any program of the four constructors with either compile-time default, copy construction, "
                 "assignment incl. self-assignment, destruction, use, on any of the user's communicators) the buffer size, the "
                 "interface map and the process group of every object are those of value semantics, no MPI call ever gets a "
                 "dead communicator, every object owns a live private duplicate and none is leaked, so the delivery theorem "
                 "holds for the object's own maxBufferSize. Tie to the source (round four): tools/translators/tr_c06.py regenerates lean/DuneVerif/Gen/C06.lean from variablesizecommunicator.hh on every run - the bodies of MessageBuffer (hasSpaceForItems, reset, both constructors), InterfaceTracker (finished, empty, indicesLeft, offset, skipZeroIndices, moveToNextIndex, increment), PackEntries, UnpackEntries, UnpackSizeEntries, SetupSendRequest, SetupRecvRequest, SizeDataHandle, InterfaceInformationChooser, forward/backward, setupInterfaceTrackers as Lean definitions (conditions, bounds, statement order, call arguments), the body checkAndContinue runs for one completed request (buffer functor with the MPI_Get_count value, skipZeroIndices, continuation through the communication functor, --no_completed), plus the tags and counts of the MPI calls, the size of every MessageBuffer vector by role, the default buffer sizes, the checkAndContinue wrappers and the consistency of the three progress loops (guard, initialisation and vectors of every counter) as data; the theorems src_tracker_buffer, src_pack_unpack, src_setup_requests, src_directions_trackers, src_check_and_continue, src_progress_loops, src_constants prove for all inputs that the generated definitions are the model functions the theorems above are about (round five: generated loop conditions/bodies are local lambdas that a congruence lemma replaces by canonical ones whenever they agree on every reachable loop state, so hoisted locals, respelled loops, guard clauses and helper functions do not break the tie) (and that the small-step machine Pair and the function-level recvLoop do exactly what the generated checkAndContinue body does), so these are re-proved against what the source says now. " "The model is run against the real class under mpirun -np 1..4 "
                 "(thorough: ..8) on random symmetric interface maps with a recording data handle, 23 item types (every "
                 "specialisation of mpitraits.hh: all primitive types directly or as FieldVector components, std::pair with "
                 "interior/tail padding and nested, FieldVector, bigunsignedint<k> with and without a partially filled top "
                 "digit, the generic byte-wise fallback), random object histories over up to four objects (both communicator "
                 "orders, buffers smaller/equal/bigger than B, decoy maps, calls on several objects, probes of bystanders), a "
                 "second build of the class with DUNE_PARALLEL_MAX_COMMUNICATION_BUFFER_SIZE defined, several calls mixing "
                 "fixed- and variable-size handles, PMPI-permuted MPI_Testsome completion orders, a per-case alarm that turns "
                 "a hang into a reported crash, an independent delivery oracle and a send/receive balance oracle (PMPI "
                 "counts of the started point-to-point operations).")
MANIFEST_NOTE = ("Trusted: Lean kernel; tools/translators/tr_c06.py (C++ subset -> Lean; tolerant to renamed and hoisted "
                 "unmodified locals, guard clause vs. if/else, if/return vs. conditional expression, commuted comparisons, "
                 "size()==0 vs. empty(), iterator vs. index vs. range-for loops over the same sequence, count-down loops with an "
                 "unused counter, for vs. while, early return vs. trailing if, helper member functions, std::count_if / "
                 "std::copy_n vs. the hand loop, reference aliases of trackers[i]/buffers[i]/the index lists, this->, integral "
                 "casts: the loops are compared semantically, Lean lemma loopG_congr, not as syntax trees; anything else "
                 "fails loudly) and Model/C06Src.lean (how index_, "
                 "interface_.size(), sizes_.size(), position_ are read off the model's zipper representation); the fidelity of "
                 "the parts that stay hand-written - MPI_Testsome/the loop over completed requests around the translated body, "
                 "setupRequests, the rank-level systems VarSys/FixSys (their counters are tied to the source by the consistency "
                 "table only), constructors/operator= - (differential runs only: scatter calls per source "
                 "rank, in order, with counts and items; for object histories: which calls return and deliver, i.e. the "
                 "effective buffer size, map and process group), OpenMPI (reliable, pairwise FIFO, synchronous-send semantics), "
                 "harness/mpi_c06*.cc|hh + pmpi_sched.cc, g++/ASan/UBSan. In the rank-level systems every rank is taken to have "
                 "entered the call and run its first setupRequests (a rank entering later is a pure delay); consecutive calls "
                 "on one communicator are independent because a rank that returned is quiet on all its links (proved) - the "
                 "composed multi-call system itself is not modelled; fairness of the MPI_Testsome busy-wait is assumed. "
                 "Fixed-size handles must report one size >= 1 (the code asserts it). scatter(index, 0) calls for zero-size "
                 "indices are not part of the compared behaviour; a message longer than the configured buffer is only "
                 "counted (an object that works with a bigger buffer than configured still delivers everything). Not "
                 "observable: completion of the scalar size sends before return (the final MPI_Waitall). The MPI datatypes "
                 "themselves are modelled by C07; here they only travel. Needs fixes/C06_zero_sizes_hang.patch (applied as "
                 "ebd31a1): the unrepaired code hangs when all sizes towards a neighbour are 0.")
TECHNIQUE = "Lean 4 proof over a tracker/buffer/round model (its functions regenerated from the C++ source by a translator and proved equal to the model), rank-level transition systems and an object-history model + MPI differential correspondence with schedule steering, hang alarm, delivery and balance oracles"
TRANSLATORS = [tr_c06.translate]
HARNESS = dict(
    sources=["mpi_c06.cc", "mpi_c06_cfg.cc", "pmpi_sched.cc"],
    mpi=True,
    repo_sources=["dune/common/exceptions.cc", "dune/common/stdstreams.cc"],
    flags=["-O0"],  # 23 item types x the whole communicator template (+ 3 in the second build): ~25 s; the sanitizers stay on
)
CRASH_IS_VIOLATION = True  # the property promises that forward()/backward() return on every process
RULE = ("cases: rank 0 draws a symmetric interface map over P processes (self interfaces, empty interfaces, one-directional "
        "links, repeated indices), a buffer size B in {1,2,3,4,5,7,8,16,32768}, per-rank fixed sizes f in {1,2,(B+1)/2,B-1,B,random} "
        "(equal or different between ranks) and/or per-index sizes from {0,1,2,B-1,B,random<=B} (streams: random, all zero, "
        "some ranks all zero, single non-zero, all B, zero-heavy), one of 23 item types, how the object(s) come about (one "
        "of the six round-two constructor letters, or a random history of 2-9 statements over up to four objects: "
        "construct with buffer in {B,B+3,1,B-1,(B+1)/2,2B,B+1,random,default} over the case's map or a decoy map on "
        "MPI_COMM_WORLD or on a communicator with reversed rank order, copy-construct, assign, self-assign, destroy, probe, "
        "call; in 1 of 9 cases with the class built with DUNE_PARALLEL_MAX_COMMUNICATION_BUFFER_SIZE=5), and a sequence of "
        "1-4 forward/backward calls on these objects, with handles of the case's mode or of the other mode; "
        "distinct = distinct op lines; non-trivial = at least one rank has a non-empty interface list")
ASSUMPTIONS = [
    "lean/DuneVerif/Gen/C06.lean is regenerated from variablesizecommunicator.hh by tools/translators/tr_c06.py and proved equal to the model functions (src_* theorems); the translator's reading of the C++ subset is trusted: integer expressions over size_t without wrap-around (index_ <= interface_.size(), position_+n within size_t; functional/static casts between integral types are the identity), short-circuit && / ||, statement order, `if` arms continued with the statements that follow (guard clause = if/else), loops `while(c) [if(d)] body [else break]`, counted for loops (ascending or descending by one, counter unused in the body, bound a literal / unmodified local / parameter) and any other `for(init;c;step) body` as `init; while(c){body;step;}`, integral locals that are never modified afterwards (no assignment, ++/--, address taken) as the value of their initialiser at the point of declaration, member functions of the same functor called with plain names as inlined bodies; in checkAndContinue and setupInterfaceTrackers references and unmodified copies that name the current request index / list position / trackers[i] / buffers[i] / requests2[i] / statuses[k] / the two index lists are replaced by what they stand for. Model/C06Src.lean's reading of the tracker's zipper representation is trusted. Spellings outside this grammar (reference locals in the pack/unpack functors, range-for over the completed list, do-while, continue, std::for_each, removed dead code) are reported as a broken obligation even when behaviour is unchanged",
    "the parts of the Lean models that stay hand-written (the iteration over completed requests, setupRequests, sendAll, the rank-level systems VarSys/FixSys with their counters, constructors/operator=: Model/C06.lean, C06Fix.lean, C06Life.lean) rest on the differential run (scatter calls per source rank, in order, with counts and items; effective buffer size, map and process group of every object a call is made on)",
    "MPI is trusted: reliable, pairwise FIFO per (source, tag, communicator); MPI_Issend completes once the matching receive has started; MPI_Testsome eventually reports a completed request; MPI_Comm_dup gives an independent communicator with the same group",
    "all processes run the same object history (same buffer sizes, symmetric interface maps whose k-th send and k-th receive entries match - the documented precondition) and call forward/backward collectively with handles that agree on fixedSize()",
    "a data handle writes exactly size(i) items in gather(i); a fixed-size handle has one size >= 1 for all indices (it may differ between ranks)",
    "completion orders are sampled (PMPI steering of MPI_Testsome); the theorems all_schedules_terminate and rank_level_* cover all of them at the protocol level",
    "the interface maps and Interface objects outlive every communicator object pointing to them (the class stores a pointer)",
]
TRUSTED = ["OpenMPI, mpicxx/libstdc++, ASan/UBSan", "tools/translators/tr_c06.py (parser of the C++ subset, Lean emitter)", "harness/mpi_c06.cc, mpi_c06_cfg.cc, mpi_c06_api.hh (generator, recording handle, item codecs, value-semantics shadow of the object histories, oracles, PMPI counters) + harness/pmpi_sched.cc",
           "Driver/C06.lean parsing/printing"]


def batches(tier, seed):
    res = []
    if tier == "quick":
        plan = [(1, 200), (2, 300), (3, 300), (4, 250)]
        reps = 1
    else:
        plan = [(1, 600), (2, 900), (3, 900), (4, 800), (5, 500), (6, 400), (7, 250), (8, 250)]
        reps = 2
    for r in range(reps):
        for np, n in plan:
            res.append(dict(args=["--seed", str(seed * 1000 + 17 * np + r), "--cases", str(n), "--tier", tier],
                            np=np, tag="np%d_%d" % (np, r), timeout=(600 if tier == "quick" else 2400)))
    return res


def search_batches(seed):
    return [dict(args=["--seed", str(seed * 7919 + 13 + i), "--cases", "400", "--tier", "thorough"], np=np, timeout=1200)
            for i, np in enumerate((2, 3, 4))]
