"""C19 — MPIGuard: failures are agreed on by all processes; futures deliver exactly once."""
from translators import tr_c19

PID = "C19"
CLAIM = True
MANIFEST_TEXT = (
    "Lean 4 theorems about an executable model of mpiguard.hh, of the future classes (MPIFuture<T>, "
    "MPIFuture<void>, the two-buffer MPIFuture<R,S> with its send object, PseudoFuture<T>, PseudoFuture<void>), of their "
    "move construction / move assignment and of the type-erasing Dune::Future<T>. Guard: each "
    "rank's code is a program that may issue the collective sum; finalize/reactivate/destructor are transcribed "
    "statement by statement; ranks of a communicator run in lock step (a rank that returned while another waits in a "
    "collective = deadlock). Proved for ALL rank sets, all failure subsets, both failure modes (exception/scope exit -> "
    "destructor, finalize(false)), all three ways of re-arming and any number of consecutive sections (induction): "
    "every path issues exactly one collective per section (one_collective_per_section), hence no deadlock "
    "(collectives_match_no_deadlock, sections_agree); the joint run deadlocks IFF the end of the case is unmatched, "
    "i.e. some but not all members end with a successful reactivate() and so owe another section (guard_deadlock_iff, "
    "ends_matched_sufficient); every rank reaching the checkpoint observes MPIGuardError iff some member failed "
    "(agreement, no_failure_no_error), a throwing rank keeps its own exception (failing_rank_passes), the destructor "
    "never throws, arming always yields an armed guard (rearm). Futures, for every call history over "
    "valid/ready/wait/get/spin with the operation completing at any point: valid iff no get yet "
    "(future_valid_until_get), get hands out exactly the operation's data exactly once (get_once) and exactly one get "
    "returns in all four classes (get_succeeds_once), every wait/get on any invalid future - result taken or default "
    "constructed - throws InvalidFutureException and hands out nothing (get_after_get_error, invalid_future_misuse, "
    "wait_invalid_error), ready is false while pending, true for ever once complete and stable once it answered true "
    "(ready_after_complete, ready_stays_true, ready_false_while_pending), the void classes are the payload-erased "
    "projection of the T classes (void_future_same_protocol), Dune::Future<T> answers like the future it holds and a "
    "null (default-constructed / moved-from) Dune::Future reports misuse (erased_future_transparent, "
    "null_future_reports_misuse). Round three: the move operations are transcribed swap by swap instead of being taken "
    "for the identity: after t = std::move(s) the target is exactly s - request, receive buffer and send object - for "
    "EVERY previous state of t, and the destroyed temporary is exactly the old t (move_assign_transfers, "
    "move_construct_transfers), hence a future variable re-used for a new operation answers every call history like "
    "the fresh future of that operation: never data, result or send object of the previous one (reused_future_no_stale); "
    "the two-buffer future answers valid/ready/wait/get exactly like MPIFuture<R> and keeps its send object through "
    "every history (two_buffer_same_protocol); get_send_data() hands back exactly the send object of the operation, "
    "acts as a wait() on everything else (the object is released only after completion) and throws on a future whose "
    "result was taken (send_data_once); a second get_send_data() on a still valid future is undefined in the code and "
    "excluded (send_data_twice_undefined). Round four: tools/translators/tr_c19.py regenerates lean/DuneVerif/Gen/C19.lean "
    "from mpiguard.hh, mpifuture.hh and future.hh on every run - finalize/reactivate/~MPIGuard statement by statement as "
    "programs with the collective, the default arguments and the active_ initialisers of the four constructors, and the "
    "straight-line members of MPIFuture<R,S>, impl::Buffer<T>/<T&>/<void>, PseudoFuture<T>/<void>, Future<T> and "
    "Future<T>::FutureModel<F> as lists of statements, operator=(MPIFuture&&) and the move constructor as lists of "
    "members - and the theorems gen_guard_is_model, gen_guard_ctor_arms, gen_future_is_model, gen_histories_are_model "
    "(every call history executed by the generated member bodies equals the model's), gen_moves_are_model, "
    "gen_pseudo_is_model, gen_erased_is_model prove, for every state, that what the source says today IS the model all "
    "other theorems are about (a changed body makes them false or leaves the translator's grammar = broken obligation); "
    "the non-blocking members of mpicommunication.hh / communication.hh are read into a table (what the future is "
    "constructed from, the one MPI_I* call, which of the future's buffers it gets, request stored in future.req_, future "
    "returned; copies between the parameters of the sequential members) and gen_operations_start / "
    "gen_seq_operations_start prove for all parameter values that each member returns exactly the start state the "
    "future theorems assume (valid, request pending, data_ = receive object, send_data_ = send object); "
    "unarmed_finalize_never_throws covers finalize on a guard that is not armed. "
    "Tie to the source on every run, second part: the real classes are driven under mpirun (P=1..4, "
    "thorough up to 8) through every guard constructor (default, MPIHelper, MPI_Comm, Communication<MPI_Comm> on split "
    "communicators, sequential Communication<No_Comm>), all 3^P failure patterns for P<=3 embedded in multi-section "
    "cases, every path of a rank through a section (guard object before x way of arming x act x act of a second rank; arm n "
    "constructs the guard with the constructor's DEFAULT argument since round four, arm a passes true, arm m false) "
    "plus random cases, and every non-blocking operation (ibarrier, ibroadcast, igather, iscatter, iallgather, "
    "iallreduce two-argument and in-place, isend/irecv (since round four also with lvalue buffers), default-constructed) "
    "x payload types (void, int, vector, bool, lvalue buffers int&/vector<int>&) x wrapper (the future itself, move-assigned into a default-constructed object, "
    "move-assigned into a variable that served a previous operation of the same kind with other values - result taken / "
    "only waited for / send object and result taken -, Dune::Future<R>, a re-used Dune::Future<R> variable, "
    "Dune::Future<void>, moved-from Dune::Future, default Dune::Future) x all call sequences of valid/ready/wait/get "
    "(and get_send_data, at most once, for the two-buffer operations) up to length 4 plus "
    "random per-rank sequences with environment-completion and polling steps; the Lean model must print the same "
    "per-rank observations, and an oracle evaluating the property statement directly (shadow flags, expected collective "
    "results, the send object handed back, collective counts observed through PMPI) judges every case; an ownership "
    "oracle records the send/receive buffers of every posted operation in the interposed MPI_I* calls and requires them "
    "to be live memory (ASan shadow) once the future has reached the object the calls are made on; since round four a "
    "completion claim of a valid future (ready() == true, wait()/get()/get_send_data() returning) must be backed by MPI "
    "having reported the request of the POSTED operation complete to that future (the interposed MPI_Wait/MPI_Test/... "
    "compare the handle they are asked about with the one the interposed MPI_I* call produced) - 'becomes ready once the "
    "operation has completed' for a future that does not hold the request of its operation."
)
MANIFEST_NOTE = (
    "Partial w.r.t. the runtime: MPI itself is trusted (a collective completes once every member entered it and "
    "delivers the same sum; a request completes iff the operation completed; MPI_Wait returns then; reliable FIFO "
    "transport) - the theorems are about the guard/future logic on top of it. ready() is made deterministic by "
    "answering the first MPI_Test of a ready() call with 'not complete' until the harness has seen the request complete "
    "(a legal MPI outcome). Payload of the sequential iallgather and of igather on non-root ranks is not judged "
    "(belongs to C07). Not covered (outside the property): the state of a moved-from MPIFuture/PseudoFuture object "
    "(the documentation calls it invalid, the code leaves MPIFuture<void>, MPIFuture<T&> and PseudoFuture valid), "
    "a second get_send_data() on a valid future (dereferences the emptied buffer), assignment to a variable whose "
    "previous operation is still in flight and destruction of a future with an active request (MPI_Cancel). Buffer "
    "identity is not modelled in Lean (the model moves values); that the future owns the very objects MPI uses is "
    "checked dynamically by the ownership oracle, which needs the ASan build check.py always uses. Model describes the tree with "
    "fixes/C19_mpifuture_void_get.patch, fixes/C19_future_null_invalid.patch and fixes/C19_mpifuture_bool_payload.patch "
    "applied. Translator (round four): a source change that leaves the grammar of tr_c19.py (documented in its header; "
    "e.g. try/catch, loops, a new kind of statement in a future member) is reported as a broken obligation even if it is "
    "behaviour preserving; restyling inside the grammar (renamed locals, std::exchange, commuted conditions, != 0 for > 0, "
    "early return, other swap order, static_cast, other exception texts) is silent. Round five: the translator normalises "
    "before its grammar - side-effect-free int/bool member helpers and plain void helpers of MPIGuard are inlined at their "
    "calls, member functions of the future classes defined after the class (other template parameter names) are read as "
    "in-class definitions, the wrapped members of Future<T>/FutureModel may have any name, conditional expression / if-else / "
    "inverted guard / && spellings of a two-way return, if-else with a DUNE_THROW branch for the guard clause, null tests "
    "(!= nullptr, static_cast<bool>, == false), this->, 'return flag != 0', void validity helpers of the future classes and a "
    "pointer/reference alias of future.req_ in the non-blocking members give the same generated text (self test: "
    "tools/translators/tr_c19.py --selftest, 18 quiet / 32 loud edits); data members of PseudoFuture and Buffer are found by declared type, not by name. Still reported although harmless: loops, "
    "try/catch, helpers with locals or early returns, value helpers in the future classes, members of the nested FutureModel "
    "defined outside the class, renamed data members of MPIFuture, reordered statements. The constructors' communicator "
    "argument and GuardCommunicator are not translated (run + oracle only), of the non-blocking members of (mpi)communication.hh "
    "only the construction/return of the future is (lengths, datatypes, the reduction: C07); "
    "finalize() on a guard that is not armed is modelled and proved silent (unarmed_finalize_never_throws) but not generated."
)
TECHNIQUE = ("Lean 4 proof over program-with-collectives model (lock-step semantics, induction over sections and call "
             "histories, exact deadlock characterisation) + translator regenerating guard programs and future member bodies "
             "from the source, proved equal to the model + differential correspondence under mpirun with PMPI "
             "interposition (deadlock turned into a verdict, MPI_Test steering) and a statement-level oracle")
TRANSLATORS = [tr_c19.translate]
HARNESS = dict(
    sources=["mpi_c19.cc", "pmpi_sched.cc"],
    mpi=True,
    repo_sources=["dune/common/exceptions.cc", "dune/common/stdstreams.cc"],
)
CRASH_IS_VIOLATION = True
# Batch timeouts are upper bounds against a hung mpirun only: a deadlock of the code under test is detected per case by
# the harness (alarm, --case-timeout 120 s) and by the collective-count oracle.  They are generous because the ranks of
# an oversubscribed mpirun busy-wait: at load 95 on 16 cores the quick np=4 batch (45 s on an idle machine) needed more
# than the former 600 s, which check.py reports as a crash of the op being executed (round four, seeds 2 and 3).
CORPUS_TIMEOUT = 3600
RULE = ("translator: Gen/C19.lean regenerated from the tree under test before the proofs are checked; cases: (a) guard: constructor x colour split x 1..6 sections, per rank arm in {new, new-inactive+reactivate, "
        "reactivate} and act in {finalize(true), finalize(), finalize(false), reactivate, throw, leave scope}, end of the "
        "case matched per communicator; for P<=3 every pattern over {ok, finalize(false), throw}^P occurs as a section "
        "for every constructor; every (guard object before, arm, act, act of rank 1) path of rank 0; (b) futures: "
        "operation x payload type x wrapper (raw, assigned, reused, reusedw, reusedd, erased, erasedreused, voidcast, "
        "movedfrom, null) x root x values, per step one call per rank; all sequences over "
        "{valid,ready,wait,get} (+ get_send_data at most once for igather/iscatter/iallgather/two-argument iallreduce on "
        "the MPI communicator) up to the tier's length for every operation (wrappers rotating), then random sequences "
        "with complete/spin/idle steps differing between ranks; distinct = distinct op lines; non-trivial = at least one "
        "rank made a judged call (idle-only ranks and steps consisting of '-'/'c' only are trivial)")
ASSUMPTIONS = [
    "MPI is trusted: collectives on one communicator match in order and deliver the sum to every member; a request completes iff its operation completed; MPI_Wait returns then; MPI_Test may answer 'not complete' for an active request",
    "the Lean model lean/DuneVerif/Model/C19.lean is hand-written; since round four the bodies of finalize/reactivate/~MPIGuard, the constructors' active_ initialisers and defaults, the members valid/wait/ready/get/get_send_data/operator=/move constructor of the future classes and the future-construction part of the non-blocking members of both communication classes are regenerated from the source by tools/translators/tr_c19.py and proved equal to it (gen_* theorems); the translator's normalisations of round five (helper inlining, out-of-class definitions pulled in, canonical member names, one spelling for two-way returns / guard clauses / null tests, alias of future.req_) are part of the trusted translator: each rewrites only between spellings that C++ defines to mean the same and refuses (broken obligation) whatever it cannot recognise; the meaning given to the statement kinds (lean Interp.*: MPI_Wait, MPI_Test, buffer get) and everything else (communicators, non-blocking members of the communication classes, wrappers) rests on this differential run",
    "theorems sections_agree/agreement/no_failure_no_error assume a matched end of the case (no member or every member of a communicator ends with a successful reactivate()); guard_deadlock_iff proves that exactly the other cases deadlock (a rank that re-armed owes another section); the harness and the driver reject those lines",
    "a re-used future variable is assigned to only after its previous operation has been waited for or taken (the harness never assigns over a request in flight: ~MPIFuture would MPI_Cancel it); the previous operation has the same kind and other values in every entry",
    "the collective results the futures deliver (sum/min/max, gather, scatter, broadcast, send/recv) are computed from the contributions at specification level; their MPI implementation is C07's subject",
]
TRUSTED = ["translator tools/translators/tr_c19.py (source normalisation, statement grammar -> Lean programs / statement lists)", "mpicxx/g++/libstdc++, ASan/UBSan (incl. __asan_region_is_poisoned for the ownership oracle), Open MPI 4.1 (incl. its profiling interface)",
           "harness/mpi_c19.cc (PMPI interposers, oracles; the completion-claim oracle knows MPI_Wait, MPI_Waitall, MPI_Test, MPI_Testall, MPI_Request_get_status as ways of asking MPI about a request) + Driver/C19.lean parsing/printing"]


def _b(np_, seed, seqlen, rnd, tier, tag, timeout, wrapenum=0):
    return dict(args=["--seed", str(seed), "--tier", tier, "--seqlen", str(seqlen), "--random", str(rnd),
                      "--wrapenum", str(wrapenum)],
                np=np_, tag=tag, timeout=timeout)


def batches(tier, seed):
    out = []
    if tier == "quick":
        for np_, sl, rnd in ((1, 4, 1500), (2, 4, 2500), (3, 3, 2500), (4, 3, 2000)):
            out.append(_b(np_, seed * 100 + np_, sl, rnd, tier, "np%d" % np_, 5400))
    else:
        for np_, sl, rnd in ((1, 5, 20000), (2, 5, 30000), (3, 5, 30000), (4, 4, 30000), (5, 3, 3000), (6, 3, 2500),
                             (8, 3, 1500)):
            out.append(_b(np_, seed * 100 + np_, sl, rnd, tier, "np%d" % np_, 21600, wrapenum=1 if np_ <= 4 else 0))
        for k, np_ in enumerate((2, 3, 4)):
            out.append(_b(np_, seed * 7919 + 31 + k, 1, 30000, tier, "np%d_r" % np_, 21600))
    return out


def search_batches(seed):
    return [_b(np_, seed * 104729 + 17 + np_, 4 if np_ <= 2 else 3, 20000, "quick", "search", 7200)
            for np_ in (2, 3, 1, 4)]
