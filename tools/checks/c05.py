"""C05 — Interface + buffered communication move each value to exactly its matches."""

PID = "C05"
CLAIM = True
MANIFEST_TEXT = ("21 Lean 4 theorems (lean/DuneVerif/Props/C05.lean) about a message-level model of Interface::build and "
                 "BufferedCommunicator (two passes count/add of buildInterface with the attribute tests, strip, "
                 "messageInformation_ layout with start in elements and size in bytes, gather into one buffer, per-neighbour "
                 "Issend/Irecv, receive buffer written by arriving messages in any order, MPI_Waitany loop with the completion "
                 "order as a parameter, scatter per message), on top of remote index lists defined as the sorted intersections "
                 "of the published index sets (what C04 proves for RemoteIndices::rebuild).  For every process count, every "
                 "decomposition with each global index at most once per set, one or two index sets per process (also mixed, "
                 "self-communication), ignorePublic on/off, arbitrary source/target attribute predicates, arbitrary "
                 "sizeof>0 and per-index component counts that agree on shared indices, arbitrary gather/scatter policies, all "
                 "arrival and completion orders: interface_spec (send/receive list = exactly the own published entries with "
                 "own attribute in S resp. T that have a published partner with attribute in T resp. S, ascending global "
                 "index, each once; reserved sizes exactly filled), interface_neighbours (strip), interface_mirror (k-th sent "
                 "= k-th received global index), slice_layout_disjoint_cover + recv_regions_disjoint (message = slice holding "
                 "the values gathered for that neighbour; slices tile the buffer; receive regions disjoint and in bounds), "
                 "forward_calls / forward_exactly_once (the scatter calls on a process are a permutation of the expected calls, "
                 "which carry pairwise distinct (sender, global index, component) tags), order_irrelevant_calls, "
                 "forward_copy_spec / forward_add_spec (single sender => target equals source, untouched entries unchanged; "
                 "commutative associative add => old value plus all senders' values), backward_is_forward_swapped with "
                 "backward_calls / backward_copy_spec / backward_add_spec, recv_posted_iff_send_posted (receive posted iff "
                 "send posted, equal byte size, both directions: message matching, hence the Waitany loop gets its "
                 "numberOfRealRecvRequests completions), reuse (a communicator carries no state between calls), datatype_calls / "
                 "datatype_copy_spec (the index lists behind DatatypeCommunicator's MPI datatypes are the unstripped interface "
                 "lists; moving send type into receive type neighbour by neighbour is exactly the expected calls).  The model is "
                 "run against the real RemoteIndices::rebuild + Interface::build + BufferedCommunicator (and "
                 "DatatypeCommunicator, Selection/UncachedSelection, all enumset.hh set classes) under mpirun -np 1..4 (quick) / "
                 "1..8 (thorough) with PMPI-permuted MPI_Waitany order; the harness oracle recomputes interface lists, the "
                 "multiset of scatter calls seen by a recording policy and the final container contents from the property's "
                 "definition.")
MANIFEST_NOTE = ("Trusted: Lean kernel (+propext/Classical.choice/Quot.sound), the hand-written model's fidelity "
                 "(differential runs only, bounded: P<=8, <=12 global indices per case, <=3 components), harness oracle, "
                 "g++/ASan/UBSan, OpenMPI (reliable, pairwise FIFO, a posted synchronous send and the matching posted receive "
                 "complete).  The remote index lists are taken as specified (C04 proves that specification for rebuild); "
                 "hypotheses: every global index at most once per index set and process, local indices distinct per set "
                 "(generator), component counts equal on both sides of a shared index.  Copy policy with several senders to one "
                 "entry is order dependent by nature: such entries are only required to hold one of the sent values "
                 "(printed as *).  DatatypeCommunicator: the index lists behind the MPI datatypes are modelled and the final "
                 "containers compared (copy, non-overlapping receives only); MPI_Type_create_hindexed, displacement "
                 "arithmetic and persistent requests are exercised, not modelled.  Termination is proved at the message "
                 "level (matching of posted operations), liveness of MPI itself is assumed; hangs of the real code are "
                 "detected by a per-case alarm.")
TECHNIQUE = "Lean 4 proof over a message-level model of Interface/BufferedCommunicator + differential correspondence under MPI with PMPI schedule steering and a definition-level oracle"
TRANSLATORS = []
HARNESS = dict(
    sources=["mpi_c05.cc", "pmpi_sched.cc"],
    mpi=True,
    repo_sources=["dune/common/exceptions.cc", "dune/common/stdstreams.cc"],
)
RULE = ("cases: random decompositions for P ranks: <=8 (thorough <=12) global indices, each placed on a random non-empty "
        "subset of the ranks per index set with random or grid-like (one owner, others overlap/copy) attributes out of 4, "
        "public flags none/all/mostly, local indices permuted with gaps; one index set, two index sets (redistribution, "
        "self-communication) or mixed; ignorePublic on/off; source/target attribute sets as masks realised by every "
        "enumset.hh class, classical owner->overlap patterns, symmetric, asymmetric, empty, all, or aimed at a shared pair; "
        "payload long / FieldVector<long,3> (SizeOne) / VariableSize policy with 1..3 components per index; copy or add "
        "recording policy; BufferedCommunicator (build<Data>(interface) or build(source,target,interface); one or two "
        "containers) or DatatypeCommunicator; 1-3 forward/backward rounds on one communicator; MPI_Waitany order permuted; "
        "distinct = distinct op lines; non-trivial = some interface list is non-empty")
ASSUMPTIONS = [
    "the Lean model lean/DuneVerif/Model/C05.lean is hand-written; its fidelity to interface.hh/communicator.hh rests on this differential run (P <= 8)",
    "remote index lists are defined as the specification proved in C04 (rebuild_spec); the harness runs the real RemoteIndices::rebuild",
    "MPI is trusted: reliable, pairwise FIFO; a posted MPI_Issend and the matching posted MPI_Irecv of the same size complete",
    "theorems assume every global index at most once per index set and process (WF) and equal component counts on both sides of a shared index (SizesByGlobal)",
    "copy policy with more than one sender to an entry: the property only requires one of the sent values (order dependent); checked as such",
    "DatatypeCommunicator: theorems about the index lists behind the datatypes; MPI_Type_create_hindexed/persistent requests are covered by the correspondence run only (copy, cases without overlapping receive buffers)",
]
TRUSTED = ["g++/libstdc++, ASan/UBSan, OpenMPI", "harness/mpi_c05.cc (generator, executor, definition-level oracle, recording policy) + harness/pmpi_sched.cc",
           "Driver/C05.lean parsing/printing and its open-entry bookkeeping (copy with several senders)"]


def batches(tier, seed):
    res = []
    if tier == "quick":
        plan = [(1, 400), (2, 900), (3, 900), (4, 900)]
        for (np, n) in plan:
            res.append(dict(args=["--seed", str(seed * 1000 + np), "--cases", str(n), "--tier", tier, "--case-timeout", "60"],
                            np=np, tag="np%d" % np, timeout=900))
        # one batch with the PMPI scheduler switched off (plain MPI order)
        res.append(dict(args=["--seed", str(seed * 1000 + 77), "--cases", "400", "--tier", tier, "--sched", "0",
                              "--case-timeout", "60"], np=3, tag="np3_nosched", timeout=900))
    else:
        plan = [(1, 3000), (2, 9000), (3, 9000), (4, 9000), (5, 4000), (6, 2500), (7, 1200), (8, 800)]
        for (np, n) in plan:
            res.append(dict(args=["--seed", str(seed * 1000 + 100 + np), "--cases", str(n), "--tier", tier,
                                  "--case-timeout", "90"], np=np, tag="np%d" % np, timeout=3000))
        res.append(dict(args=["--seed", str(seed * 1000 + 177), "--cases", "3000", "--tier", tier, "--sched", "0"], np=4,
                        tag="np4_nosched", timeout=3000))
    return res


def search_batches(seed):
    return [dict(args=["--seed", str(seed * 7919 + 13 + i), "--cases", "3000", "--tier", "thorough"], np=np, timeout=1500)
            for i, np in enumerate((2, 3, 4))]
