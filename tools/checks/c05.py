"""C05 — Interface + buffered communication move each value to exactly its matches."""

PID = "C05"
CLAIM = False
MANIFEST_TEXT = "under construction"
MANIFEST_NOTE = "under construction"
TECHNIQUE = "Lean 4 proof over a message-level model of Interface/BufferedCommunicator + differential correspondence under MPI with PMPI schedule steering and a definition-level oracle"
TRANSLATORS = []
HARNESS = dict(
    sources=["mpi_c05.cc", "pmpi_sched.cc"],
    mpi=True,
    repo_sources=["dune/common/exceptions.cc", "dune/common/stdstreams.cc"],
)
RULE = "under construction"
ASSUMPTIONS = []
TRUSTED = []


def batches(tier, seed):
    res = []
    if tier == "quick":
        plan = [(1, 300), (2, 600), (3, 600), (4, 600)]
        for (np, n) in plan:
            res.append(dict(args=["--seed", str(seed * 1000 + np), "--cases", str(n), "--tier", tier, "--case-timeout", "60"],
                            np=np, tag="np%d" % np, timeout=900))
        res.append(dict(args=["--seed", str(seed * 1000 + 77), "--cases", "300", "--tier", tier, "--sched", "0",
                              "--case-timeout", "60"], np=3, tag="np3_nosched", timeout=900))
    else:
        plan = [(1, 1500), (2, 4000), (3, 4000), (4, 4000), (5, 1500), (6, 1000), (7, 400), (8, 300)]
        for (np, n) in plan:
            res.append(dict(args=["--seed", str(seed * 1000 + 100 + np), "--cases", str(n), "--tier", tier,
                                  "--case-timeout", "90"], np=np, tag="np%d" % np, timeout=3000))
        res.append(dict(args=["--seed", str(seed * 1000 + 177), "--cases", "1000", "--tier", tier, "--sched", "0"], np=4,
                        tag="np4_nosched", timeout=3000))
    return res


def search_batches(seed):
    return [dict(args=["--seed", str(seed * 7919 + 13 + i), "--cases", "3000", "--tier", "thorough"], np=np, timeout=1500)
            for i, np in enumerate((2, 3, 4))]
