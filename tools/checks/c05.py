"""C05 — Interface + buffered communication move each value to exactly its matches."""

import os

from translators import tr_c05

PID = "C05"
CLAIM = True
MANIFEST_TEXT = ("49 Lean 4 theorems (lean/DuneVerif/Props/C05.lean) about a message-level model of Interface::build and "
                 "BufferedCommunicator (two passes count/add of buildInterface with the attribute tests REGENERATED from "
                 "interface.hh on every run, strip, messageInformation_ layout with start in elements and size in bytes, gather "
                 "into one buffer, per-neighbour Issend/Irecv, receive buffer written by arriving messages in any order on top "
                 "of whatever it held before, MPI_Waitany loop with the completion order as a parameter, scatter per message, "
                 "buffers persisting from one communication to the next, free()/build() again with std::map::insert "
                 "semantics), on top of remote index lists defined as the sorted intersections of the published index sets "
                 "(what C04 proves for RemoteIndices::rebuild).  For every process count, every decomposition with each "
                 "global index at most once per set, one or two index sets per process (also mixed, self-communication), "
                 "ignorePublic on/off, arbitrary source/target attribute predicates, arbitrary sizeof>0 and per-index "
                 "component counts that agree on shared indices, arbitrary gather/scatter policies, all arrival and "
                 "completion orders: interface_spec (needs only the index-set hypothesis; send/receive list = exactly the own "
                 "published entries with own attribute in S resp. T that have a published partner with attribute in T resp. S, "
                 "ascending global index, each once; reserved sizes exactly filled), interface_neighbours (strip), "
                 "interface_mirror (k-th sent = k-th received global index), slice_layout_disjoint_cover + "
                 "recv_regions_disjoint, forward_calls / forward_exactly_once (the scatter calls on a process are a "
                 "permutation of the expected calls, which carry pairwise distinct (sender, global index, component) tags) with "
                 "expected_iff (a tagged call is expected iff sender and receiver hold published entries for that global index "
                 "with attributes in S resp. T, and it carries the value gathered at the one to the local index of the other: "
                 "the delivery claim by definition, not by list position), order_irrelevant_calls, forward_copy_spec / "
                 "forward_add_spec, copy_some_sender (copy policy with several senders: one of the sent values), "
                 "backward_is_forward_swapped with backward_calls / backward_copy_spec / backward_add_spec, "
                 "stale_buffer_irrelevant / calls_any_buffer (what the receive buffer held before never reaches a scatter), "
                 "history_bufOK / history_calls / history_step_is_worldRound (induction over ALL histories of forward/backward "
                 "calls on one communicator, any schedules, any initial buffer contents: each communication delivers exactly "
                 "the values present before it), rebuild_is_fresh (build on a used communicator object = fresh build), "
                 "recv_posted_iff_send_posted + comm_progress / comm_measure (termination: in a transition system of the "
                 "processes' phases no state is a deadlock and every move decreases a measure <= 2P), reuse, datatype_calls / "
                 "datatype_copy_spec(_backward), interface_tests_regenerated / attrsets_spec / setExpr_spec / attrset_tables "
                 "(the attribute tests of buildInterface and the contains functions of all six enumset.hh classes, as "
                 "REGENERATED from the source, have the documented meaning; every nesting of the classes denotes the right "
                 "set); round three: the processes are not synchronised -- sendRecv_completes_all (the bounds of the MPI_Waitany "
                 "loop and of the wait for the sends, REGENERATED from communicator.hh, cover every posted receive and every "
                 "posted send), async_refines_history / async_history_is_runSt (an asynchronous transition system in which "
                 "every process walks through the history at its own pace, a posted send stays outstanding until it is "
                 "transferred and the transfer reads the sender's buffer AS IT IS THEN (rendezvous), a process leaves sendRecv "
                 "when its receives are complete and the sends it waits for are transferred, the user may assign new values "
                 "between communications: every reachable state agrees, process by process, with the collective history "
                 "semantics runSt for the landing/completion orders the run took, which are admissible schedules), "
                 "async_message_is_gathered (whatever MPI can transfer in a reachable state is the message gathered for the "
                 "communication the receiver is in), async_returns_without_pending_send, async_progress / async_measure (no "
                 "reachable state with an unfinished process is stuck; every move decreases a natural number: termination "
                 "over whole histories with late processes); round four: strip_regenerated / layout_regenerated / "
                 "direction_selectors_regenerated / datatype_selectors_regenerated / loops_regenerated -- REGENERATED from interface.hh and "
                 "communicator.hh on every run and proved equal to the model's definitions: the erase condition of "
                 "Interface::strip, the loop body of both BufferedCommunicator::build overloads (which index list and which "
                 "container size a message, the insert condition, the four MessageInformation arguments and the two "
                 "increments as arithmetic expressions; the driver builds every communicator with the regenerated loop), "
                 "every FORWARD ? first : second of sendRecv (buffers_[0/1]; start, size and if(size_) guard of MPI_Irecv and "
                 "MPI_Issend in both branches; the message located after MPI_Waitany), of both MessageGatherers and both "
                 "MessageScatterers, the template argument and argument order of the four forward/backward members, and the "
                 "plumbing of DatatypeCommunicator (messageTypes slot per send flag, containers handed to "
                 "createDataTypes/createRequests, datatype and address of MPI_Recv_init/MPI_Ssend_init per createForward, "
                 "request set filled and started: composed, each direction receives with the datatype of the model's "
                 "receive side on the container that datatype was built on), and the heads of the counting loops of "
                 "MessageSizeCalculator<Data,VariableSize>, both gatherers and both scatterers (start value, condition, unit step; "
                 "the statement of the innermost loop and the handling of the buffer position are recognised by the translator): "
                 "they visit 0..n-1 and the nested loops compute the model's sizeCalc and enumerate the model's slots.  The model is run against the real RemoteIndices::rebuild + Interface::build/free + "
                 "BufferedCommunicator (build, forward/backward histories of up to 8 calls, free()+build and build-again life "
                 "cycles with other attribute sets, recording and stock CopyGatherScatter policies) and DatatypeCommunicator, "
                 "Selection/UncachedSelection (also second and third use: setIndexSet on a built Selection for the other index set, "
                 "free()+setIndexSet, a default-constructed UncachedSelection), all enumset.hh set classes incl. nested Combine/NegateSet<Combine>/combine() "
                 "under mpirun -np 1..4 (quick) / 1..8 (thorough) with PMPI-permuted MPI_Waitany order, ranks that are late "
                 "for a communication (they enter it only when all others have finished the build's communications or a "
                 "timeout expired), new values assigned to all containers between communications, and a low shared-memory "
                 "eager limit so that messages of >= 16 bytes use the rendezvous transport; the harness oracle recomputes "
                 "interface lists, the multiset of scatter calls seen by a recording policy and the final container contents "
                 "from the property's definition, and a request tracker behind the MPI profiling interface "
                 "(harness/pmpi_c05.cc) reports a send buffer that is modified, received into or released before the program "
                 "has observed the send's completion, and requests never completed.")
MANIFEST_NOTE = ("Trusted: Lean kernel (+propext/Classical.choice/Quot.sound), tr_c05.py, the hand-written model's fidelity "
                 "(differential runs only, bounded: P<=8, <=12 global indices per case, <=3 components, <=8 communications "
                 "and <=3 rebuilds per communicator), harness oracle, g++/ASan/UBSan, OpenMPI (reliable, pairwise FIFO, "
                 "non-overtaking, a posted synchronous send and the matching posted receive complete).  The remote index lists "
                 "are taken as specified (C04 proves that specification for rebuild); hypotheses: every global index at most "
                 "once per index set and process, local indices distinct per set (generator), component counts equal on both "
                 "sides of a shared index.  Copy policy with several senders to one entry is order dependent by nature: such "
                 "entries are only required to hold one of the sent values (printed as *; theorem copy_some_sender).  "
                 "DatatypeCommunicator: the index lists behind the MPI datatypes are modelled and the final containers "
                 "compared (copy, non-overlapping receives only); MPI_Type_create_hindexed, displacement arithmetic and "
                 "persistent requests are exercised, not modelled.  Termination is proved at the message level (matching of "
                 "posted operations, no deadlock state, decreasing measure), liveness of MPI itself is assumed; hangs of the "
                 "real code are detected by a per-case alarm.  Round three: that consecutive communications do not mix is no "
                 "longer assumed but proved from the completion loops of sendRecv in the asynchronous model; what remains "
                 "trusted about MPI there: pairwise FIFO matching, a send's payload is read from its buffer at one moment "
                 "between posting and completion (not piecewise), a synchronous send completes only after it was matched.  "
                 "Whether a too-early return of sendRecv delivers wrong VALUES in a given run depends on timing and "
                 "transport; the schedule-independent criterion checked on every case is MPI's own rule (buffer untouched "
                 "until completion observed, every request completed), wrong values are reported in addition when the late "
                 "ranks and the rendezvous transport expose them.  The low eager limit is an Open MPI MCA parameter "
                 "(btl_vader_eager_limit=64, set by the harness unless DV_C05_EAGER=0); with another MPI only the tracker "
                 "rule applies.  If a refactoring takes buildInterface's attribute tests, an "
                 "enumset.hh contains body, the completion loops or the direction selectors of sendRecv / gatherers / "
                 "scatterers / DatatypeCommunicator, the loop body of build, the counting loops of size calculator / gatherers / scatterers or the condition of strip outside the translator's grammar, the translator falls back to its built-in "
                 "transcription (counted as translator_fallbacks in the evidence) and that item is tied by the differential "
                 "run only.  Needs fixes/C05_build_twice.patch (BufferedCommunicator::build on a built communicator kept stale "
                 "message information) and fixes/C05_combine_type.patch (Combine had no member Type: nested/negated Combine did "
                 "not compile); on a tree without them the check reports these as violations with replays.  Not modelled: "
                 "CommPolicy<VariableBlockVector<..>> (the class lives in dune-istl), RemoteIndicesStateError of an unsynced "
                 "RemoteIndices (C04's isSynced), Interface::operator== (compares the argument with itself; not part of the "
                 "property).")
TECHNIQUE = "Lean 4 proof over a message-level stateful model of Interface/BufferedCommunicator (induction over histories, refinement of an asynchronous multi-process transition system to the collective semantics, deadlock-freedom + measure) + translator for the attribute tests, enumset.hh, the completion loops and all direction selectors of sendRecv/gatherers/scatterers/DatatypeCommunicator, the loop body of build (arithmetic expressions), the counting loops of size calculator/gatherers/scatterers and the condition of strip + differential correspondence under MPI with PMPI schedule steering, late ranks, a PMPI request-discipline tracker and a definition-level oracle"
TRANSLATORS = [tr_c05.translate]
HARNESS = dict(
    sources=["mpi_c05.cc", "pmpi_c05.cc"],
    mpi=True,
    repo_sources=["dune/common/exceptions.cc", "dune/common/stdstreams.cc"],
)
RULE = ("cases: random decompositions for P ranks: <=8 (thorough <=12) global indices, each placed on a random non-empty "
        "subset of the ranks per index set with random or grid-like (one owner, others overlap/copy) attributes out of 4, "
        "public flags none/all/mostly, local indices permuted with gaps; one index set, two index sets (redistribution, "
        "self-communication) or mixed; ignorePublic on/off; source/target attribute sets as masks realised by every "
        "enumset.hh class (1 in 5 through nested Combine / NegateSet<Combine> / combine()), classical owner->overlap "
        "patterns, symmetric, asymmetric, empty, all, or aimed at a shared pair; payload long / FieldVector<long,3> (SizeOne) "
        "/ VariableSize policy with 0..3 components per index; copy or add recording policy or the stock CopyGatherScatter; "
        "BufferedCommunicator (build<Data>(interface) or build(source,target,interface); one or two containers) or "
        "DatatypeCommunicator; 1-3 forward/backward calls per build, 30% of the cases with 1-3 further builds of the same "
        "communicator object for other attribute sets (free()+Interface::free()+build, or build again without free; one "
        "attribute more or less, swapped, identical or unrelated sets), up to 8 communications; MPI_Waitany order permuted; "
        "per run of communications: 20% with a rank that is late for one of them (l<r>; it waits until all others finished "
        "the build's communications, at most 4 ms), mostly followed by new values in all containers after that "
        "communication (m<k>), 20% with new values somewhere between two communications; "
        "every case also builds Selection/UncachedSelection for the source attribute set on the source index set, re-targets the same "
        "objects to the target index set (setIndexSet on a built object), frees and re-targets back; "
        "distinct = distinct op lines; non-trivial = some interface list is non-empty")
ASSUMPTIONS = [
    "the Lean model lean/DuneVerif/Model/C05.lean is hand-written except for the attribute tests of buildInterface, the contains functions of enumset.hh, the erase condition of strip and the loop body of BufferedCommunicator::build, which tools/translators/tr_c05.py regenerates from the source and the driver executes; the completion-loop bounds, the direction selectors (FORWARD ? first : second) and the loop heads of size calculator / gatherers / scatterers of communicator.hh are regenerated and PROVED equal to the hand-written selectors of the model (the driver runs the hand-written ones) (fail-soft: outside its grammar the built-in transcription is used and counted in distribution.translator_fallbacks); its fidelity to interface.hh/communicator.hh rests on this differential run (P <= 8)",
    "remote index lists are defined as the specification proved in C04 (rebuild_spec); the harness runs the real RemoteIndices::rebuild",
    "MPI is trusted: reliable, pairwise FIFO, non-overtaking; a posted MPI_Issend and the matching posted MPI_Irecv of the same size complete; a send's payload is read from its buffer at one moment between posting and completion; that consecutive communications on one communicator do not mix is PROVED from the completion loops of sendRecv (async_refines_history), not assumed",
    "a sendRecv that returns with a send pending is reported by MPI's buffer rule (harness/pmpi_c05.cc: buffer modified / received into / released before completion was observed; request never completed), which does not depend on timing; wrong delivered values are additionally reported when late ranks + rendezvous transport (Open MPI MCA btl_vader_eager_limit=64 set by the harness) expose them",
    "theorems assume every global index at most once per index set and process (WF) and equal component counts on both sides of a shared index (SizesByGlobal)",
    "copy policy with more than one sender to an entry: the property only requires one of the sent values (order dependent); proved (copy_some_sender) and checked as such",
    "DatatypeCommunicator: theorems about the index lists behind the datatypes; MPI_Type_create_hindexed/persistent requests are covered by the correspondence run only (copy, cases without overlapping receive buffers)",
    "needs fixes/C05_build_twice.patch and fixes/C05_combine_type.patch applied to the tree under test",
]
TRUSTED = ["g++/libstdc++, ASan/UBSan, OpenMPI", "translator tools/translators/tr_c05.py",
           "harness/mpi_c05.cc (generator, executor, definition-level oracle, recording policy) + harness/pmpi_c05.cc (request tracker; includes the shared harness/pmpi_sched.cc)",
           "Driver/C05.lean parsing/printing and its open-entry bookkeeping (copy with several senders)"]


def _fallbacks():
    st = tr_c05.status(os.environ.get("VERIF_REPO", "/repo"))
    return sum(1 for v in st.values() if v is not None)


def batches(tier, seed):
    res = []
    fb = str(_fallbacks())
    if tier == "quick":
        plan = [(1, 400), (2, 900), (3, 900), (4, 900)]
        for (np, n) in plan:
            res.append(dict(args=["--seed", str(seed * 1000 + np), "--cases", str(n), "--tier", tier, "--case-timeout", "60"] +
                            (["--trfallbacks", fb] if np == 1 else []),
                            np=np, tag="np%d" % np, timeout=900))
        # one batch with the PMPI scheduler switched off (plain MPI order)
        res.append(dict(args=["--seed", str(seed * 1000 + 77), "--cases", "400", "--tier", tier, "--sched", "0",
                              "--case-timeout", "60"], np=3, tag="np3_nosched", timeout=900))
    else:
        plan = [(1, 3000), (2, 9000), (3, 9000), (4, 9000), (5, 4000), (6, 2500), (7, 1200), (8, 800)]
        for (np, n) in plan:
            res.append(dict(args=["--seed", str(seed * 1000 + 100 + np), "--cases", str(n), "--tier", tier,
                                  "--case-timeout", "90"] + (["--trfallbacks", fb] if np == 1 else []),
                            np=np, tag="np%d" % np, timeout=3000))
        res.append(dict(args=["--seed", str(seed * 1000 + 177), "--cases", "3000", "--tier", tier, "--sched", "0"], np=4,
                        tag="np4_nosched", timeout=3000))
        # late ranks that stay away for up to 20 ms (default 4 ms)
        res.append(dict(args=["--seed", str(seed * 1000 + 188), "--cases", "1500", "--tier", tier, "--lag-us", "20000",
                              "--case-timeout", "90"], np=3, tag="np3_longlag", timeout=3000))
    return res


def search_batches(seed):
    return [dict(args=["--seed", str(seed * 7919 + 13 + i), "--cases", "3000", "--tier", "thorough"], np=np, timeout=1500)
            for i, np in enumerate((2, 3, 4))]
