"""C10 — bigunsignedint<k> is arithmetic modulo 2^w."""
from translators import tr_c10

PID = "C10"
CLAIM = True
MANIFEST_TEXT = ("43 Lean 4 theorems (lean/DuneVerif/Props/C10.lean), for every digit count n (unbounded) and all well-formed "
                 "operands, about the digit-loop model of bigunsignedint that the driver runs against the real class: "
                 "add/incr/sub/mul are exact modulo W=2^(16n) (carry, borrow, double-width temporary and truncation included), "
                 "div/mod by a non-zero divisor return the exact quotient/remainder with the subtraction loop leaving through "
                 "its exit test (fuel-independence), a zero divisor gives MathError in both; and/or/xor equal Nat.land/lor/xor "
                 "of the values, ~a = W-1-a, a<<s = a*2^s mod W for s<w, a>>s = a/2^s; the six comparisons decide the order of "
                 "the values; construction from uintmax_t is x mod W for every n, the signed constructor rejects negatives; "
                 "touint is val mod 2^32 for every n>=1 (also one digit); todouble's exact result m*2^e has m<2^53, is <= val and "
                 "has relative error < 2^-32 for every magnitude; parsing the printed hex gives val back; max = W-1; val is "
                 "injective on n-digit lists, hence equal values hash equally. The proofs use the masks/width formula "
                 "regenerated from bigunsignedint.hh on every run (bitmask=2^bits-1, overflowmask odd, compbitmask keeps the upper digit, "
                 "hexdigits*4=bits, 53/bits digits kept) as obligations, and the model is run against the real class on >=20k "
                 "boundary-biased cases per run with a GMP oracle deciding the property itself on the real code.")
MANIFEST_NOTE = ("Trusted: Lean kernel (+propext/Classical.choice/Quot.sound), tr_c10.py, the hand-written model's fidelity "
                 "(lean/DuneVerif/Model/C10.lean mirrors each operator loop; checked by differential execution only), GMP, "
                 "g++/ASan/UBSan. todouble is proved for the exact number mantissa*2^exponent the loop computes (mantissa<2^53 is a "
                 "theorem, so the double operations are exact below 2^1024); the double arithmetic itself, the hash function's "
                 "value, and O(quotient) division with quotients >400 are covered by the run only or not at all. A behavioural "
                 "change of todouble that keeps the 2^-32 bound is reported as no-failing-input-found (model is an exact copy).")
TECHNIQUE = 'Lean 4 proof over digit-list model + translator for constants + differential correspondence with GMP oracle'
TRANSLATORS = [tr_c10.translate]
HARNESS = dict(
    sources=["cxx_c10.cc"],
    repo_sources=["dune/common/exceptions.cc", "dune/common/stdstreams.cc"],
    libs=["-lgmpxx", "-lgmp"],
)
RULE = ("cases: random operator x width k in {8,16,24,32,48,64,100,128,256} x operands whose 16-bit digits are drawn "
        "mostly from {0000,0001,7fff,8000,fffe,ffff}; related operand pairs (equal, +-1, one-bit difference, sums at "
        "the wrap); distinct = distinct op lines; non-trivial = oracle-checked value/comparison (hasheq on unequal "
        "values is trivial)")
ASSUMPTIONS = [
    "the Lean model lean/DuneVerif/Model/C10.lean is hand-written; its fidelity to bigunsignedint.hh rests on this differential run",
    "constants (bits, masks, digit-count formula) are regenerated from the source by tools/translators/tr_c10.py",
    "todouble: IEEE double operations are exact on the modelled values (theorem todouble_mantissa_exact: mantissa < 2^53; ldexp exact below 2^1024)",
    "division/remainder are exercised with quotients <= 400 only (the real algorithm is O(quotient))",
]
TRUSTED = ["g++/libstdc++, ASan/UBSan, GMP as oracle", "translator tr_c10.py", "harness/cxx_c10.cc + Driver/C10.lean parsing/printing"]


def batches(tier, seed):
    n = 20000 if tier == "quick" else 1500000
    parts = 4 if tier == "quick" else 16
    return [dict(args=["--seed", str(seed * 1000 + i), "--cases", str(n // parts), "--tier", tier], tag="g%d" % i,
                 timeout=(90 if tier == "quick" else 1500)) for i in range(parts)]


def search_batches(seed):
    return [dict(args=["--seed", str(seed * 7919 + 13 + i), "--cases", "100000"], timeout=900) for i in range(3)]
