"""C10 — bigunsignedint<k> is arithmetic modulo 2^w."""
from translators import tr_c10

PID = "C10"
CLAIM = True
MANIFEST_TEXT = ("64 Lean 4 theorems (lean/DuneVerif/Props/C10.lean), for every digit count n (unbounded) and all well-formed "
                 "operands, about the digit-loop model of bigunsignedint that the driver runs against the real class: "
                 "add/incr/sub/mul are exact modulo W=2^(16n) (carry, borrow, double-width temporary and truncation included), "
                 "div/mod by a non-zero divisor return the exact quotient/remainder with the subtraction loop leaving through "
                 "its exit test (fuel-independence), a zero divisor gives MathError in both; and/or/xor equal Nat.land/lor/xor "
                 "of the values, ~a = W-1-a, a<<s = a*2^s mod W for s<w, a>>s = a/2^s; the six comparisons decide the order of "
                 "the values; construction from uintmax_t is x mod W for every n, every signed built-in type rejects exactly its "
                 "negatives (construct_spec: all overloads up to 64 bits); all ten mixed operators with a built-in operand are the "
                 "big operation on y mod W (a multiple of W is a reported zero divisor); touint is val mod 2^32 for every n>=1; "
                 "todouble's exact result m*2^e has m<2^53, is <= val, exact below 2^48 and has relative error < 2^-32 for every "
                 "magnitude; parsing the printed hex (also with leading zeros stripped) gives val back; numeric_limits: "
                 "radix^digits = W, max = radix^digits-1, min = 0, unsigned/exact/bounded/modulo flags; val is injective, hence "
                 "equal values hash equally; the commutative-ring laws hold as equalities of the returned digit lists; and "
                 "prog_refines: for ALL histories of compound statements (d op= s with d,s possibly the same variable, mixed, ++, "
                 "~, shifts, copies) on two variables the model run equals, observation by observation, the machine over natural "
                 "numbers mod 2^(16n) (induction over the program; a/=a is 1, a%=a is 0). The proofs use the masks/width "
                 "formula/numeric_limits data regenerated from bigunsignedint.hh on every run as obligations, and the model is "
                 "run against the real class on >=24k boundary-biased cases per run (single operators, constructor overloads "
                 "from 11 built-in types, histories of up to 10/24 statements) with a GMP oracle deciding the property itself. "
                 "Round four: straight-line code of the header is regenerated too -- the operator list of DUNE_BINOP, the bodies of "
                 "the 20 free mixed operators (10 for uintmax_t, 10 from the signed-operand macro) as a table (mixed_table_spec: "
                 "each applies its own operator to the operands in their own order after converting the built-in one), how > >= == "
                 "are derived from <= < != (gt_iff/ge_iff/eq_iff are now about the generated definitions), the remaining "
                 "numeric_limits members (limits_rest_spec) and the MPI datatype of MPITraits<bigunsignedint<k>> (mpi_type_spec: one "
                 "block at `digit` of n elements of `bits` bits = numeric_limits::digits bits) -- and the model evaluates mixed "
                 "operators and derived comparisons through these tables. hist_refines extends the all-histories refinement to "
                 "statements with a built-in operand of any integral type up to 64 bits (d = d OP y, d = y OP d through the table; "
                 "d OP= y through the implicit constructor), the six comparisons between variables/with themselves/with a "
                 "built-in, and touint(), with observations value | MathError | negative operand rejected | boolean | number; "
                 "negative_builtin_rejected: a negative built-in is rejected in all of them and nothing is modified. alias_refines: the "
                 "compound operators modelled IN PLACE on an indexed store (explicit reads/writes per round; the right operand may "
                 "be the destination's own store, read at access time) equal the value-level operators for every operator, width "
                 "and operand, so a op= a is val a op val a mod W; hist_mem_refines: histories run that way (what the driver "
                 "executes) refine the specification machine. divLoop_fuel_irrelevant now holds for any fuel above the quotient.")
MANIFEST_NOTE = ("Trusted: Lean kernel (+propext/Classical.choice/Quot.sound), tr_c10.py, the hand-written model's fidelity "
                 "(lean/DuneVerif/Model/C10.lean mirrors each operator loop, Model/C10Prog.lean the statement semantics; checked "
                 "by differential execution only), GMP, g++/ASan/UBSan. Aliasing (a op= a) is modelled at memory level "
                 "(Model/C10Mem.lean, alias_refines) for += -= &= |= ^=; for *= (write-back after the loops) and /= %= (copy of the "
                 "divisor) the aliasing structure is a modelling statement checked by the run. todouble is "
                 "proved for the exact number mantissa*2^exponent the loop computes (mantissa<2^53 is a theorem, so the double "
                 "operations are exact below 2^1024; for k>1024 ldexp overflows to inf, not instantiated); the double arithmetic "
                 "itself, the hash function's value, MPITraits, and O(quotient) division with quotients >400 (single operators) / "
                 ">2000 (histories: such a statement ends the case with SKIP) are covered by the run only or not at all. A "
                 "behavioural change of todouble that keeps the 2^-32 bound is reported as no-failing-input-found (model is an "
                 "exact copy). MPITraits<bigunsignedint<k>>::getType is translated and executed inside one process only (singleton MPI, "
                 "MPI_Sendrecv on MPI_COMM_SELF; MPI itself trusted); overload "
                 "resolution between the signed template overloads and the uintmax_t overloads is a hand-written rule of the model "
                 "(signed type -> checking overload), checked by the run for i8 i16 i32 long long-long u8 u16 u32 ulong "
                 "ulong-long bool; printing is run under showbase/uppercase/showpos/hex/oct flags but not with a field width.")
TECHNIQUE = 'Lean 4 proof over digit-list model (per operator + all histories with built-in operands and observations) + translator for constants/limits/operator tables/derived comparisons/MPI datatype + differential correspondence with GMP oracle'
TRANSLATORS = [tr_c10.translate]
HARNESS = dict(
    sources=["cxx_c10.cc"],
    mpi=True,        # compiled with mpicxx -DHAVE_MPI=1; run WITHOUT mpirun: the `mpi` cases start MPI as a singleton and
                     # push values through MPITraits<bigunsignedint<k>>::getType() with MPI_Sendrecv on MPI_COMM_SELF
    repo_sources=["dune/common/exceptions.cc", "dune/common/stdstreams.cc"],
    libs=["-lgmpxx", "-lgmp"],
    flags=["-O0"],   # ten widths x all operators: 12 s instead of 45 s to compile; the run itself takes < 5 s
)
RULE = ("cases: random operator x width k in {1,8,16,17,24,32,48,64,65,100,128,129,256} x operands whose 16-bit digits are drawn "
        "mostly from {0000,0001,7fff,8000,fffe,ffff}; related operand pairs (equal, +-1, one-bit difference, sums at "
        "the wrap); constructor calls from i8/i16/i32/i64(long, long long)/u8/u16/u32/u64/bool at the type's limits; "
        "histories `k prog A B : stmt;...` of 1..10 (thorough 1..24) compound statements on two variables, a quarter of the "
        "binary statements self-aliased, a third of the statements with a typed built-in operand (i8..i64, u8..u64, bool; a "
        "quarter of those negative), comparisons (also x CMP x, x CMP own value +-1, x CMP low 64 bits) or touint; printing "
        "under 32 combinations of stream format flags; three values through the MPI datatype; distinct = distinct op lines; non-trivial = oracle-checked value/comparison "
        "(hasheq on unequal values is trivial)")
ASSUMPTIONS = [
    "the Lean model lean/DuneVerif/Model/C10.lean + C10Prog.lean is hand-written; its fidelity to bigunsignedint.hh rests on this differential run",
    "constants (bits, masks, digit-count formula), the numeric_limits data, the DUNE_BINOP operator list, the bodies of the 20 mixed operators, the derivation of > >= == and the MPI datatype description are regenerated from the source by tools/translators/tr_c10.py",
    "C++ overload resolution (signed built-in -> checking template overload / constructor, everything else -> uintmax_t) is a hand-written rule of the model, exercised by the run for 11 built-in types",
    "MPITraits<bigunsignedint<k>>::getType is translated and executed within one process (singleton MPI_Init, MPI_COMM_SELF); MPI itself is trusted to transport a committed datatype",
    "todouble: IEEE double operations are exact on the modelled values (theorem todouble_mantissa_exact: mantissa < 2^53; ldexp exact below 2^1024)",
    "division/remainder are exercised with quotients <= 400 (single operators) / <= 2000 (histories) only (the real algorithm is O(quotient))",
    "self-aliased compound operators (a op= a) are modelled on an indexed store whose right operand aliases the destination (alias_refines); that the real loops read index i before writing it is the hand-written model's claim, checked by the run; a case that does not return within 10 s is killed and reported",
]
TRUSTED = ["g++/libstdc++, ASan/UBSan, GMP as oracle", "translator tr_c10.py", "harness/cxx_c10.cc + Driver/C10.lean parsing/printing"]


def batches(tier, seed):
    n = 24000 if tier == "quick" else 1500000
    parts = 4 if tier == "quick" else 16
    return [dict(args=["--seed", str(seed * 1000 + i), "--cases", str(n // parts), "--tier", tier], tag="g%d" % i,
                 timeout=(120 if tier == "quick" else 1800)) for i in range(parts)]


def search_batches(seed):
    return [dict(args=["--seed", str(seed * 7919 + 13 + i), "--cases", "100000"], timeout=900) for i in range(3)]
