"""C10 — bigunsignedint<k> is arithmetic modulo 2^w."""
from translators import tr_c10

PID = "C10"
CLAIM = True
MANIFEST_TEXT = "Lean 4 theorems (all widths n>=1, all well-formed digit lists) that the digit-loop model of bigunsignedint computes arithmetic modulo 2^(16n); the model's masks/width formula are regenerated from bigunsignedint.hh each run, and the model is run against the real class on >=20k boundary-biased cases per run with a GMP oracle deciding the property itself."
MANIFEST_NOTE = "Trusted: Lean kernel (+propext/Classical.choice/Quot.sound), tr_c10.py, the hand-written model's fidelity (checked by differential execution only), GMP, g++/ASan/UBSan. todouble's final IEEE step and O(quotient) division with large quotients are outside the run."
TECHNIQUE = 'Lean 4 proof over digit-list model + translator for constants + differential correspondence with GMP oracle'
TRANSLATORS = [tr_c10.translate]
HARNESS = dict(
    sources=["cxx_c10.cc"],
    repo_sources=["dune/common/exceptions.cc", "dune/common/stdstreams.cc"],
    libs=["-lgmpxx", "-lgmp"],
)
RULE = ("cases: random operator x width k in {8,16,24,32,48,64,100,128,256} x operands whose 16-bit digits are drawn "
        "mostly from {0000,0001,7fff,8000,fffe,ffff}; related operand pairs (equal, +-1, one-bit difference, sums at "
        "the wrap); distinct = distinct op lines; non-trivial = oracle-checked value/comparison (hasheq on unequal "
        "values is trivial)")
ASSUMPTIONS = [
    "the Lean model lean/DuneVerif/Model/C10.lean is hand-written; its fidelity to bigunsignedint.hh rests on this differential run",
    "constants (bits, masks, digit-count formula) are regenerated from the source by tools/translators/tr_c10.py",
    "todouble: the final IEEE operations are exact for the modelled values (integers < 2^48 times a power of two)",
    "division/remainder are exercised with quotients <= 400 only (the real algorithm is O(quotient))",
]
TRUSTED = ["g++/libstdc++, ASan/UBSan, GMP as oracle", "translator tr_c10.py", "harness/cxx_c10.cc + Driver/C10.lean parsing/printing"]


def batches(tier, seed):
    n = 20000 if tier == "quick" else 1500000
    parts = 4 if tier == "quick" else 16
    return [dict(args=["--seed", str(seed * 1000 + i), "--cases", str(n // parts), "--tier", tier], tag="g%d" % i,
                 timeout=(300 if tier == "quick" else 3000)) for i in range(parts)]


def search_batches(seed):
    return [dict(args=["--seed", str(seed * 7919 + 13 + i), "--cases", "100000"], timeout=900) for i in range(3)]
