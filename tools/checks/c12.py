"""C12 — ParameterTree returns what the configuration source says, or a precise error."""

PID = "C12"
CLAIM = True
MANIFEST_TEXT = ("Lean 4 theorems about a line-by-line transcription of readINITree, ParameterTree's operator[]/hasKey/sub, "
                 "readOptions/readNamedOptions and Parser<T>: every document of the documented INI dialect (any mix of groups, dotted "
                 "keys, blanks, comments, quoting, multi-line values) parses to exactly the assignments it denotes; groups = dotted "
                 "keys; first-appearance order; duplicate rejected; overwrite flag; the parser terminates on all input; integer text "
                 "round-trips and malformed/over-long text is a RangeError.  The model is run against the real code on generated "
                 "documents/argument vectors/value strings each run, with independent reference oracles deciding the property.")
MANIFEST_NOTE = ("Trusted: Lean kernel (+propext/Classical.choice/Quot.sound), the hand-written model's fidelity (differential "
                 "execution only), the harness' reference parser/recognisers, g++/libstdc++/ASan/UBSan.  operator>> is libstdc++'s: "
                 "its integer and floating lexers are modelled (floating values compared bit-exactly through a correctly rounded "
                 "conversion in the model), no theorem is stated about floating point.  Hostile byte streams: only 'no crash, no "
                 "hang, Dune exception or success' is checked (no model comparison).  Not claimed: '#' inside quoted values, a "
                 "negative literal for an unsigned target, keys that are both value and group.")
TECHNIQUE = "Lean 4 proof over a transcribed parser/tree/lexer model + differential correspondence with independent reference oracles"
TRANSLATORS = []
HARNESS = dict(
    sources=["cxx_c12.cc"],
    repo_sources=["dune/common/parametertree.cc", "dune/common/parametertreeparser.cc", "dune/common/exceptions.cc",
                  "dune/common/stdstreams.cc"],
    flags=["-D_GLIBCXX_ASSERTIONS"],
)
RULE = ("cases: rt = random key/value hierarchy (shared groups, depth<=4) spelled item by item (group vs dotted, blanks, CR, "
        "either quote, multi-line values, comments, blank lines, [] resets, optional first source + overwrite flag, occasional "
        "duplicates); ini = raw documents (documentation example, hand-written, rendered, byte-mutated) judged by a strict "
        "dialect recogniser; get = value strings for 40 target types (limits of 16/32/64-bit, signs, leading zeros, blanks "
        "incl. \\v\\f, trailing garbage, too few/many items, double overflow/underflow/ties) under two global locales; "
        "opt/nopt = argument vectors; tq = tree queries incl. defaults; hostile = random bytes, unbalanced quotes, huge lines. "
        "distinct = distinct op lines; non-trivial = the independent oracle made a claim (inside the dialect / syntax)")
ASSUMPTIONS = [
    "the Lean model lean/DuneVerif/Model/C12.lean is hand-written; its fidelity to parametertree.{hh,cc}/parametertreeparser.cc rests on this differential run",
    "bytes are modelled as Lean Char values < 256; std::string/std::istringstream/getline behave as specified",
    "operator>> for built-in integers/double/std::string is libstdc++'s classic-locale num_get (modelled, not verified); strtod is correctly rounded",
    "the hostile stream is checked for termination/exception class only (60 s alarm per op)",
    "model = code with fixes/C12_parserange.patch (and the behaviour-neutral fixes/C12_emptyquote.patch) applied",
]
TRUSTED = ["g++/libstdc++, ASan/UBSan", "harness/cxx_c12.cc (reference tree, strict dialect recogniser, numeric recognisers) + Driver/C12.lean parsing/printing"]


def batches(tier, seed):
    n = 12000 if tier == "quick" else 400000
    parts = 4 if tier == "quick" else 16
    return [dict(args=["--seed", str(seed * 1000 + i), "--cases", str(n // parts), "--tier", tier], tag="g%d" % i,
                 timeout=(600 if tier == "quick" else 6000)) for i in range(parts)]


def search_batches(seed):
    return [dict(args=["--seed", str(seed * 7919 + 13 + i), "--cases", "60000"], timeout=1800) for i in range(3)]
