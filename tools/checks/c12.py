"""C12 — ParameterTree returns what the configuration source says, or a precise error."""
from translators import tr_c12

PID = "C12"
CLAIM = True
MANIFEST_TEXT = ("Lean 4 theorems (35 obligations) about a line-by-line transcription of readINITree, ParameterTree's "
                 "operator[]/hasKey/hasSub/sub (const and non-const)/get, readOptions/readNamedOptions and Parser<T>.  The documented INI "
                 "dialect is formalised as an item grammar (blank, comment, [group] header, assignment with blanks, either quote, "
                 "multi-line value, trailing comment) with an explicit lexical predicate; proved for ALL documents of the dialect, all "
                 "trees, both flags: reading a document = applying the (full dotted key, value) assignments it denotes "
                 "(parse_denotation); every hierarchy is recovered exactly - keys, values, key order - from every spelling of its "
                 "entries (parse_render, + dotted and grouped renderings for every writable hierarchy); groups = dotted keys "
                 "(documents, tree reads, and writes: sub(g) then [g.k]=v equals [g.k]=v); keys in order of first appearance at every "
                 "node for both values of the overwrite flag; duplicate key in one source never accepted (ParserError); overwrite flag "
                 "(general and two-source form with a static prefix-freeness hypothesis); the parser terminates on every byte string; a "
                 "source whose stream fails is reported (IOError), never accepted; readOptions/readNamedOptions map "
                 "pairs/positionals/named parameters as documented and report missing, unknown, superfluous, value-less, "
                 "already-specified, help, and for EVERY argument vector readNamedOptions equals a set-based reading of the "
                 "documentation (options_spec_all_vectors); get<integer> accepts exactly blanks[sign]digits blanks in range and returns that value "
                 "(round trip with the canonical text for every 16/32/64-bit type, also for fixed-size ranges and vectors), fixed-size "
                 "ranges accept exactly n literals, string arrays exactly n words, char exactly one non-blank character, split() = the "
                 "maximal runs of non-blanks (declarative definition), vector/bitset/string characterised by iff, default only when the "
                 "key is absent, bool words.  Each run executes the model against the real code (12k cases quick / 1.2M thorough: "
                 "rendered documents, raw documents, streams failing after n bytes, argument vectors, value strings for 50 target types "
                 "(incl. float bit-exact, char, FieldVector<double>) under two global locales, tree queries incl. group creation) with "
                 "independent reference oracles deciding the property, every readINITree overload (stream/file, with/without default "
                 "arguments, returning/filling) cross-checked on every document, plus a hostile byte stream under ASan/UBSan.  "
                 "Round four: a translator (tools/translators/tr_c12.py) re-reads on every run the DATA of the three source files - "
                 "the six blank-set literals, the separator and substr offsets of the dotted-key descent in hasKey/hasSub/sub/"
                 "operator[], the switch labels, marker characters, quote characters, substr offsets, trims, join string and the "
                 "duplicate/overwrite statement of readINITree, the option markers/offsets/help words of readOptions and "
                 "readNamedOptions, the Parser<bool> word table and fallback type, the trailing-text conditions and classic-locale "
                 "imbue of Parser<T>/parseRange, the shape of bitset/vector/get-with-default - into Gen/C12.lean; six src_* theorems "
                 "state that the model is written with exactly these values (an edit of one of them breaks an obligation and the "
                 "check searches for a failing input).  float_accept_iff: get<double|float> succeeds IFF blanks + one floating "
                 "literal + blanks whose pieces evaluate to a finite number, returning that evaluation (lexer soundness and "
                 "completeness).  bool_array_spec: std::array<bool,n> = exactly n integer literals with value 0/1.  New target "
                 "types in the run: long, unsigned long, signed/unsigned char, std::array<bool,0..3>; the second global locale now "
                 "also has a caseless ctype facet (Parser<bool> must lower-case with the classic locale).  Round five: the "
                 "translator reads a normal form of every function body (statement tree + checked rewrite rules, see "
                 "MANIFEST_NOTE), and additionally ties the trim applied before the closing quote is cut off "
                 "(iniQuoteCloseTrims) and that the dotted-key pieces are taken inside the `dot != npos` branch.")
MANIFEST_NOTE = ("Trusted: Lean kernel (+propext/Classical.choice/Quot.sound), the hand-written model's fidelity (differential "
                 "execution; the translator ties the data - character sets, markers, offsets, word table, conditions - not the control flow), the harness' reference tree / strict dialect recogniser / numeric recognisers "
                 "(std::from_chars for floating values), g++/libstdc++/glibc, ASan/UBSan.  operator>> is libstdc++'s: its "
                 "classic-locale integer, floating, word and char extraction are modelled; float/double values are compared bit-exactly "
                 "through a correctly-rounded conversion in the model; proved for floating targets is acceptance iff literal syntax "
                 "with finite evaluation (float_accept_iff), but nothing about the rounding function roundToBin itself (no theorem that "
                 "it is the nearest representable number).  The translator (no C++ front end: a statement-level parser of function bodies + "
                 "regex/mini-parsers on the normal form) canonicalises set order, commuted ||-alternatives, 'c' vs \"c\", k+v vs v+k, position-variable names, "
                 "fall-through case labels, and since round five: not/and/or, this->, nullptr, const locals, literal==x vs x==literal, "
                 "size()==0 / ==\"\" / length()>0 vs empty(), straight-line private helper functions (inlined at call sites that "
                 "are the first operation of an if-condition/return/initialiser), names of parameters and of locals with a modelled "
                 "role (recognised by position / initialiser), conditional expression vs if/return, else after a jump, guard clauses "
                 "and swapped branches on x==npos, `if (c) continue;` guards, for vs while with trailing increments, i++ / i+=1 / ++i, "
                 "range-for and begin()/end() iterator loops vs index loops with an otherwise unused counter, a loop-carried cache of a "
                 "side-effect-free expression that is refreshed as the last statement of the loop body, x=E; x=G[x] vs x=G[E], and "
                 "once-initialised locals with a side-effect-free initialiser whose operands do not change before the last use, single-return "
                 "predicate helpers (inlined at every call, also in loop conditions), static_cast<T>(e) vs T(e), renamed loop counters; the "
                 "quote-loop condition, the overwrite test, the option test and the missing test are compared as Boolean functions of "
                 "their atoms (truth tables: De Morgan, double negation, commuted operands) with the short-circuit guards kept (back() only "
                 "after empty() was false, argv[i][1] only after argv[i][0]=='-').  Every "
                 "rule checks its side condition on the text (conservatively: an unknown call that receives a variable counts as a "
                 "change of it) and leaves the code alone otherwise; any remaining deviation from the patterns is a loud TranslateError "
                 "(still alarming although harmless: std algorithms for hand loops, count-down loops, reordered statements, helpers with "
                 "control flow, switch vs if-chain, renamed key/value in readNamedOptions - design_notes/C12.md 11.4).  Hostile/"
                 "out-of-dialect byte streams: only 'no crash, no hang (60 s alarm), success or Dune exception' is checked, the model is "
                 "not compared there (it is nevertheless total: parse_total).  Not claimed: '#' inside quoted values, a quote character "
                 "inside a value quoted with the same character, a negative literal for an unsigned target (answer masked as 'noclaim'), "
                 "names that are both value and group at once (modelled, oracle abstains; a key that merely runs through a leaf is claimed absent), long double, report()/className texts, the C-library "
                 "locale (setlocale; only C/POSIX is installed - the global C++ locale is varied).  parse_render is stated for "
                 "overwrite=true; for overwrite=false into an empty tree the same values follow from overwrite_flag_spec and the "
                 "same key order from keys_in_first_appearance_order.  The model describes the repaired code (repo commits 27625ff parseRange trailing-text check, "
                 "deabf63 empty-string test in the quote loop, d4ed0d8 failing input stream = fixes/C12_*.patch).")
TECHNIQUE = "Lean 4 proof over a transcribed parser/tree/lexer model + differential correspondence with independent reference oracles"
TRANSLATORS = [tr_c12.translate]
HARNESS = dict(
    sources=["cxx_c12.cc"],
    repo_sources=["dune/common/parametertree.cc", "dune/common/parametertreeparser.cc", "dune/common/exceptions.cc",
                  "dune/common/stdstreams.cc"],
    flags=["-D_GLIBCXX_ASSERTIONS"],
)
RULE = ("cases: rt = random key/value hierarchy (shared groups, depth<=4) spelled item by item (group vs dotted, blanks, CR, "
        "either quote, multi-line values, comments, blank lines, [] resets, optional first source + overwrite flag, occasional "
        "duplicates); ini = raw documents (documentation example, hand-written, rendered, byte-mutated) judged by a strict "
        "dialect recogniser; get = value strings for 50 target types (limits of 16/32/64-bit, signs, leading zeros, blanks "
        "incl. \\v\\f, trailing garbage, too few/many items, double and float overflow/underflow/ties, one third clean texts "
        "so that every type also sees accepted input) under two global locales; opt/nopt = argument vectors (+ help strings); "
        "tq = tree built by operator[] and non-const sub(), queried incl. defaults through all get overloads; bads = dialect "
        "document on a stream that fails after n bytes; hostile = random bytes, unbalanced quotes, huge lines; rt/ini also run "
        "every readINITree overload (file name / stream, default arguments) and require identical results. "
        "round four: key components and values may contain every byte the dialect allows in every position; positional "
        "arguments that look like options (-c, -cc); target types long/unsigned long/signed char/unsigned char/"
        "std::array<bool,0..3>; string texts padded with \\v\\f; second locale with a caseless ctype facet. "
        "distinct = distinct op lines; non-trivial = the independent oracle made a claim (inside the dialect / syntax)")
ASSUMPTIONS = [
    "the Lean model lean/DuneVerif/Model/C12.lean is hand-written; the data it is written with (character sets, markers, offsets, word table, conditions) is tied to the source by tr_c12.py + the src_* theorems, its control flow only by this differential run",
    "tr_c12.py reads the source with a statement-level parser, checked rewrite rules into a normal form, regular expressions and small parsers (no C++ front end, no types, no overload resolution); what it canonicalises is listed in its docstring; its purity / `variable is not modified` judgements are textual and conservative except for aliases (a change of a variable through a reference or pointer to it is not seen) and for names captured when a helper is inlined (a caller's local with the name of a member or global the helper uses), and the rewrite rules themselves are trusted (they are exercised by harmless/C12_* and must keep every seeded/C12_* caught)",
    "bytes are modelled as Lean Char values < 256; std::string/std::istringstream/getline behave as specified",
    "operator>> for built-in integers/double/std::string is libstdc++'s classic-locale num_get (modelled, not verified); strtod is correctly rounded",
    "the hostile stream is checked for termination/exception class only (60 s alarm per op)",
    "the model describes the repaired code (repo commits 27625ff parseRange trailing-text check, deabf63 empty-string test in the quote loop, d4ed0d8 failing stream = fixes/C12_*.patch)",
    "a failing input stream is modelled as: the bytes delivered so far are processed as a complete input, then the read error is reported (checked against a streambuf whose underflow throws)",
]
TRUSTED = ["g++/libstdc++, ASan/UBSan", "harness/cxx_c12.cc (reference tree, strict dialect recogniser, numeric recognisers) + Driver/C12.lean parsing/printing"]


def batches(tier, seed):
    n = 12000 if tier == "quick" else 1200000
    parts = 4 if tier == "quick" else 16
    return [dict(args=["--seed", str(seed * 1000 + i), "--cases", str(n // parts), "--tier", tier], tag="g%d" % i,
                 timeout=(600 if tier == "quick" else 6000)) for i in range(parts)]


def search_batches(seed):
    return [dict(args=["--seed", str(seed * 7919 + 13 + i), "--cases", "60000"], timeout=1800) for i in range(3)]
