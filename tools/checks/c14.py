"""C14 — Md layouts address distinct in-range elements; md views and arrays honour them."""
from translators import tr_c14

PID = "C14"
CLAIM = True
MANIFEST_TEXT = ("Lean 4 theorems, for every rank and all extents (0 and 1 included), about a model whose offset/stride/"
                 "product/span-size/size() loops, the summand of layout_stride's fold expression, the container element "
                 "counts of the mdarray constructors from a mapping and from an mdspan, and precondition / pointer offset / size "
                 "of the six span sub-view functions plus subspan_extent are regenerated from layout_left.hh, "
                 "layout_right.hh, layout_stride.hh, extents.hh, mdspan.hh, mdarray.hh and span.hh on every run: offsets of valid index tuples lie in "
                 "[0, required_span_size), are injective (left/right always; strided under the sorted-stride criterion, "
                 "dimensions of extent 1 ignored), change by stride(r) per unit step, equal the column-/row-major closed form, "
                 "fill the range without gaps (left/right); no intermediate value of the offset loops exceeds the final offset "
                 "(so nothing overflows when required_span_size fits index_type); required_span_size of a strided mapping is "
                 "1 + sum (E_r-1) S_r (0 if an extent is 0); every converting constructor between the three mapping types and "
                 "between extents types preserves rank, extents, the offset of EVERY index tuple and the required span; the "
                 "static/dynamic extent index table and all extents constructors (incl. value-initialisation) are correct; "
                 "mdspan/mdarray access stays inside storage of required_span_size elements and hits exactly the designated "
                 "element for EVERY unique mapping and every accessor policy access(p,i)=p[pos i] with pos injective on the span; "
                 "arrays with EVERY unique mapping (left, right, strided: padded, permuted, non-exhaustive user layout policies) "
                 "built from views with ANY accessor policy (an arbitrary function of the offset) hold at every index what "
                 "the view yields there and own exactly the required span of the mapping they adopt (round four: the real code "
                 "allocated other.size() elements and overflowed for non-exhaustive layouts, fixed by C14_mdarray_span_size); after "
                 "ANY history of assignments every index reads the last value assigned to it (induction over histories); "
                 "is_exhaustive() of a unique strided mapping is true iff its range has no gaps (pigeonhole); size() of an array counts the index tuples whatever "
                 "container it owns (re-used larger buffers, std::array<T,N> with N above the product), writes never touch the "
                 "surplus; the stride()/product()/size()/required_span_size() loops never exceed their result for non-empty "
                 "index spaces and stride(i)*extent(i) <= required_span_size (no overflow in ANY index type whose range holds "
                 "the span); converted views read the same elements; span sub-views denote the designated elements for ALL "
                 "histories of first/last/subspan, and the six member functions as they read in span.hh (run-time and template "
                 "forms, static or dynamic extent) refine these abstract operations for all histories, declaring a static extent "
                 "that equals the size of the result.  The model is run against the real templates (ranks 0..4, extents 0..4 (random "
                 "part up to 8), 35 static/dynamic patterns, index types int/size_t/short/long, all index tuples, every public "
                 "constructor of extents/mappings/mdspan/mdarray/span, containers with 0..6 surplus elements, a recording custom "
                 "accessor with a non-pointer data handle and an interleaved accessor access(p,i)=p[2i+1] for views and for "
                 "arrays built from views; owning arrays with a strided layout policy (PadLayout over layout_stride::mapping: "
                 "padded/permuted strides, all mapping-, container- and view-taking constructors, conversions, views); deduction "
                 "guides of mdarray/mdspan and default_accessor used directly; plus huge index spaces up to the limit of each index type (2^15-1, 2^31-1, 2^61) "
                 "observed at sampled index tuples incl. conversions to layout_stride/dextents and back) with an independent "
                 "enumeration-order / digit-decoding / 128-bit oracle, pointer-identity and accessor-log checks and ASan/UBSan.")
MANIFEST_NOTE = ("Trusted: Lean kernel (+propext/Classical.choice/Quot.sound), tr_c14.py, the hand-written loop skeletons of "
                 "Model/C14.lean (fidelity checked by the differential run only), the harness oracle, g++/ASan/UBSan. "
                 "Index arithmetic is modelled over Nat: the theorems bound every intermediate value of the offset, stride, "
                 "product, size and span loops by required_span_size for non-empty index spaces; that the C++ code carries "
                 "these loops out in index_type (and not in a narrower type) is established by the bigmap run only (extents up "
                 "to the limit of int/short/size_t/long, required span <= the type's maximum resp. 2^61); an empty index "
                 "space whose other extents multiply beyond index_type is outside.  is_exhaustive() of strided "
                 "mappings: the theorem (true iff no gaps) is about the hand-written model of its expression, tied by the "
                 "differential run and the oracle.  User layout policies are represented by one policy over "
                 "layout_stride::mapping (arbitrary unique stride vectors); conversions between user layouts that change the "
                 "padding are not exercised.  Containers other than std::vector/std::array, the C++23 multidimensional "
                 "operator[], accessors with proxy references and the guides mdspan(CArray&)/mdspan(Pointer&&) are not exercised.")
TECHNIQUE = "Lean 4 proof over loop model + translator for the loop pieces + differential correspondence with enumeration oracle"
TRANSLATORS = [tr_c14.translate]
HARNESS = dict(
    sources=["cxx_c14.cc"],
    repo_sources=["dune/common/exceptions.cc", "dune/common/stdstreams.cc"],
    # many template instantiations: compile without optimisation and without the UBSan checks that are irrelevant
    # here (null/alignment/vptr/object-size); ASan, signed overflow, shifts and bounds stay on
    flags=["-O0", "-g1", "-fno-sanitize=null,alignment,vptr,object-size,nonnull-attribute,returns-nonnull-attribute"],
)
RULE = ("round four: a quarter of the mdarray cases use an array with a strided layout policy (op `mdarray IT PAT stride CTOR ACC "
        "EXTS STRIDES [pad=K]`; strides from the same generator as for mappings, non-unique ones are bad-op on both sides; about a "
        "fifth of them non-exhaustive); the `cont`/`copy` forms also run the deduction-guide and default_accessor checks.  "
        "cases: (a) enumeration of every instantiated extents type (32 static/dynamic patterns, ranks 0..4, index types "
        "int/size_t/short) x layout left/right/stride x all dynamic extents in 0..3 (quick) / 0..4 (thorough), each case "
        "covering ALL index tuples of the index space; (b) random mix of map/conv/mdspan/mdarray/span operations (all constructor forms of "
        "extents, mappings, views, arrays and spans; recording and interleaved custom accessors, also as source of mdarray(mdspan); "
        "half of the container-taking mdarray constructors get a container with 1..6 surplus elements, std::array containers "
        "with 2 surplus elements) with "
        "extents biased to 0 and 1 and strides that are permuted/padded nestings, canonical, or arbitrary; (c) bigmap (9 %): "
        "18 extents types over int/short/size_t/long with extents drawn log-uniformly up to the limit of the index type "
        "(boundary bias: span exactly the maximum), all three layouts (strided: canonical or permuted/padded nestings with huge "
        "strides), 3..20 sampled index tuples (corners, interior, unit-step neighbours).  distinct = "
        "distinct op lines; non-trivial = accepted by the executor (precondition-violating lines are answered bad-op by "
        "both sides and counted trivial)")
ASSUMPTIONS = [
    "the loop skeletons in lean/DuneVerif/Model/C14.lean are hand-written; their fidelity to the C++ templates rests on this differential run",
    "the loop pieces (initial value, bounds, step) of operator(), stride(i), product(), layout_stride size() and mdspan/mdarray size(), the summand/initial value of layout_stride's fold expression the container element counts of mdarray(mapping...) / mdarray(mdspan[, alloc]) and precondition/offset/size of span::first/last/subspan (both forms) and subspan_extent are regenerated from the sources by tools/translators/tr_c14.py",
    "index arithmetic over Nat: required_span_size (with extents 0 counted as 1) fits index_type (map/conv/mdspan/mdarray: extents <= 8, strides <= 1000; bigmap: up to 32767 / 2^31-1 / 2^61)",
    "the tree under test contains fixes/C14_from_stride.patch, C14_mdspan_convert.patch and C14_mdarray_alloc.patch (the harness instantiates the constructors they repair); without fixes/C14_stride_rank0.patch the rank-0 strided cases are reported as violations; without fixes/C14_mdarray_span_size.patch the theorem mdarray_from_view_alloc fails (broken obligation) and the padded-array cases crash under ASan (replay `mdarray size dd stride span call [2,3] [4,1]`)",
    "user-supplied layout policies are represented by PadLayout (harness), whose mapping is Dune's layout_stride::mapping; the theorems quantify over every mapping satisfying InjOn",
]
TRUSTED = ["g++/libstdc++, ASan/UBSan", "translator tr_c14.py", "harness/cxx_c14.cc (oracle: enumeration order, std::set, pointer identity, accessor log; bigmap: digit decoding and __int128 sums) + Driver/C14.lean parsing/printing"]


def batches(tier, seed):
    if tier == "quick":
        return [
            dict(args=["--seed", str(seed * 1000 + 7), "--mode", "enum", "--maxext", "3", "--tier", tier], tag="enum", timeout=600),
            dict(args=["--seed", str(seed * 1000 + 1), "--cases", "6000", "--tier", tier], tag="g0", timeout=600),
            dict(args=["--seed", str(seed * 1000 + 2), "--cases", "6000", "--tier", tier], tag="g1", timeout=600),
        ]
    res = [dict(args=["--seed", str(seed * 1000 + 7), "--mode", "enum", "--maxext", "4", "--tier", tier], tag="enum", timeout=3000),
           dict(args=["--seed", str(seed * 1000 + 8), "--mode", "enum", "--maxext", "4", "--tier", tier], tag="enum2", timeout=3000)]
    for i in range(8):
        res.append(dict(args=["--seed", str(seed * 1000 + 10 + i), "--cases", "80000", "--tier", tier], tag="g%d" % i, timeout=3000))
    return res


def search_batches(seed):
    return [dict(args=["--seed", str(seed * 7919 + 13), "--mode", "enum", "--maxext", "4"], timeout=1200)] + \
           [dict(args=["--seed", str(seed * 7919 + 14 + i), "--cases", "40000"], timeout=900) for i in range(2)]
