"""C14 — Md layouts address distinct in-range elements; md views and arrays honour them."""
from translators import tr_c14

PID = "C14"
CLAIM = True
MANIFEST_TEXT = ("Lean 4 theorems, for every rank and all extents (0 and 1 included), about a model whose offset/stride/"
                 "product/span-size/size() loops are assembled from pieces regenerated from layout_left.hh, layout_right.hh, "
                 "layout_stride.hh, extents.hh, mdspan.hh and mdarray.hh on every run: offsets of valid index tuples lie in "
                 "[0, required_span_size), are injective (left/right always; strided under the sorted-stride criterion, "
                 "dimensions of extent 1 ignored), change by stride(r) per unit step, equal the column-/row-major closed form, "
                 "fill the range without gaps (left/right); no intermediate value of the offset loops exceeds the final offset "
                 "(so nothing overflows when required_span_size fits index_type); required_span_size of a strided mapping is "
                 "1 + sum (E_r-1) S_r (0 if an extent is 0); every converting constructor between the three mapping types and "
                 "between extents types preserves rank, extents, the offset of EVERY index tuple and the required span; the "
                 "static/dynamic extent index table and all extents constructors (incl. value-initialisation) are correct; "
                 "mdspan/mdarray access stays inside storage of required_span_size elements and hits exactly the designated "
                 "element for EVERY unique mapping; arrays built from views copy every element and own exactly the required span; "
                 "converted views read the same elements; span sub-views denote the designated elements for ALL histories of "
                 "first/last/subspan.  The model is run against the real templates (ranks 0..4, extents 0..4 (random part up to "
                 "8), 32 static/dynamic patterns, index types int/size_t/short, all index tuples, every public constructor of "
                 "extents/mappings/mdspan/mdarray/span, a custom accessor policy and data handle) with an independent "
                 "enumeration-order oracle, pointer-identity and accessor-log checks and ASan.")
MANIFEST_NOTE = ("Trusted: Lean kernel (+propext/Classical.choice/Quot.sound), tr_c14.py, the hand-written loop skeletons of "
                 "Model/C14.lean (fidelity checked by the differential run only), the harness oracle, g++/ASan/UBSan. "
                 "Index arithmetic is modelled over Nat: the theorems bound every intermediate value by required_span_size "
                 "for non-empty index spaces; wrap-around of index_type itself (huge extents, or an empty index space whose "
                 "other extents overflow) is outside the model (the run uses extents <= 8).  is_exhaustive() of strided "
                 "mappings is corresponded and checked by the oracle but not the subject of a theorem.  Containers other "
                 "than std::vector/std::array, the C++23 multidimensional operator[] and the deduction guides of "
                 "mdspan/mdarray are not exercised.")
TECHNIQUE = "Lean 4 proof over loop model + translator for the loop pieces + differential correspondence with enumeration oracle"
TRANSLATORS = [tr_c14.translate]
HARNESS = dict(
    sources=["cxx_c14.cc"],
    repo_sources=["dune/common/exceptions.cc", "dune/common/stdstreams.cc"],
    # many template instantiations: compile without optimisation and without the UBSan checks that are irrelevant
    # here (null/alignment/vptr/object-size); ASan, signed overflow, shifts and bounds stay on
    flags=["-O0", "-g1", "-fno-sanitize=null,alignment,vptr,object-size,nonnull-attribute,returns-nonnull-attribute"],
)
RULE = ("cases: (a) enumeration of every instantiated extents type (32 static/dynamic patterns, ranks 0..4, index types "
        "int/size_t/short) x layout left/right/stride x all dynamic extents in 0..3 (quick) / 0..4 (thorough), each case "
        "covering ALL index tuples of the index space; (b) random mix of map/conv/mdspan/mdarray/span operations (all constructor forms of "
        "extents, mappings, views, arrays and spans; custom accessor) with "
        "extents biased to 0 and 1 and strides that are permuted/padded nestings, canonical, or arbitrary.  distinct = "
        "distinct op lines; non-trivial = accepted by the executor (precondition-violating lines are answered bad-op by "
        "both sides and counted trivial)")
ASSUMPTIONS = [
    "the loop skeletons in lean/DuneVerif/Model/C14.lean are hand-written; their fidelity to the C++ templates rests on this differential run",
    "the loop pieces (initial value, bounds, step) of operator(), stride(i), product(), layout_stride size() and mdspan/mdarray size() are regenerated from the sources by tools/translators/tr_c14.py",
    "index arithmetic over Nat: no overflow of index_type (extents <= 8, strides <= 1000 in the run)",
    "the tree under test contains fixes/C14_from_stride.patch, C14_mdspan_convert.patch and C14_mdarray_alloc.patch (the harness instantiates the constructors they repair); without fixes/C14_stride_rank0.patch the rank-0 strided cases are reported as violations",
]
TRUSTED = ["g++/libstdc++, ASan/UBSan", "translator tr_c14.py", "harness/cxx_c14.cc (oracle: enumeration order, std::set, pointer identity, accessor log) + Driver/C14.lean parsing/printing"]


def batches(tier, seed):
    if tier == "quick":
        return [
            dict(args=["--seed", str(seed * 1000 + 7), "--mode", "enum", "--maxext", "3", "--tier", tier], tag="enum", timeout=600),
            dict(args=["--seed", str(seed * 1000 + 1), "--cases", "6000", "--tier", tier], tag="g0", timeout=600),
            dict(args=["--seed", str(seed * 1000 + 2), "--cases", "6000", "--tier", tier], tag="g1", timeout=600),
        ]
    res = [dict(args=["--seed", str(seed * 1000 + 7), "--mode", "enum", "--maxext", "4", "--tier", tier], tag="enum", timeout=3000),
           dict(args=["--seed", str(seed * 1000 + 8), "--mode", "enum", "--maxext", "4", "--tier", tier], tag="enum2", timeout=3000)]
    for i in range(8):
        res.append(dict(args=["--seed", str(seed * 1000 + 10 + i), "--cases", "80000", "--tier", tier], tag="g%d" % i, timeout=3000))
    return res


def search_batches(seed):
    return [dict(args=["--seed", str(seed * 7919 + 13), "--mode", "enum", "--maxext", "4"], timeout=1200)] + \
           [dict(args=["--seed", str(seed * 7919 + 14 + i), "--cases", "40000"], timeout=900) for i in range(2)]
