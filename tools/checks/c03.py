"""C03 — ParallelIndexSet is the sorted global->local map its resize history describes."""

from translators import tr_c03

PID = "C03"
CLAIM = True
MANIFEST_TEXT = ("Lean 4 theorems (62) for ALL operation histories and all set sizes (0 and 1 included) about an executable model of "
                 "ParallelIndexSet/GlobalLookupIndexSet that transcribes the GROUND/RESIZE state machine with its checks, endResize "
                 "(sort + the three-way merge dropping DELETED entries), the int binary search of exists/at/operator[] (with fuel), "
                 "renumberLocal, seqNo and the reverse table: ground contents = pairs added and not deleted, strictly ascending "
                 "iteration, exists/at/operator[] exact (also stated against the history's specification), search terminates and "
                 "stays inside 32-bit int for up to 2^30 entries, seqNo counts completed resizes, renumbering = position (no uint32 "
                 "wrap up to 2^32 entries), reverse lookup inverts (established by renumberLocal), wrong-state calls rejected without "
                 "effect; multi-object histories (copy construction, copy assignment, operator==) reduce to single-object ones, a copy "
                 "is independent of its original.  A translator re-reads indexset.hh/plocalindex.hh/localindex.hh on every run: the "
                 "constructor, seven state checks, scalar effects, the statement order of endResize, sort/merge comparison (both "
                 "comparators), merge() as a whole program (first branch, guards/decision trees/statements of its three loops), the "
                 "skeletons of all five copies of the binary search, the renumberLocal loop, both GlobalLookupIndexSet constructors, "
                 "all constructors/operator=/setState of ParallelLocalIndex and LocalIndex; 17 theorems prove the model equal to the "
                 "interpretation of these regenerated pieces.  Each run executes the real class (chunk sizes 0,1,2,3,4,5,8,100 with "
                 "ParallelLocalIndex/long, 1,15,25 with LocalIndex/int, checks enabled) and the model on thousands of random histories "
                 "(with copies of the set taken, observed and assigned back) and compares every observation; a std::multimap oracle "
                 "replaying the history decides the property itself.")
MANIFEST_NOTE = ("Trusted: Lean kernel (+propext/Classical.choice/Quot.sound), the hand-written model's fidelity for the parts not "
                 "regenerated (the two branch conditions of merge(), one-line getters, IndexPair constructors, push_back in add: "
                 "differential execution only), tools/translators/tr_c03.py and the meaning given to its output in "
                 "Model/C03Src.lean (round-two pieces it cannot parse fall back to the canonical form and are listed in Gen.unparsed; "
                 "round-four pieces are emitted as unknown and break their theorem; since round five the translator also "
                 "normalises before it compares: const boolean locals and entry aliases are inlined at their declaration point, "
                 "guard clauses/continue/else-if chains/conditional expressions become decision trees, and a loop body of merge() "
                 "is replaced by the canonical tree only if it performs the same push_back/eraseToHere sequence for EVERY "
                 "assignment of its atoms (DELETED flag x global indices 0..2 x comparator results) and contains no numeric "
                 "literal; while/for/index-loop spellings of renumberLocal and a local accumulator in the GlobalLookupIndexSet "
                 "constructor are evaluated symbolically), the harness/driver parsing and printing, "
                 "g++/ASan/UBSan. The chunked ArrayList is abstracted to a sequence (property C11; its copy/assignment is exercised "
                 "through copies of the index set); std::sort is modelled by insertion sort (theorem sort_unique: the sorted list is "
                 "unique for distinct keys); int overflow of seqNo_ is not modelled; sets of more than 2^30 entries are outside "
                 "search_int32_safe.")
TECHNIQUE = ("Lean 4 proof over a transcribed state-machine/merge/binary-search model + source translator (expressions, statement "
             "lists, loop programs) with matches_source theorems + differential correspondence with std::multimap oracle")
TRANSLATORS = [tr_c03.translate]
HARNESS = dict(
    sources=["cxx_c03.cc"],
    repo_sources=["dune/common/exceptions.cc", "dune/common/stdstreams.cc"],
    # the InvalidIndexSetState checks of indexset.hh are compiled under `#ifndef NDEBUG`
    # -g1: line tables for sanitizer reports, but not the (expensive) full debug info of eleven instantiations
    flags=["-UNDEBUG", "-g1"],
    libs=[],
)
RULE = ("case = one whole history `<CFG> : op;op;...`; CFG = chunk size N in {0,1,2,3,4,5,8,100} (ParallelLocalIndex, long globals) or "
        "NL with N in {1,15,25} (LocalIndex, int globals): 1-5 resize phases over a global range of width 1-12 (about 3% long "
        "histories of 90-230 adds per phase to cross chunks of N=100; 1/8 with global indices from the ends of the value range of "
        "long/int), adds and deletions interleaved in random order, phases adding 0/1/N+-1 entries, deleting none/all/all-but-one, "
        "entries marked twice, re-adding deleted globals, 15% histories with equal globals under different attributes, one third "
        "with wrong-state calls; lookups (all five overloads, writes through operator[] and setLocal, reverse tables also inside a "
        "resize phase) aim at stored keys, the first/last key and their neighbours; copies of the set (`c`: in GROUND state, right "
        "after beginResize, right before endResize) are viewed later (`v`: contents, seqNo, state, operator==) and assigned back "
        "(`y`, then the copy's phase is closed); 1/10 of the adds use the two-argument ParallelLocalIndex constructor. Plus a rotating slice (thorough: all 15552) of "
        "the exhaustive family of two-phase histories over 4 globals. distinct = distinct history lines; non-trivial = at least two "
        "ops and inside the property's quantifier")
ASSUMPTIONS = [
    "the Lean model lean/DuneVerif/Model/C03.lean is hand-written; the pieces listed in Props/C03.lean section 'the tie to the source' "
    "are proved equal to definitions regenerated from indexset.hh/plocalindex.hh on every run, the rest rests on this differential run",
    "localIndices_/newIndices_ are abstract sequences: ArrayList = its sequence is property C11",
    "std::sort is modelled as insertion sort; histories closing a phase with two equal (global, attribute) keys are outside the quantifier",
    "the translator compares the sort/merge comparison with its canonical form only on assignments inside the quantifier "
    "(strict comparator, no two equal keys of two live entries; a DELETED old entry may meet an equal added key); a comparison "
    "or loop body containing a numeric literal is never normalised",
    "translator tolerance (round five): equivalent spellings are recognised by reading rules that are sound one by one "
    "(boolean locals bound at their declaration and never re-assigned, entry aliases valid until their iterator moves, a "
    "condition hoisted over actions only if they do not move what it reads, `?:` = if/else, guard clause = else-if, "
    "while = for = index loop from 0 with step 1, member initialiser = assignment in the constructor body); whatever falls "
    "outside (helper functions, std algorithms, re-assigned locals, copies used after the iterator moved) is emitted as "
    "unknown/none and breaks its theorem (round-four pieces) or falls back to the canonical form (round-two pieces)",
    "fixes/C03_lookup_single_entry.patch is applied to the tree under test",
    "a copy of an index set is modelled as the value itself (Model/C03World.lean); that the member-wise copy of the two ArrayLists is "
    "deep is checked by the differential run (views of the copy after the original changed), not proved",
    "the interpreter of the regenerated merge() program treats eraseToHere() at the iterator as dropping the first remaining entry "
    "and dereferencing an end iterator as undefined (none)",
]
TRUSTED = ["g++/libstdc++, ASan/UBSan", "harness/cxx_c03.cc (incl. the std::multimap oracle) + Driver/C03.lean parsing/printing",
           "tools/translators/tr_c03.py + Model/C03Expr.lean/C03Src.lean (meaning of the regenerated pieces)"]


def _seed(seed, i):
    # dv::Rng streams of adjacent seeds are shifted copies of each other: space the seeds far apart
    return str(((seed * 64 + i) * 1000000007) % (2 ** 63))


def batches(tier, seed):
    if tier == "quick":
        n, parts = 6000, 4
        res = [dict(args=["--seed", _seed(seed, i), "--cases", str(n // parts), "--tier", tier], tag="g%d" % i,
                    timeout=600) for i in range(parts)]
        # a slice of the exhaustive family (<= 2 rounds over 4 globals), rotating with the seed
        res.append(dict(args=["--seed", "1", "--cases", "1300", "--enum", "1", "--offset", str((seed * 1300) % 15552)],
                        tag="enum", timeout=600))
        return res
    n, parts = 240000, 12
    res = [dict(args=["--seed", _seed(seed, 20 + i), "--cases", str(n // parts), "--tier", tier], tag="g%d" % i,
                timeout=3600) for i in range(parts)]
    res.append(dict(args=["--seed", "1", "--cases", "15552", "--enum", "1"], tag="enum", timeout=3600))
    return res


def search_batches(seed):
    return [dict(args=["--seed", _seed(seed, 40 + i), "--cases", "30000"], timeout=1800) for i in range(3)]
