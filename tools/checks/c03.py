"""C03 — ParallelIndexSet is the sorted global->local map its resize history describes."""

from translators import tr_c03

PID = "C03"
CLAIM = True
MANIFEST_TEXT = ("Lean 4 theorems for ALL operation histories and all set sizes (0 and 1 included) about an executable model of "
                 "ParallelIndexSet/GlobalLookupIndexSet that transcribes the GROUND/RESIZE state machine with its checks, endResize "
                 "(sort + the three-way merge dropping DELETED entries), the int binary search of exists/at/operator[] (with fuel), "
                 "renumberLocal, seqNo and the reverse table: ground contents = pairs added and not deleted, strictly ascending "
                 "iteration, exists/at/operator[] exact, search terminates, seqNo counts completed resizes, renumbering = position, "
                 "reverse lookup inverts, wrong-state calls rejected without effect.  Each run executes the real class (chunk sizes "
                 "1,2,3,100, checks enabled) and the model on thousands of random histories and compares every observation; a "
                 "std::multimap oracle replaying the history decides the property itself.")
MANIFEST_NOTE = ("Trusted: Lean kernel (+propext/Classical.choice/Quot.sound), the hand-written model's fidelity (checked by "
                 "differential execution only), the harness/driver parsing and printing, g++/ASan/UBSan. The chunked ArrayList is "
                 "abstracted to a sequence (property C11); std::sort is modelled by insertion sort (theorem sort_unique: the sorted "
                 "list is unique for distinct keys); int overflow of seqNo_/uint32 wrap of renumberLocal are not modelled.")
TECHNIQUE = "Lean 4 proof over a transcribed state-machine/merge/binary-search model + differential correspondence with std::multimap oracle"
TRANSLATORS = [tr_c03.translate]
HARNESS = dict(
    sources=["cxx_c03.cc"],
    repo_sources=["dune/common/exceptions.cc", "dune/common/stdstreams.cc"],
    # the InvalidIndexSetState checks of indexset.hh are compiled under `#ifndef NDEBUG`
    # -g1: line tables for sanitizer reports, but not the (expensive) full debug info of eleven instantiations
    flags=["-UNDEBUG", "-g1"],
    libs=[],
)
RULE = ("case = one whole history `<N> : op;op;...` for chunk size N in {1,2,3,100}: 1-5 resize phases over a global range of width "
        "1-12 (about 3% long histories of 90-230 adds per phase to cross chunks of N=100), adds and deletions interleaved in random "
        "order, phases adding 0/1/N+-1 entries, deleting none/all/all-but-one, re-adding deleted globals, 15% histories with equal "
        "globals under different attributes, one third with wrong-state calls; lookups aim at stored keys and their neighbours. "
        "distinct = distinct history lines; non-trivial = at least two ops and inside the property's quantifier")
ASSUMPTIONS = [
    "the Lean model lean/DuneVerif/Model/C03.lean is hand-written; its fidelity to indexset.hh rests on this differential run",
    "localIndices_/newIndices_ are abstract sequences: ArrayList = its sequence is property C11",
    "std::sort is modelled as insertion sort; histories closing a phase with two equal (global, attribute) keys are outside the quantifier",
    "fixes/C03_lookup_single_entry.patch is applied to the tree under test",
]
TRUSTED = ["g++/libstdc++, ASan/UBSan", "harness/cxx_c03.cc (incl. the std::multimap oracle) + Driver/C03.lean parsing/printing"]


def _seed(seed, i):
    # dv::Rng streams of adjacent seeds are shifted copies of each other: space the seeds far apart
    return str(((seed * 64 + i) * 1000000007) % (2 ** 63))


def batches(tier, seed):
    if tier == "quick":
        n, parts = 6000, 4
        res = [dict(args=["--seed", _seed(seed, i), "--cases", str(n // parts), "--tier", tier], tag="g%d" % i,
                    timeout=60) for i in range(parts)]
        # a slice of the exhaustive family (<= 2 rounds over 4 globals), rotating with the seed
        res.append(dict(args=["--seed", "1", "--cases", "1300", "--enum", "1", "--offset", str((seed * 1300) % 15552)],
                        tag="enum", timeout=60))
        return res
    n, parts = 240000, 12
    res = [dict(args=["--seed", _seed(seed, 20 + i), "--cases", str(n // parts), "--tier", tier], tag="g%d" % i,
                timeout=900) for i in range(parts)]
    res.append(dict(args=["--seed", "1", "--cases", "15552", "--enum", "1"], tag="enum", timeout=600))
    return res


def search_batches(seed):
    return [dict(args=["--seed", _seed(seed, 40 + i), "--cases", "30000"], timeout=300) for i in range(3)]
