"""C18 — path and string utilities compute the documented normal forms and inverses."""
import os

from translators import tr_c18

PID = "C18"
CLAIM = True
MANIFEST_TEXT = ("41 Lean 4 theorems for ALL strings: the character-level transcription of processPath (path.cc, pass by pass) "
                 "terminates (its '/../' loop leaves through break within |text|+1 iterations) and equals the component-level "
                 "specification render(denote p); the result is in the documented normal form, denotes the same location, is "
                 "idempotent and absolute paths never leave the root; prettyPath follows its table, preserves the location, is "
                 "idempotent and its output carries its own directory flag (both overloads' bodies are REGENERATED from path.cc "
                 "on every run and proved equal to the canonical transcription); pathIndicatesDirectory and concatPaths (decision "
                 "lists REGENERATED from path.cc) follow their tables, concatPaths is associative; every row of the three example tables in the documentation (re-read from path.hh on every run) "
                 "is evaluated in the kernel; relativePath is exactly the documented function of the two locations (error iff "
                 "mixed absolute/relative or more leading '..' in the base; otherwise the longest common list of components "
                 "removed), its result is sanitised and relative and, concatenated back onto the base, denotes the target and "
                 "sanitises to the sanitised target; "
                 "hasPrefix/hasSuffix (bodies REGENERATED from stringutility.hh) equal their plain definitions; formatString returns the complete text for every length up "
                 "to INT_MAX and for ANY stack-buffer size (the size, the 'fits the stack buffer' test and the heap-buffer size are "
                 "re-read from stringutility.hh and proved sound for all values), throws for longer texts and for conversion "
                 "errors.  Each run compiles the current path.cc/stringutility.hh and compares them with the "
                 "model exhaustively on all strings over {/ . a b} up to length 9 (quick) / 11 (thorough), all pairs up to length "
                 "4 / 5, random longer and very long paths and pairs (bytes 0x00-0xff), every format result length around the "
                 "current buffer size, %d %ld %lld %u %zu %x %X %o %c %lc %s with flags - + 0, widths (also '*') and %.Ns, 0-6 "
                 "arguments, outputs fed back in (second use), three-operand concatenations, with an independent component-resolver oracle deciding "
                 "the property itself (including the documented rows, other container types for hasPrefix/hasSuffix, and in the "
                 "thorough tier the 2 GiB results at INT_MAX-1 / INT_MAX and paths of 76-80 k characters).")
MANIFEST_NOTE = ("Trusted: Lean kernel (+propext/Classical.choice/Quot.sound), tr_c18.py, the hand-written model's fidelity for the "
                 "loops of processPath/relativePath, for the snprintf calls/throw checks of formatString and for the printf subset "
                 "(checked by the exhaustive differential run only), harness/driver string encoding, g++/libstdc++/ASan/UBSan, the C library's snprintf (formatString is "
                 "modelled as 'snprintf into the stack buffer, else heap' on the ideal text or conversion error; std::bad_alloc is "
                 "not modelled).  If a refactoring takes hasPrefix/hasSuffix/pathIndicatesDirectory/concatPaths/prettyPath/the formatString skeleton/the "
                 "buffer declaration/the doc tables outside the translator's grammar the translator falls back to its built-in "
                 "transcription (counted as translator_fallbacks in the evidence), the run is widened by the search batches, and "
                 "that item is tied by the differential run only.  Needs "
                 "fixes/C18_fmt_intmax.patch: the unpatched formatString overflows a signed int for a result of exactly INT_MAX "
                 "characters (thorough tier: replay 'F 2147483647').")
TECHNIQUE = ("Lean 4 proof (char-level model refines component-level spec; termination; exact relativePath) + translator for the "
             "decision lists, hasPrefix/hasSuffix, both prettyPath bodies, the formatString size test/heap size/buffer size and documentation tables + exhaustive differential correspondence with independent "
             "resolver oracle")
TRANSLATORS = [tr_c18.translate]
HARNESS = dict(
    sources=["cxx_c18.cc"],
    repo_sources=["dune/common/path.cc", "dune/common/exceptions.cc", "dune/common/stdstreams.cc"],
    libs=[],
    flags=["-Wno-format-security"],
)
RULE = ("cases: docrows = every row of the example tables in the current path.hh; u = every string over the alphabet "
        "{'/', '.', 'a', 'b'} up to length 9 (quick) / 11 (thorough) through processPath, prettyPath (3 forms), "
        "pathIndicatesDirectory, and the outputs fed back in (prettyPath of a pretty path, processPath of a pretty path, "
        "relativePath(p, processPath p)); b = every ordered pair of such strings up to length 4 / 5 through concatPaths, relativePath, "
        "hasPrefix, hasSuffix (std::string; the oracle also runs vector/deque/list/string_view), three-operand "
        "concatenations (associativity) and the string-level round trip; ur/br = seeded random longer "
        "paths built from components {'', '.', '..', names, names with dots/blanks/upper case/NUL/bytes >= 0x80} and related "
        "pairs (prefix, suffix, shared leading components, one letter's case flipped, 1 in 40 with a path of 200-3100 "
        "characters); ul = paths of 200-3100 characters; uh (thorough) = 2 paths of 76-80 k characters; bl = strings of length 0-3, cap-2..cap+2, 2*cap, 4100, 5000 with "
        "prefixes/suffixes/one-character changes/NUL; f = formatString with every result length 0..min(2*cap+100, 4200), "
        "cap-8..cap+8, 2*cap-8..2*cap+8 and random ones there (cap = the stack buffer size read from the current "
        "stringutility.hh), arguments int/long/long long/unsigned/size_t/char/wint_t/const char* (0-6 of them), flags - + 0, "
        "'*' widths (also negative), %.Ns, %X %o, conversion errors; fallbackN = the search batches, added when the translator "
        "fell back for an item; F = widths beyond INT_MAX "
        "(must throw), 70000 and 3000000, thorough: INT_MAX-1 and INT_MAX.  distinct = distinct op lines; every case is "
        "oracle-checked (non-trivial)")
ASSUMPTIONS = [
    "the loops of processPath and relativePath and the call/throw structure of formatString are hand-written in lean/DuneVerif/Model/C18.lean; their fidelity to path.cc/stringutility.hh rests on this differential run (exhaustive up to the stated lengths)",
    "hasPrefix, hasSuffix, pathIndicatesDirectory, concatPaths, both prettyPath overloads, the formatString buffer size, its 'fits the stack buffer' test and heap-buffer size, and the documentation tables are regenerated from the source by tools/translators/tr_c18.py (fail-soft: outside its grammar the built-in transcription is used, counted in distribution.translator_fallbacks, and the run is widened by the search batches)",
    "hasPrefix/hasSuffix take the pattern as a C string (up to the first NUL); containers and paths may contain any byte",
    "formatString is modelled on the ideal formatted text or conversion error; snprintf itself (libc, classic locale) is trusted, exercised with %d %ld %lld %u %zu %x %X %o %c %lc %s %% and the flags '-', '+', '0', a width (digits or '*') and a precision on %s; std::bad_alloc is not modelled",
    "results of 2^31-2 and 2^31-1 characters are built in the thorough tier only; for them and for widths beyond INT_MAX only the outcome class (returns/throws) is compared with the model (theorem formatString_outcome), the text by the oracle",
]
TRUSTED = ["g++/libstdc++, ASan/UBSan, libc snprintf", "translator tools/translators/tr_c18.py",
           "harness/cxx_c18.cc (resolver oracle, token encoding) + Driver/C18.lean parsing/printing"]


def _count(L):
    return (4 ** (L + 1) - 1) // 3


def _source_facts():
    """stack buffer size of formatString in the tree under test and the number of translator fallbacks"""
    repo = os.environ.get("VERIF_REPO", "/repo")
    a = tr_c18.analyse(repo)
    return a["bufferSize"], sum(1 for v in a["status"].values() if v is not None), len(a["status"])


def _enc(t):
    if t == "":
        return "-"
    return "".join(c if (c.isascii() and c.isalnum()) or c in "/._" else "".join("~%02x" % b for b in c.encode("latin-1", "replace"))
                   for c in t)


def _doc_rows_file():
    """the example tables of the current path.hh as op lines (one row each); the harness oracle compares the code with
    the documented result, so a disagreement between documentation and code is reported with the row as replay"""
    import dvlib as L
    proc, pretty, concat = tr_c18.analyse(os.environ.get("VERIF_REPO", "/repo"))["tables"]
    lines = ["tp %s %s" % (_enc(p), _enc(r)) for p, r in proc]
    lines += ["tq %s %s %s" % (_enc(p), "1" if d == "true" else "0", _enc(r)) for p, d, r in pretty]
    lines += ["tc %s %s %s" % (_enc(b), _enc(p), _enc(r)) for b, p, r in concat]
    os.makedirs(L.BUILD, exist_ok=True)
    path = os.path.join(L.BUILD, "C18_docrows_input.ops")
    with open(path, "w") as f:
        f.write("\n".join(lines) + "\n")
    return path


def _fcases(N, extra):
    top = min(2 * N + 100, 4200)
    sweep = top + 1 + sum(1 for c in (N, 2 * N) for t in range(c - 8, c + 9) if t > top)
    return sweep + extra


def batches(tier, seed):
    quick = tier == "quick"
    LU = 9 if quick else 11
    LB = 4 if quick else 5
    N, nfall, nitems = _source_facts()
    res = [dict(replay=_doc_rows_file(), tag="docrows")]
    # exhaustive unary enumeration, in chunks so memory stays flat
    nu = _count(LU)
    chunk = 350000
    k = 0
    first = 0
    while first < nu:
        n = min(chunk, nu - first)
        res.append(dict(args=["--mode", "u", "--first", str(first), "--cases", str(n), "--seed", str(seed)],
                        tag="u%d" % k, timeout=1500))
        first += n
        k += 1
    # exhaustive pairs
    nb = _count(LB) ** 2
    first = 0
    k = 0
    while first < nb:
        n = min(chunk, nb - first)
        res.append(dict(args=["--mode", "b", "--maxlen", str(LB), "--first", str(first), "--cases", str(n), "--seed", str(seed)],
                        tag="b%d" % k, timeout=1500))
        first += n
        k += 1
    nr = 20000 if quick else 300000
    res.append(dict(args=["--mode", "ur", "--cases", str(nr), "--seed", str(seed * 1000 + 1)], tag="ur", timeout=1500))
    res.append(dict(args=["--mode", "br", "--cases", str(nr), "--seed", str(seed * 1000 + 2)], tag="br", timeout=1500))
    res.append(dict(args=["--mode", "ul", "--cases", str(150 if quick else 3000), "--seed", str(seed * 1000 + 5)], tag="ul", timeout=1500))
    if not quick:
        # paths longer than a 16-bit index (the model's find("/../") is quadratic: about 20 s per case)
        res.append(dict(args=["--mode", "uh", "--cases", "2", "--seed", str(seed * 1000 + 6)], tag="uh", timeout=3000))
    res.append(dict(args=["--mode", "bl", "--cases", str(600 if quick else 6000), "--seed", str(seed * 1000 + 3), "--bufsize", str(N)],
                    tag="bl", timeout=1500))
    res.append(dict(args=["--mode", "f", "--cases", str(_fcases(N, 900 if quick else 9000)), "--seed", str(seed * 1000 + 4),
                          "--bufsize", str(N), "--trfallbacks", str(nfall), "--tritems", str(nitems)], tag="f", timeout=1500))
    # results whose length does not fit in int must throw; the thorough tier also builds the two 2 GiB results at the
    # boundary INT_MAX-1 / INT_MAX (about 15 s and 4.5 GB each under ASan)
    res.append(dict(args=["--mode", "F", "--cases", "7" if quick else "9", "--big", "0" if quick else "1", "--seed", str(seed)],
                    tag="F", timeout=1500))
    if nfall > 0:
        # the source left the translator's grammar somewhere: that item is tied by the differential run only, so the
        # run is widened (the same batches a broken obligation would trigger) instead of raising an alarm
        for k, b in enumerate(search_batches(seed)[2:7]):
            res.append(dict(b, tag="fallback%d" % k, timeout=1500))
    return res


def search_batches(seed):
    return [
        dict(args=["--mode", "u", "--first", "0", "--cases", str(_count(9)), "--seed", str(seed)], timeout=900),
        dict(args=["--mode", "b", "--maxlen", "4", "--first", "0", "--cases", str(_count(4) ** 2), "--seed", str(seed)], timeout=900),
        dict(args=["--mode", "br", "--cases", "200000", "--seed", str(seed * 7919 + 13)], timeout=900),
        dict(args=["--mode", "ur", "--cases", "200000", "--seed", str(seed * 7919 + 14)], timeout=900),
        dict(args=["--mode", "f", "--cases", str(_fcases(_source_facts()[0], 4000)), "--seed", str(seed * 7919 + 15),
                   "--bufsize", str(_source_facts()[0])], timeout=900),
        dict(args=["--mode", "ul", "--cases", "3000", "--seed", str(seed * 7919 + 16)], timeout=900),
        dict(args=["--mode", "bl", "--cases", "6000", "--seed", str(seed * 7919 + 17), "--bufsize", str(_source_facts()[0])], timeout=900),
        dict(args=["--mode", "F", "--cases", "9", "--big", "1", "--seed", str(seed)], timeout=900),
    ]
