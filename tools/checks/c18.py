"""C18 — path and string utilities compute the documented normal forms and inverses."""
import os

from translators import tr_c18

PID = "C18"
CLAIM = True
MANIFEST_TEXT = ("Lean 4 theorems for ALL strings: the character-level transcription of processPath (path.cc, pass by pass) "
                 "equals the component-level specification render(denote p); the result is in the documented normal form, "
                 "denotes the same location, is idempotent and absolute paths never leave the root; prettyPath, "
                 "pathIndicatesDirectory and concatPaths follow their tables; relativePath concatenated back onto the base "
                 "denotes the target whenever it reports a result; hasPrefix/hasSuffix/formatString equal their plain "
                 "definitions for every length.  Each run compiles the current path.cc/stringutility.hh and compares them with "
                 "the model exhaustively on all strings over {/ . a b} up to length 9 (quick) / 11 (thorough), all pairs up to "
                 "length 4 / 5, random longer paths, and every format result length 0..2100, with an independent "
                 "component-resolver oracle deciding the property itself.")
MANIFEST_NOTE = ("Trusted: Lean kernel (+propext/Classical.choice/Quot.sound), the hand-written model's fidelity (checked by the "
                 "exhaustive differential run only), harness/driver string encoding, g++/libstdc++/ASan/UBSan, the C library's "
                 "snprintf (formatString is modelled as 'snprintf into 1000 bytes, else heap' on the ideal text; only the "
                 "%d/%s/%% subset with flags - 0 and a width is exercised).  Strings containing NUL are outside the model.")
TECHNIQUE = "Lean 4 proof (char-level model refines component-level spec) + exhaustive differential correspondence with independent resolver oracle"
TRANSLATORS = [tr_c18.translate]
HARNESS = dict(
    sources=["cxx_c18.cc"],
    repo_sources=["dune/common/path.cc", "dune/common/exceptions.cc", "dune/common/stdstreams.cc"],
    libs=[],
    flags=["-Wno-format-security"],
)
RULE = ("cases: u = every string over the alphabet {'/', '.', 'a', 'b'} up to length 9 (quick) / 11 (thorough) through "
        "processPath, prettyPath (3 forms), pathIndicatesDirectory; b = every ordered pair of such strings up to length 4 / 5 "
        "through concatPaths, relativePath, hasPrefix, hasSuffix; ur/br = seeded random longer paths built from components "
        "{'', '.', '..', names, names with dots/spaces/other bytes} and related pairs; bl = strings of length 0-3, 998-1002, 2000 "
        "with prefixes/suffixes/one-character changes; f = formatString with result lengths 0..2100 each, plus extra cases at "
        "994..1006 and 1990..2010.  distinct = distinct op lines; every case is oracle-checked (non-trivial)")
ASSUMPTIONS = [
    "the Lean model lean/DuneVerif/Model/C18.lean is hand-written; its fidelity to path.cc/stringutility.hh rests on this differential run (exhaustive up to the stated lengths)",
    "strings are sequences of non-NUL bytes (hasPrefix/hasSuffix take a C string; path functions are byte-oriented)",
    "formatString is modelled on the ideal formatted text; snprintf itself (libc) is trusted, exercised with %d, %s, %% and the flags '-', '0' and a width",
]
TRUSTED = ["g++/libstdc++, ASan/UBSan, libc snprintf", "harness/cxx_c18.cc (resolver oracle, token encoding) + Driver/C18.lean parsing/printing"]


def _count(L):
    return (4 ** (L + 1) - 1) // 3


def _source_facts():
    """stack buffer size of formatString in the tree under test and the number of translator fallbacks"""
    repo = os.environ.get("VERIF_REPO", "/repo")
    a = tr_c18.analyse(repo)
    return a["bufferSize"], sum(1 for v in a["status"].values() if v is not None), len(a["status"])


def _enc(t):
    if t == "":
        return "-"
    return "".join(c if (c.isascii() and c.isalnum()) or c in "/._" else "".join("~%02x" % b for b in c.encode("latin-1", "replace"))
                   for c in t)


def _doc_rows_file():
    """the example tables of the current path.hh as op lines (one row each); the harness oracle compares the code with
    the documented result, so a disagreement between documentation and code is reported with the row as replay"""
    import dvlib as L
    proc, pretty, concat = tr_c18.analyse(os.environ.get("VERIF_REPO", "/repo"))["tables"]
    lines = ["tp %s %s" % (_enc(p), _enc(r)) for p, r in proc]
    lines += ["tq %s %s %s" % (_enc(p), "1" if d == "true" else "0", _enc(r)) for p, d, r in pretty]
    lines += ["tc %s %s %s" % (_enc(b), _enc(p), _enc(r)) for b, p, r in concat]
    os.makedirs(L.BUILD, exist_ok=True)
    path = os.path.join(L.BUILD, "C18_docrows_input.ops")
    with open(path, "w") as f:
        f.write("\n".join(lines) + "\n")
    return path


def _fcases(N, extra):
    top = min(2 * N + 100, 4200)
    sweep = top + 1 + sum(1 for c in (N, 2 * N) for t in range(c - 8, c + 9) if t > top)
    return sweep + extra


def batches(tier, seed):
    quick = tier == "quick"
    LU = 9 if quick else 11
    LB = 4 if quick else 5
    N, nfall, nitems = _source_facts()
    res = [dict(replay=_doc_rows_file(), tag="docrows")]
    # exhaustive unary enumeration, in chunks so memory stays flat
    nu = _count(LU)
    chunk = 350000
    k = 0
    first = 0
    while first < nu:
        n = min(chunk, nu - first)
        res.append(dict(args=["--mode", "u", "--first", str(first), "--cases", str(n), "--seed", str(seed)],
                        tag="u%d" % k, timeout=1500))
        first += n
        k += 1
    # exhaustive pairs
    nb = _count(LB) ** 2
    first = 0
    k = 0
    while first < nb:
        n = min(chunk, nb - first)
        res.append(dict(args=["--mode", "b", "--maxlen", str(LB), "--first", str(first), "--cases", str(n), "--seed", str(seed)],
                        tag="b%d" % k, timeout=1500))
        first += n
        k += 1
    nr = 20000 if quick else 300000
    res.append(dict(args=["--mode", "ur", "--cases", str(nr), "--seed", str(seed * 1000 + 1)], tag="ur", timeout=1500))
    res.append(dict(args=["--mode", "br", "--cases", str(nr), "--seed", str(seed * 1000 + 2)], tag="br", timeout=1500))
    res.append(dict(args=["--mode", "ul", "--cases", str(150 if quick else 3000), "--seed", str(seed * 1000 + 5)], tag="ul", timeout=1500))
    res.append(dict(args=["--mode", "bl", "--cases", str(600 if quick else 6000), "--seed", str(seed * 1000 + 3), "--bufsize", str(N)],
                    tag="bl", timeout=1500))
    res.append(dict(args=["--mode", "f", "--cases", str(_fcases(N, 900 if quick else 9000)), "--seed", str(seed * 1000 + 4),
                          "--bufsize", str(N), "--trfallbacks", str(nfall), "--tritems", str(nitems)], tag="f", timeout=1500))
    # results whose length does not fit in int must throw; the thorough tier also builds the two 2 GiB results at the
    # boundary INT_MAX-1 / INT_MAX (about 15 s and 4.5 GB each under ASan)
    res.append(dict(args=["--mode", "F", "--cases", "7" if quick else "9", "--big", "0" if quick else "1", "--seed", str(seed)],
                    tag="F", timeout=1500))
    return res


def search_batches(seed):
    return [
        dict(args=["--mode", "u", "--first", "0", "--cases", str(_count(9)), "--seed", str(seed)], timeout=900),
        dict(args=["--mode", "b", "--maxlen", "4", "--first", "0", "--cases", str(_count(4) ** 2), "--seed", str(seed)], timeout=900),
        dict(args=["--mode", "br", "--cases", "200000", "--seed", str(seed * 7919 + 13)], timeout=900),
        dict(args=["--mode", "ur", "--cases", "200000", "--seed", str(seed * 7919 + 14)], timeout=900),
        dict(args=["--mode", "f", "--cases", str(_fcases(_source_facts()[0], 4000)), "--seed", str(seed * 7919 + 15),
                   "--bufsize", str(_source_facts()[0])], timeout=900),
        dict(args=["--mode", "ul", "--cases", "3000", "--seed", str(seed * 7919 + 16)], timeout=900),
        dict(args=["--mode", "bl", "--cases", "6000", "--seed", str(seed * 7919 + 17), "--bufsize", str(_source_facts()[0])], timeout=900),
        dict(args=["--mode", "F", "--cases", "9", "--big", "1", "--seed", str(seed)], timeout=900),
    ]
