"""C15 — allocators hand out aligned, disjoint, usable blocks for any request history."""
from translators import tr_c15

PID = "C15"
CLAIM = True
MANIFEST_TEXT = ("Lean 4 theorems for all element sizes, alignments, pool sizes, request counts, page sizes and all valid "
                 "allocate/deallocate histories, with the base addresses returned by operator new/mmap universally quantified: "
                 "Pool slot geometry is sound (>=1 slot per chunk, slots fit, hold a T and the free-list pointer, aligned); the loop of "
                 "Pool::grow with its bounds regenerated from the source threads exactly the slots 1..elements-1, the regenerated range "
                 "test of Pool::free accepts exactly the addresses inside a chunk's storage; slots are "
                 "disjoint/aligned/inside their chunk; the invariant free list + live set = all slots exactly once is preserved, hence "
                 "allocate never returns a live block, a block is returned again only after it was freed, live blocks are pairwise "
                 "disjoint and aligned for T, ~Pool deletes every chunk exactly once; histories include the refused requests "
                 "(PoolAllocator n != 1, free(nullptr), free of an address outside every chunk, allocation while operator new "
                 "fails): exactly those are refused and a refusal leaves the pool unchanged; the intrusive representation "
                 "(head_ and the next_ word inside every free slot, a transcription of grow/allocate/free) refines the list model "
                 "for every valid history with arbitrary writes of the owners into their live blocks interleaved (never reads a "
                 "word it did not write, returns the same blocks); Malloc/AlignedAllocator refuse every "
                 "request whose byte size overflows size_t and otherwise ask for exactly n*sizeof(T) bytes with an alignment that "
                 "suffices for T (MallocAllocator also for over-aligned T); DebugAllocator blocks end exactly at the guard page, "
                 "are aligned, overflow requests are refused, deallocate (with the size or with n = 0) finds every recorded "
                 "block, live blocks are pairwise disjoint and never reach into any guard page, and the munmap calls (incl. the "
                 "destructor's) are a permutation of the mmap calls (same address, same length); in the compile-time configuration "
                 "DEBUG_ALLOCATOR_KEEP (released entries stay recorded and mapped) every valid history - any number of "
                 "allocate/release/allocate-again rounds - runs without abort, nothing is unmapped before destruction, recorded "
                 "blocks (released or in use) never overlap, and the destructor's munmap calls are exactly the mmap calls of the "
                 "history; a released entry whose range were handed out again makes the legal deallocate abort (why the mapping "
                 "must be kept with the entry). The geometry, validation and "
                 "page formulas the theorems talk about are regenerated from the four headers on every run; the state machines "
                 "(incl. what the #if DEBUG_ALLOCATOR_KEEP branch of deallocate does, the not_free bookkeeping and the destructor's "
                 "loop) are run against the real allocators (28 element types, sizeof 1..1000, alignof 1..128, for the request "
                 "validation of Malloc/AlignedAllocator also three types of 8 GiB..16 TiB that are only named; the debug manager "
                 "also as an object owned by the case in both configurations of DEBUG_ALLOCATOR_KEEP so that its destructor runs, "
                 "the pool also compiled with NDEBUG; allocation with a hint, through copies and through allocators converted from "
                 "another element type, and through std::allocator_traits<A>::rebind_alloc<U> for a U of twice the size, checked against "
                 "the alignment the family promises) on >=20k random "
                 "histories per run with an interval-map/tag/ASan oracle (plus recorded operator new/mmap/munmap calls) deciding "
                 "the property itself.")
MANIFEST_NOTE = ("Partial: malloc/aligned_alloc/operator new/mmap/mprotect are trusted (modelled as parameters); the proof is "
                 "about the model, whose fidelity rests on the translator (formulas) and on differential execution (state machines). "
                 "LP64 assumed (pointer 8 bytes, size_t 64 bit, alignof(max_align_t) 16). AlignedAllocator<T,A> with an explicit A that "
                 "alignof(T) does not divide promises A only (not generated). Under ASan aligned_alloc is shimmed to memalign (ASan "
                 "enforces C11's size%alignment rule that glibc/C17 do not). Requests between 64 MiB and 2^47 bytes (where the OS "
                 "decides) are not generated. Pool blocks are compared by (chunk, slot) name, so the LIFO order of the free list is "
                 "part of the compared behaviour. DebugAllocator aborts (wrong size/type on deallocate, lost allocations) are "
                 "modelled but cannot be executed in-process. Compile-time configurations: DEBUG_ALLOCATOR_KEEP=0/1 and NDEBUG on/off "
                 "are built and run (each in its own translation unit with the library's names renamed by macros); DEBUG_NEW_DELETE "
                 "(global operator new/delete on the debug manager, = allocate<char>(size)/deallocate<char>(p[, size])) and the "
                 "__APPLE__/_MSC_VER branches are not. Translator tolerance (round five): renamed parameters/locals, hoisted or inlined "
                 "side-effect-free locals, a private helper that only selects between return expressions, for/while, flipped or negated "
                 "comparisons in the request bound, null-test spellings and the inverted null guard are normalised away before the statement "
                 "shapes are matched; other restructurings of the translated functions (std algorithms with lambdas instead of the hand "
                 "loops, count-down threading in Pool::grow, a helper with side effects or out-parameters, a local of a narrower type) still "
                 "end in `broken: translator` without a failing input although the property may hold.")
TECHNIQUE = "Lean 4 proof over allocator state machines + translator for geometry/validation/page formulas + trace correspondence with interval-map oracle under ASan"
TRANSLATORS = [tr_c15.translate]
HARNESS = dict(
    sources=["cxx_c15.cc", "cxx_c15_keep.cc", "cxx_c15_ndebug.cc"],   # one translation unit per compile-time configuration
    repo_sources=["dune/common/debugallocator.cc", "dune/common/debugalign.cc"],
    libs=[],
    flags=["-O0"],   # ~150 small template instantiations: -O0 compiles in 20 s instead of 65 s; the sanitizers stay on
)
RULE = ("case = one allocator instance (kind x element type from 28 (sizeof,alignof) pairs x pool size in {0,1,sz,sz+1,2sz,7sz,1000,4096,..} "
        "or requested alignment in {default,16,64,..}) and a whole allocate/free history (1..60 ops quick, ..160 thorough, 1 in 12 "
        "long enough to fill two chunks (<=600); fill/drain/churn phases sized around elements+-1; free order random/oldest/"
        "newest/middle; refused requests interleaved: n != 1, free(nullptr), free(foreign / just behind / just in front of a "
        "chunk), allocate while operator new throws; n in {0,1,2,..} and around max_size, wrapping products, 2^63, SIZE_MAX; "
        "debug sizes around page multiples, deallocate with the size or with 0; 3% requests of 4..64 MiB; 1 in 5 raw histories "
        "are rounds of allocate/release of the same few sizes (second use), earlier request sizes are asked for again; "
        "kinds dbgmgr <keep> = AllocationManager owned by the case in configuration DEBUG_ALLOCATOR_KEEP=<keep>, destroyed at "
        "the end of the case; poolnd/pand = Pool/PoolAllocator compiled with NDEBUG (no foreign frees); raw ops h<n> "
        "allocate(n, hint), c<n> allocate through a copy, g<k>/G<k> deallocate through a copy / a converted allocator, r<n> allocate n objects of twice the size through the rebound "
        "allocator allocator_traits<A>::rebind_alloc<U>); Malloc/AlignedAllocator also for three element types that are only named, "
        "never created (sizeof 2^33+8, 2^38+1, 2^44+64): every n >= 1 is unservable there and n*sizeof(T) wraps to ordinary sizes "
        "for small n, so only n = 0 and unservable counts (around max_size, multiples of max_size+1) are asked; distinct = distinct "
        "op lines; non-trivial = every case whose oracle ran (unsupported configurations are trivial)")
ASSUMPTIONS = [
    "the state machines in lean/DuneVerif/Model/C15.lean (intrusive pool IPool = transcription of Pool::grow/allocate/free; list model Pool proved equivalent; allocation list of the debug manager) are hand-written; their fidelity to the headers rests on this differential run, in which the driver executes the intrusive pool and cross-checks it against the list model",
    "slot geometry, request validation, DebugAllocator page arithmetic, the loop bounds of Pool::grow (pointer loop or index loop), the range test of Pool::free, the contents of the #if DEBUG_ALLOCATOR_KEEP branch of deallocate, the not_free bookkeeping and the destructor's walk are regenerated from the headers by tools/translators/tr_c15.py; statement shapes it does not understand make it fail (broken: translator)",
    "before the statement shapes are matched the translator brings each function body to one spelling by source-to-source steps whose side conditions it checks on the text (otherwise the text is left alone and the match fails loudly): parameters and locals are renamed by their role (found through the statement that defines the role, e.g. the local initialised with chunks_->chunk_), a local that is initialised once from a side-effect-free expression of a non-narrowing type (64-bit unsigned, auto, listed pointer types; int only over Pool's int constants) and whose operands cannot change before its last use (no assignment, ++/--, address-of, pass to an unknown function, no call of an unknown function in between) is replaced by its initialiser, a member function of the same class whose body is a decision tree of return statements is expanded at call sites of the forms `T v = W(f(a));`, `v = W(f(a));`, `return W(f(a));` (side-effect-free arguments, parameters by value/const reference and never written), `x = y;` makes the never-again-written local y an alias of x, a classic for loop without continue is read as init + while, `p == nullptr/NULL/0` is `!p`, `if (p) return p; throw E;` is `if (!p) throw E; return p;`, a request bound may be written `n > E`, `E < n`, `!(n <= E)`, `!(E >= n)`, and PoolAllocator::deallocate may be any of six loop spellings that free p, p+1, …, p+n-1 in order; the formulas inside the shapes are compared by value on the grid as before",
    "a formula rewritten in the source into a textually different one that agrees with the form the proofs were written against on the translator's whole grid (sizeof 1..130, alignof 1..128, ~30 pool sizes; counts around max_size; capacities around page multiples) is emitted in that known form, with the source text kept as a comment in Gen/C15.lean; any value difference on the grid emits the source's own expression",
    "LP64 target: sizeof(void*) = alignof(void*) = 8, size_t has 64 bits, alignof(std::max_align_t) = 16, page size 4096 in the corpus files",
    "operator new / malloc / aligned_alloc / mmap return disjoint, suitably aligned, usable memory (trusted, not modelled)",
    "requests up to 64 MiB are expected to be served, requests of 2^47 bytes and more cannot be served; nothing in between is generated (for the three giant element types of the Malloc/AlignedAllocator cases, sizeof 2^33+8 .. 2^44+64, that leaves n = 0 and the unservable counts)",
    "pool histories are valid: only blocks obtained from the pool and not yet freed are given back (plus nullptr / addresses outside every chunk, which must throw because the harness is compiled without NDEBUG)",
    "debug histories are valid: deallocate is called with pointers of live blocks and their size (or 0) and element type; mmap returns page-aligned ranges disjoint from the mappings in use",
    "DEBUG_ALLOCATOR_KEEP: mmap returns ranges disjoint from every mapping that still exists, which includes the mappings of released blocks because the KEEP branch of deallocate does not unmap (generated constant dbgKeepFreeUnmaps = false, lemma keepUnmaps_eq); if the source starts to unmap there, the lemma and with it the obligations break",
    "with NDEBUG the pool is only driven with valid frees and free(nullptr) (a foreign free is undefined behaviour there)",
]
TRUSTED = ["g++/libstdc++, ASan/UBSan, glibc malloc_usable_size, /proc/self/maps as oracle inputs", "translator tr_c15.py",
           "harness/cxx_c15.cc (interval map, tags, replaced operator new/delete, interposed mmap/munmap, aligned_alloc shim) + Driver/C15.lean parsing/printing"]


def batches(tier, seed):
    n = 20000 if tier == "quick" else 240000
    parts = 4 if tier == "quick" else 16
    # dv::Rng streams of seeds that differ by d are the same stream shifted by d draws: keep the seeds far apart
    return [dict(args=["--seed", str(seed * 1000000007 + i * 10000019), "--cases", str(n // parts), "--tier", tier], tag="g%d" % i,
                 timeout=(600 if tier == "quick" else 3000)) for i in range(parts)]


def search_batches(seed):
    return [dict(args=["--seed", str(seed * 1000000007 + 500000003 + i * 10000019), "--cases", "20000"], timeout=900) for i in range(3)]
