"""C15 — allocators hand out aligned, disjoint, usable blocks for any request history."""
from translators import tr_c15

PID = "C15"
CLAIM = True
MANIFEST_TEXT = "placeholder"
MANIFEST_NOTE = "placeholder"
TECHNIQUE = "Lean 4 proof over allocator state machines + translator for geometry/validation/page formulas + trace correspondence with interval-map oracle under ASan"
TRANSLATORS = [tr_c15.translate]
HARNESS = dict(
    sources=["cxx_c15.cc"],
    repo_sources=["dune/common/debugallocator.cc", "dune/common/debugalign.cc"],
    libs=[],
    flags=["-O0"],   # ~150 small template instantiations: -O0 compiles in 20 s instead of 65 s; the sanitizers stay on
)
RULE = "placeholder"
ASSUMPTIONS = []
TRUSTED = []


def batches(tier, seed):
    n = 20000 if tier == "quick" else 240000
    parts = 4 if tier == "quick" else 16
    # dv::Rng streams of seeds that differ by d are the same stream shifted by d draws: keep the seeds far apart
    return [dict(args=["--seed", str(seed * 1000000007 + i * 10000019), "--cases", str(n // parts), "--tier", tier], tag="g%d" % i,
                 timeout=(600 if tier == "quick" else 3000)) for i in range(parts)]


def search_batches(seed):
    return [dict(args=["--seed", str(seed * 1000000007 + 500000003 + i * 10000019), "--cases", "20000"], timeout=900) for i in range(3)]
