"""C01 — dense matrices act as the linear map they store, in every representation."""
from translators import tr_c01

PID = "C01"
CLAIM = True
MANIFEST_TEXT = ("Lean 4 theorems over an arbitrary commutative ring with a conjugation map, for all shapes and entries: the eleven "
                 "kernels mv..usmhv (run by a generic loop-nest interpreter from the KernelSig tables that tr_c01.py re-reads from "
                 "densematrix.hh / diagonalmatrix.hh / transpose.hh on every run) equal their algebraic definitions (Hermitian ones with "
                 "conj); matrix products, leftmultiply/rightmultiply(any), transposed, and the vector-space operations equal their "
                 "definitions; diagonal, 1x1-scalar-view and transposed-view representations give the results of the full matrix with the "
                 "same entries. The model is run against FieldMatrix/DynamicMatrix/DiagonalMatrix/ScalarMatrixView/transposed views and "
                 "FieldVector/DynamicVector over int, double, complex<double> and GF(32003) on >= 40k cases per run, with naive loops as "
                 "independent oracle and operands compared before/after every call.")
MANIFEST_NOTE = ("Trusted: Lean kernel (+propext/Classical.choice/Quot.sound), tr_c01.py, fidelity of the hand-written product / "
                 "vector-space models (differential run only), harness + driver parsing. Static FieldMatrix shapes: all of 1..4 x 1..4 for "
                 "complex<double>, subsets covering all 16 shapes for int/double/GF (compile time). Harness compiled -O0 with "
                 "ASan + UBSan(bounds, signed overflow, shifts, division, ...; without null/alignment/vptr/pointer-overflow/object-size) to "
                 "keep ~1500 template instantiations compilable in about a minute. Floating-point rounding is outside the property (exact "
                 "fields only); complex division only with divisors for which libgcc's Smith division is exact.")
TECHNIQUE = "Lean 4 proof over loop-nest model + translator for kernel signature tables + differential correspondence with naive-loop oracle"
TRANSLATORS = [tr_c01.translate]
HARNESS = dict(
    sources=["cxx_c01.cc"],
    repo_sources=["dune/common/exceptions.cc", "dune/common/stdstreams.cc"],
    # many template instantiations: -O0 and a trimmed UBSan check set keep the sanitized compile near one minute
    flags=["-O0", "-fno-sanitize=null,alignment,vptr,pointer-overflow,object-size,nonnull-attribute,returns-nonnull-attribute"],
    libs=[],
)
RULE = ("cases: random field K in {int, double, complex<double>, GF(32003)} x operation (11 kernels; operator* on pairs of "
        "representations; leftmultiply/rightmultiply(any), multMatrix, multTransposedMatrix; transposed/transpose/asDense; matrix "
        "+=,-=,+,-,*=,/=,*s,s*,/s,axpy,unary -,==,!=; vector +=,-=,+,-,unary -,+=s,-=s,*=,/=,*s,s*,/s,axpy,==,!=,operator*,dot, free "
        "dot/dotT, FieldVector<K,1>/scalar mixes) x representation(s) in {FieldMatrix r x c (1..4), DynamicMatrix (1..6), DiagonalMatrix, "
        "ScalarMatrixView, transposed view / transposed copy of these; FieldVector, DynamicVector, plain scalar} x small-integer "
        "entries biased to 0, +-1 (GF: 0, 1, p-1, p-2, small, random); distinct = distinct op lines; non-trivial = the oracle compared a "
        "computed result with the definition (divisions outside the exact domain are trivial)")
ASSUMPTIONS = [
    "the kernel tables (target/row/column/x index, update operator, alpha, conjugation, loop bounds) are regenerated from the source by tools/translators/tr_c01.py; the product / leftmultiply / transposed / vector-space parts of lean/DuneVerif/Model/C01.lean are hand-written and tied to the code by this differential run",
    "entries are small integers, so int does not overflow and double / complex<double> arithmetic is exact; floating-point rounding is not part of the property",
    "division is exercised only where it is exact (divisible operands; complex divisors for which libgcc's Smith algorithm is exact; non-zero divisors in GF(32003))",
    "static FieldMatrix shapes per field type: complex<double> all of 1..4 x 1..4; int {11,12,21,22,23,32,33,34,43,44}; double {11,13,31,22,24,42,33}; GF {11,12,21,14,41,22,33,44}",
]
TRUSTED = ["g++/libstdc++, ASan/UBSan", "translator tr_c01.py", "harness/cxx_c01.cc (naive-loop oracle) + Driver/C01.lean parsing/printing"]


def batches(tier, seed):
    n = 40000 if tier == "quick" else 1200000
    parts = 4 if tier == "quick" else 12
    return [dict(args=["--seed", str(seed * 1000 + i), "--cases", str(n // parts), "--tier", tier], tag="g%d" % i,
                 timeout=(300 if tier == "quick" else 3000)) for i in range(parts)]


def search_batches(seed):
    return [dict(args=["--seed", str(seed * 7919 + 13 + i), "--cases", "60000"], timeout=900) for i in range(3)]
