"""C01 — dense matrices act as the linear map they store, in every representation."""
from translators import tr_c01

PID = "C01"
CLAIM = True
MANIFEST_TEXT = ("Lean 4 theorems over an arbitrary commutative ring with a conjugation map, for all shapes and entries: the eleven "
                 "kernels mv..usmhv of DenseMatrix and of DiagonalMatrix equal their algebraic definitions (Hermitian ones with conj); the "
                 "three-deep product loop nests (operator*, leftmultiply/rightmultiply, left/rightmultiplyany, multMatrix, "
                 "multTransposedMatrix), multAssign(Transposed), transposed(), the elementwise vector loops (+=, -=, +=k, -=k, *=k, /=k, "
                 "axpy, unary -, +, -, operator*, dot with the conjugated argument of dotproduct.hh) and the fresh-result loops "
                 "(FieldVector*k, k*FieldVector, FieldVector/k, FieldMatrix+FieldMatrix, -, *k, k*, /k, unary minus of DenseMatrix) are run "
                 "by small interpreters from signature tables that tr_c01.py re-reads from densematrix.hh / diagonalmatrix.hh / fmatrix.hh / "
                 "fvector.hh / dynmatrix.hh / densevector.hh / dotproduct.hh / transpose.hh on every run, and are proved equal to their "
                 "definitions incl. result shape and frame; A.leftmultiply(A) and A.rightmultiply(A) (the matrix as its own argument) give "
                 "A*A: the translator reads that the nests accumulate in the copy C and copy back, so the factors are read unmodified "
                 "(self_mul_spec); unary minus leaves its operand's storage unchanged also when the operand is a scalar view (the result is "
                 "declared with the autonomous value type, read from the source; neg_operand_unchanged); diagonal, 1x1-scalar-view, transposed-view and view-of-view representations give the results of the full "
                 "matrix with the same entries (kernels, products, +=,-=,*=,/=,==), two representations with equal entries give equal "
                 "kernel results, conversions FieldMatrix/DynamicMatrix <- any representation keep the entries. Object histories: a store "
                 "model in which every object is a register pointing to the storage it reads and writes (scalar variables behind "
                 "asVector/asMatrix views, the matrix behind transposedView); what the three assignment operators of ScalarVectorView / "
                 "ScalarMatrixView do with that pointer (copy the entry vs. re-point the handle) and whether transposedView holds a "
                 "reference or a copy is re-read from scalarvectorview.hh / scalarmatrixview.hh / transpose.hh; proved for all histories: "
                 "every executed operation (=, =k, +=, -=, axpy, *=, leftmultiply, rightmultiply — each also with the object as its own argument —, the 11 kernels, also through a "
                 "transposed view, row assignment T[i]=S[j] and T[i].axpy(k,S[j])) is exactly one write of the algebraic result into the storage of its target object, every other "
                 "storage cell (every operand taken as input only) is unchanged, every object keeps referring to the storage it was "
                 "created for, a transposed view shows the current content of its matrix. The model is run against "
                 "FieldMatrix/DynamicMatrix/DiagonalMatrix/ScalarMatrixView/transposed views (also nested, also as left factor) and "
                 "FieldVector/DynamicVector (mixed as kernel arguments) over int, double, complex<double> and GF(32003) on >= 40k cases "
                 "per run, with naive loops as independent oracle and operands compared before/after every call; ~10% of the cases are "
                 "object histories of 1..8 operations (about one binary operation in five has the target object as its own argument) on 2..5 objects (scalar views of mutable / const scalars, FieldVector, DynamicVector, "
                 "FieldMatrix 1x1 / 2x2, DynamicMatrix, DiagonalMatrix, transposed views made before the first operation) where after "
                 "every operation the storage behind every object (the scalar variable itself, not the view) is compared with the "
                 "definition and with what the object shows.")
MANIFEST_NOTE = ("Trusted: Lean kernel (+propext/Classical.choice/Quot.sound), tr_c01.py, fidelity of the hand-written parts of the "
                 "model (1x1 / size-1 specialisations, row-wise "
                 "delegation of the DenseMatrix compound assignments, DiagonalMatrix*DiagonalMatrix, conversions, `= scalar`, which "
                 "overload an assignment between two object kinds selects; differential run only), "
                 "harness + driver parsing. Static FieldMatrix shapes: all of 1..4 x 1..4 for complex<double>, subsets covering all 16 "
                 "shapes for int/double/GF; views of views, a view as left factor and mixed vector kinds only for the non-square shapes "
                 "with rows+cols >= 5 (compile time). Harness compiled -O0 with ASan (heap; stack variables not instrumented) + "
                 "_GLIBCXX_ASSERTIONS (exact index checks of std::array / std::vector) + UBSan(bounds, signed overflow, shifts, "
                 "division, ...; without null/alignment/vptr/pointer-overflow/object-size). Floating-point rounding is outside the "
                 "property (exact fields only); complex division only with divisors for which libgcc's Smith division is exact. "
                 "A kernel's x and y are distinct objects (the library asserts this for mv/mtv; A.umv(x,x) is outside the property); the "
                 "binary operations of a history are executed with the object as its own argument as well (A+=A, A=A, A.axpy(k,A), "
                 "A.leftmultiply(A), A.rightmultiply(A)); otherwise two objects of a history never share storage unless the code under "
                 "test makes them (which the check reports). Unary minus of the scalar views is exercised for asMatrix(s)/asVector(s) "
                 "of a mutable scalar, binary + / - with the view asVector(s) as first operand as well (round five). "
                 "Translator tolerance (round five): bodies are normalised before the statement shapes are matched - private member "
                 "helpers without return value / locals are inlined at statement-level calls (arguments substituted), declared locals "
                 "may carry any name, `const` index locals initialised from an extent are inlined, loop headers `B>i`, `i!=B`, `i+=1`, "
                 "`L = L op E` for `L op= E`, and for the elementwise DenseVector loops a by-reference range-for / begin()-end() iterator loop "
                 "over *this (only while begin/end/DenseIterator of densevector.hh have the expected text) are read as the canonical "
                 "spelling; helpers with results, count-down / while loops, std algorithms, a third form of the in-place products are "
                 "still reported as no-failing-input-found. tools/translators/tr_c01_selftest.py holds ~60 quiet / loud source edits. "
                 "A scalar argument that refers into the object being modified (v *= v[0], A *= A[0][0], v.axpy(v[0], w)) is an unstated "
                 "aliasing precondition of the library, outside the property (scalars are values). "
                 "Object histories use FieldVector<K,1..3>, DynamicVector 1..4, FieldMatrix 1x1 and 2x2, DynamicMatrix up to 3x3, "
                 "DiagonalMatrix<K,2>; transposed views of a 2x2 FieldMatrix, DynamicMatrix, DiagonalMatrix<K,2>, ScalarMatrixView.")
TECHNIQUE = ("Lean 4 proof over loop-nest interpreters and a store-with-handles model + translator for kernel / product / elementwise-loop "
             "signature tables and view-assignment tables + differential correspondence with naive-loop oracle (single operations and object histories)")
TRANSLATORS = [tr_c01.translate]
HARNESS = dict(
    sources=["cxx_c01.cc"],
    repo_sources=["dune/common/exceptions.cc", "dune/common/stdstreams.cc"],
    # many template instantiations: -O0 and a trimmed UBSan check set keep the sanitized compile near one minute
    # ASan without stack-variable instrumentation (a third of the compile time); index overflows of the stack-allocated
    # std::array storage of FieldVector / FieldMatrix are caught exactly by the libstdc++ assertions instead
    flags=["-O0", "-g1", "-fno-sanitize=null,alignment,vptr,pointer-overflow,object-size,nonnull-attribute,returns-nonnull-attribute",
           "--param", "asan-stack=0", "-D_GLIBCXX_ASSERTIONS"],
    libs=[],
)
RULE = ("cases: random field K in {int, double, complex<double>, GF(32003)} x operation (11 kernels; operator* on pairs of "
        "representations incl. a transposed view as left factor and views of views; leftmultiply/rightmultiply(any), multMatrix, "
        "multTransposedMatrix, multAssign(Transposed)/mult/multTransposed; transposed/transpose/asDense; conversions FieldMatrix/"
        "DynamicMatrix <- any representation and FieldVector <-> DynamicVector; matrix +=,-=,+,-,*=,/=,*s,s*,/s,axpy,unary -,==,!=; "
        "unary - also of asMatrix(s) / asVector(s) with the viewed scalar re-read after the call; "
        "FieldMatrix<K,1,1> +-scalar, scalar+-, +=s, -=s, conversion; vector +=,-=,+,-,unary -,+=s,-=s,*=,/=,*s,s*,/s,axpy,==,!=,"
        "operator*,dot, free dot/dotT, FieldVector<K,1>/scalar mixes incl. ==,!=,<,<=,>,>= and conversion; 10% object histories "
        "`seq`: 2..5 objects of one size family (1 / 2 / dynamic r x c up to 3) out of asVector(s), asVector(const s), FieldVector, "
        "DynamicVector, asMatrix(s), asMatrix(const s), FieldMatrix, DynamicMatrix, DiagonalMatrix, transposedView(A) / transpose(const reference_wrapper) of an earlier object, "
        "then 1..8 operations drawn uniformly among the operand tuples the operation is executed for (a tuple with the target as its own "
        "argument one time out of seven when there is another choice; operations that could leave the exact range of int/double are "
        "skipped by a magnitude bound): object=object (4/19), =k, +=, -=, "
        "axpy, *=k, leftmultiply, rightmultiply, a kernel (4/19; through a view half of the time when one exists), row ops T[i]=S[j] "
        "(2/19), T[i].axpy(k,S[j])) x representation(s) in "
        "{FieldMatrix r x c (1..4), DynamicMatrix (1..6), DiagonalMatrix, ScalarMatrixView, transposed view / transposed copy / view "
        "of a view of these; FieldVector, DynamicVector, plain scalar} x small-integer entries biased to 0, +-1 (GF: 0, 1, p-1, p-2, "
        "small, random); distinct = distinct op lines; non-trivial = the oracle compared a computed result with the definition "
        "(divisions outside the exact domain are trivial)")
ASSUMPTIONS = [
    "the signature tables of the kernels, of the product / transposition loop nests, of multAssign(Transposed) and of the elementwise DenseVector loops and dot products are regenerated from the source by tools/translators/tr_c01.py (a statement outside its grammar makes the obligation fail); the fresh-result loops FieldVector*k, k*v, v/k, FieldMatrix +,-,*k,k*,/k and the unary minus of DenseMatrix as well (round four); the 1x1 / size-1 specialisations, the row-wise delegation of the DenseMatrix compound assignments, DiagonalMatrix*DiagonalMatrix and the conversions are hand-written in lean/DuneVerif/Model/C01.lean and Driver/C01.lean and tied to the code by this differential run",
    "translator tolerance (round five): before matching, tr_c01.py inlines statement-level calls of private member helpers (no return value, no locals; arguments substituted for parameters), alpha-renames the declared locals the grammar names (C, result, AT, z), inlines `const` index locals initialised from an extent (size(), rows(), M.cols(), ROWS ...), reads `B>i` / `i!=B` / `i+=1` loop headers and `L = L op E` as the canonical forms, and reads a by-reference range-for or begin()/end() iterator loop over *this in the elementwise DenseVector loops as the index loop - the latter only while begin(), end() and DenseIterator::dereference/increment/equals in densevector.hh have the expected text (checked on every run); everything else (helpers with results or locals, count-down loops, std algorithms) stays outside the grammar and is reported",
    "scalar arguments are values: a scalar passed by reference that lives inside the object being modified (v *= v[0], A *= A[0][0], v.axpy(v[0], w)) is an unstated aliasing precondition of the library and outside the property; the harness always passes a separate scalar object",
    "a kernel's x and y are distinct objects (asserted by the code for mv/mtv only; decided outside the property); the binary operations of a history (=, +=, -=, axpy, leftmultiply, rightmultiply) are executed and proved also with the target as its own argument, the definition being evaluated on the entries held when the call is made; otherwise distinct objects of a history have distinct storage",
    "object histories: what the assignment operators of ScalarVectorView / ScalarMatrixView do with their pointer and what transposedView holds is regenerated from the source (Gen.svv_*, Gen.smv_*, Gen.tvHolds); which overload `object = object` selects for a pair of kinds (same view type / view of the other constness / conversion to the scalar / the owning class's entry copy), `= scalar` and the availability table of the operations are hand-written in Model/C01/Store.lean and tied to the code by the differential run",
    "entries are small integers, so int does not overflow and double / complex<double> arithmetic is exact; floating-point rounding is not part of the property",
    "division is exercised only where it is exact (divisible operands; complex divisors for which libgcc's Smith algorithm is exact; non-zero divisors in GF(32003))",
    "static FieldMatrix shapes per field type: complex<double> all of 1..4 x 1..4; int {11,12,21,22,23,32,33,34,43,44}; double {11,13,31,22,24,42,33}; GF {11,12,21,14,41,22,33,44}",
]
TRUSTED = ["g++/libstdc++, ASan/UBSan", "translator tr_c01.py", "harness/cxx_c01.cc (naive-loop oracle) + Driver/C01.lean parsing/printing"]


def batches(tier, seed):
    n = 40000 if tier == "quick" else 1200000
    parts = 4 if tier == "quick" else 12
    return [dict(args=["--seed", str(seed * 1000 + i), "--cases", str(n // parts), "--tier", tier], tag="g%d" % i,
                 timeout=(300 if tier == "quick" else 3000)) for i in range(parts)]


def search_batches(seed):
    return [dict(args=["--seed", str(seed * 7919 + 13 + i), "--cases", "60000"], timeout=900) for i in range(3)]
