"""C04 — RemoteIndices equals the pairwise intersection of the published index sets."""

from translators import tr_c04

PID = "C04"
CLAIM = True
MANIFEST_TEXT = ("Lean 4 theorems about a message-level model of RemoteIndices::rebuild (merge-join unpackIndices with rewind and "
                 "fromOurSelf rule, two-list unpackIndices, the four unpackCreateRemote cases, self message, ring rounds or hinted "
                 "neighbours in any arrival order, sequence-number bookkeeping), for every process count P>=1, every decomposition "
                 "with at most one entry per global index and set, one or two index sets per rank (also mixed), ignorePublic and "
                 "includeSelf arbitrary: rank p holds for every other rank q exactly send = published(src_p) joined with "
                 "published(tgt_q) and receive = published(tgt_p) joined with published(src_q), carrying q's attribute and p's own "
                 "pair (rebuild_spec), lists and ranks strictly ascending (rebuild_sorted), no empty neighbour, self entries only "
                 "in the documented cases (self_entry_cases), result independent of the arrival order and equal to the ring result "
                 "for covering hints; isSynced exactly while no referenced index set was resized (synced_iff).  Tier B: the merge-join "
                 "with repeated global indices (unpack_spec) and one-set systems with repeated globals incl. the includeSelf self "
                 "entry (rebuild_spec_repeated).  The model is run against the real class under mpirun -np 1..4 (quick) / 1..8 "
                 "(thorough) on random distributed histories (resizes, deletes, rebuilds with both ignorePublic values, isSynced "
                 "queries) with PMPI-permuted probe order; the harness oracle recomputes the set definition from the decomposition.")
MANIFEST_NOTE = ("Trusted: Lean kernel (+propext/Classical.choice/Quot.sound), the hand-written model's fidelity (differential "
                 "runs only, bounded: P<=8, <=14 globals per case), harness oracle, g++/ASan/UBSan, OpenMPI (reliable, pairwise "
                 "FIFO; MPI_Pack layout exercised, not modelled).  Hypotheses: hints symmetric and naming another rank on every "
                 "rank, or absent on every rank (anything else deadlocks in MPI and is not generated); all ranks take part in "
                 "every rebuild; int overflow of seqNo not modelled; two-set systems assume no repeated globals (the two-list "
                 "unpackIndices has no rewind).  With two index sets and includeSelf=true the code drops equal-attribute pairs "
                 "from the self entry; the oracle accepts both readings, the model and self_entry_cases state the code's.  "
                 "Describes the tree with fixes/C04_localdest_index.patch and fixes/C04_oneset_receives_twoset.patch applied.")
TECHNIQUE = "Lean 4 proof over a message-level protocol model + differential correspondence under MPI with PMPI schedule steering and a set-theoretic oracle"
TRANSLATORS = [tr_c04.translate]
HARNESS = dict(
    sources=["mpi_c04.cc", "pmpi_sched.cc"],
    mpi=True,
    repo_sources=["dune/common/exceptions.cc", "dune/common/stdstreams.cc"],
)
RULE = ("cases: random distributed histories for P ranks: each global index (<=14 per case, small range so ranks overlap) is "
        "placed on a random non-empty subset of the ranks per set with random attribute/public flag/local index; systems with "
        "one set, two sets, mixed, or one set with repeated globals; includeSelf none/all/random; ring or symmetric consistent "
        "hints (superset of the sharing graph); history = resize, isSynced, rebuild<ign>, then up to 3 phases of "
        "deletes/adds/resizes (source, target, unrelated)/re-rebuild with possibly flipped ignorePublic; distinct = distinct "
        "op lines; non-trivial = oracle compared at least one non-empty expected list or an isSynced answer after a rebuild")
ASSUMPTIONS = [
    "the Lean model lean/DuneVerif/Model/C04.lean is hand-written; its fidelity to remoteindices.hh rests on this differential run (P <= 8)",
    "MPI is trusted: reliable, pairwise FIFO; MPI_Pack/MPI datatype layout of IndexPair is exercised, not modelled",
    "theorems assume at most one entry per global index and index set on a rank (NoDupGlobals); repeated globals are covered by unpack_spec (merge-join level) and the differential runs",
    "neighbour hints are symmetric and name at least one other rank on every rank, or are absent everywhere; every rank takes part in every rebuild",
    "the model describes the tree with fixes/C04_localdest_index.patch and fixes/C04_oneset_receives_twoset.patch applied (/repo commits aadf5bf, 6f17323)",
]
TRUSTED = ["g++/libstdc++, ASan/UBSan, OpenMPI", "harness/mpi_c04.cc (generator, executor, set-definition oracle) + harness/pmpi_sched.cc",
           "Driver/C04.lean parsing/printing and the harness-protocol index-set bookkeeping"]


def batches(tier, seed):
    res = []
    if tier == "quick":
        plan = [(1, 400), (2, 700), (3, 700), (4, 700)]
        for (np, n) in plan:
            res.append(dict(args=["--seed", str(seed * 1000 + np), "--cases", str(n), "--tier", tier, "--case-timeout", "60"],
                            np=np, tag="np%d" % np, timeout=900))
        # one batch with the PMPI scheduler switched off (plain MPI order)
        res.append(dict(args=["--seed", str(seed * 1000 + 77), "--cases", "300", "--tier", tier, "--sched", "0",
                              "--case-timeout", "60"], np=3,
                        tag="np3_nosched", timeout=900))
    else:
        plan = [(1, 2000), (2, 4000), (3, 4000), (4, 4000), (5, 800), (6, 600), (7, 200), (8, 200)]
        for (np, n) in plan:
            res.append(dict(args=["--seed", str(seed * 1000 + 100 + np), "--cases", str(n), "--tier", tier, "--case-timeout", "90"],
                            np=np, tag="np%d" % np, timeout=3000))
        res.append(dict(args=["--seed", str(seed * 1000 + 177), "--cases", "1000", "--tier", tier, "--sched", "0"], np=4,
                        tag="np4_nosched", timeout=3000))
    return res


def search_batches(seed):
    return [dict(args=["--seed", str(seed * 7919 + 13 + i), "--cases", "3000", "--tier", "thorough"], np=np, timeout=1500)
            for i, np in enumerate((2, 3, 4))]
