"""C04 — RemoteIndices equals the pairwise intersection of the published index sets."""

from translators import tr_c04

PID = "C04"
CLAIM = True
MANIFEST_TEXT = ("39 Lean 4 theorems about a two-layer model of Dune::RemoteIndices.  Per-rank layer (merge-join unpackIndices with "
                 "rewind and fromOurSelf rule, two-list unpackIndices, the four unpackCreateRemote cases, self message, messages "
                 "of the ring predecessors or of the hinted neighbours in any arrival order), for every process count P>=1, "
                 "every decomposition with at most one entry per global index and set, one or two index sets per rank (also "
                 "mixed), ignorePublic and includeSelf arbitrary: rank p holds for every other rank q exactly send = "
                 "published(src_p) joined with published(tgt_q) and receive = published(tgt_p) joined with published(src_q), "
                 "carrying q's attribute and p's own pair (rebuild_spec; spec read as the set of communication.tex: "
                 "mem_spec_iff, spec_one_per_global), q appears iff something is shared (appears_iff, no_empty_neighbour, "
                 "keys_are_ranks), p's send list mirrors q's receive list (send_recv_mirror), lists and ranks strictly "
                 "ascending (rebuild_sorted), self entries only in the documented cases (self_entry_cases), result "
                 "independent of the arrival order and equal to the ring result for covering hints.  Faithful layer (what the "
                 "driver runs; its decisions and rank arithmetic are regenerated from remoteindices.hh on every run): buffer "
                 "cursor and entry counts (unpack_cursor_refines, unpack_consumes_all), the ring as a two-buffer state machine "
                 "over all ranks (ring_delivers: after k rounds rank p holds the original message of rank (p+P-k)%P under that "
                 "label; ring_partners_agree; ring_buffers_distinct), the neighbour exchange at network level "
                 "(consistent_hints_network: symmetric hints => senders = awaited ranks => the call returns), "
                 "collective_refines (faithful collective buildRemote = per-rank model on every rank).  Histories: for every "
                 "sequence of resizes (any rank/object/contents), free, setIndexSets and collective rebuilds, a rebuild that "
                 "returns leaves every rank with the lists of the *current* index sets, also when it found nothing to do "
                 "(history_rebuild_fresh, history_rebuild_spec); after any history every rank works with the index sets, hints and "
                 "includeSelf value of the last configuration call addressed to it — setIndexSets replaces the hints also by "
                 "none (config_in_force; gen_configuration ties this to the statements of setIndexSets / setNeighbours / the "
                 "constructor / setIncludeSelf read from the source), so a history whose last hint-setting calls pass no hints "
                 "ends with the full pairwise intersections whatever hints were in force before (history_last_hints_ring); "
                 "a rank stays in sync exactly while none of its own two index "
                 "set objects is resized (world_synced_iff, synced_iff).  Tier B: merge-join and one-set systems with repeated "
                 "global indices (unpack_spec, rebuild_spec_repeated).  The faithful model is run against the real class under "
                 "mpirun -np 1..4 (quick) / 1..8 (thorough) on random distributed histories (collective and single-rank "
                 "resizes, deletes, rebuilds with both ignorePublic values, free, setIndexSets with exchanged roles and with the "
                 "old, new or no hints, setIncludeSelf, setNeighbours, isSynced queries, both constructors) with PMPI-permuted "
                 "probe order, for five global index types (int, long, bigunsignedint<24>, bigunsignedint<40>, "
                 "std::pair<int,int>, with values that need every digit of the MPI datatype) and on MPI_COMM_WORLD, a "
                 "duplicate, a renumbered communicator or a proper sub-communicator (the left-out processes rebuild on the "
                 "complement at the same time); the harness oracle recomputes the set definition from the decomposition.  "
                 "Round four: how index pairs come into being and where they lie.  The three constructors of ParallelLocalIndex "
                 "(member-initialiser lists, delegating constructors resolved with the declaration's default arguments), "
                 "operator=(size_t), setAttribute and the getters are regenerated from plocalindex.hh; every way of making an "
                 "entry that the harness uses (3-argument constructor; (attribute,isPublic) constructor + assignment; default "
                 "isPublic argument / default constructor + setAttribute; add(global) = IndexPair(global) + assignment; "
                 "setLocal) yields the pair asked for (localindex_variants_agree; gen_pair_facts for the IndexPair / add "
                 "statements read from indexset.hh).  The index sets' storage is an ArrayList of separately allocated chunks "
                 "of N pairs: chunked_storage (chunks non-empty, <= N, concatenation = the set, all N, all sizes), pack_chunked "
                 "(packEntries' walk with the MPI_Pack count read from the source packs exactly the published pairs and never "
                 "leaves a chunk, for every N and size), announced_count_is_packed_count (size()/noPublic() as read from the "
                 "source = number of packed pairs), unpack_one_per_call.  The harness instantiates ParallelIndexSet with N = "
                 "100, 1, 3, 8 and generates sets of k*N-1 .. k*N+2 entries (k = 1..3, also for N = 100).")
MANIFEST_NOTE = ("Trusted: Lean kernel (+propext/Classical.choice/Quot.sound), the hand-written model's fidelity (differential "
                 "runs only, bounded: P<=8, <=302 globals per case), tools/translators/tr_c04.py (expression-level reading of "
                 "26 decisions/formulas/counts, 10 statement-level facts of remoteindices.hh, the 3 constructors + 2 mutators + 3 getters "
                 "of plocalindex.hh and 5 statement-level facts of indexset.hh), harness oracle, g++/ASan/UBSan, OpenMPI (reliable, pairwise FIFO; MPI_Pack layout "
                 "exercised for five global index types, not modelled: the model's global indices are integers and only their order "
                 "is used).  Hypotheses: hints symmetric and naming another rank on every rank, or absent on "
                 "every rank (anything else deadlocks in MPI; modelled as `buildAll = none`, not executed); all ranks take "
                 "part in every rebuild *and agree whether it is due*: a collective rebuild after a resize on only some ranks "
                 "does not return in the real code (rank A communicates, rank B finds itself in sync and returns; reproduced "
                 "with 2 ranks) — the model says `none`, the harness detects the disagreement beforehand and skips the call "
                 "(observation b!).  setIncludeSelf/setNeighbours do not make the next rebuild() rebuild (lists of the old "
                 "setting stay until a resize/free): modelled as is, excluded from the history theorem.  int overflow of "
                 "seqNo not modelled; two-set systems assume no repeated globals (the two-list unpackIndices has no rewind).  "
                 "With two index sets and includeSelf=true the code drops equal-attribute pairs from the self entry; the "
                 "oracle accepts both readings, the model and self_entry_cases state the code's.  Describes the tree with "
                 "fixes/C04_localdest_index.patch and fixes/C04_oneset_receives_twoset.patch applied.")
TECHNIQUE = ("Lean 4 proof over a message-level protocol model in two layers (per-rank specification layer + faithful layer with "
             "regenerated decisions, refinement proved) + differential correspondence under MPI with PMPI schedule steering "
             "and a set-theoretic oracle")
TRANSLATORS = [tr_c04.translate]
HARNESS = dict(
    sources=["mpi_c04.cc", "pmpi_sched.cc"],
    mpi=True,
    repo_sources=["dune/common/exceptions.cc", "dune/common/stdstreams.cc"],
)
RULE = ("cases: random distributed histories for P ranks: each global index (<=14 per case, one case in 14 with 20..70, one in "
        "8-16 'huge': k*N-1..k*N+2 globals, k=1..3, all of them on one rank, N = chunk size of ParallelIndexSet = 100 or "
        "(g=int, half of the cases) 1, 3, 8; every add names one of five ways of constructing the local index / index "
        "pair, mostly one way per case; small "
        "range so ranks overlap) is placed on a random non-empty subset of the ranks per set with random attribute/public "
        "flag/local index; systems with one set, two sets, mixed, or one set with repeated globals; includeSelf "
        "none/all/random; five-argument or default constructor + setIndexSets; ring or symmetric hints (superset of the "
        "sharing graph, one neighbour-mode case in 5 with sharing edges left out); history = resize (collective or rank by "
        "rank), isSynced, rebuild<ign>, then up to 4 phases of: deletes/adds/resizes (source, target, unrelated; collective "
        "or every rank singly)/re-rebuild with possibly flipped ignorePublic | rebuild without resize | unrelated resize | "
        "free + rebuild | setIndexSets (roles kept or exchanged; hints passed again, new covering/sparse hints or none) + "
        "rebuild | setIncludeSelf | setNeighbours (also ring<->neighbour) | re-targeting (hints, mostly sparse, by "
        "setNeighbours or setIndexSets; build; setIndexSets with other hints, mostly none; build) | resize on a strict subset of the ranks + rebuild (skipped: ranks disagree) + the rest + "
        "rebuild; global index type int (45%; one case in 3 near INT_MAX/INT_MIN), long (both halves vary, negative too), "
        "bigunsignedint<24>, bigunsignedint<40>, pair<int,int> (values = low bits + high bits shifted into the most "
        "significant digit/component, so that indices differing only there occur); communicator WORLD (55%), dup (10%), all "
        "processes renumbered (15%), sub-communicator of P-1 or P-2 processes in any order (20%); distinct = distinct op lines; non-trivial = oracle compared at least one non-empty expected list or an "
        "isSynced answer after a rebuild")
ASSUMPTIONS = [
    "the Lean model (lean/DuneVerif/Model/C04.lean per-rank layer, Model/C04F.lean faithful layer) is hand-written; its fidelity to remoteindices.hh rests on this differential run (P <= 8) and, for 26 one-line decisions/formulas/counts, on the translator tools/translators/tr_c04.py; the constructors/mutators/getters of ParallelLocalIndex (Gen/C04L.lean) are regenerated",
    "the chunked storage of ParallelIndexSet (ArrayList<IndexPair,N>) is modelled as a list of chunks (Model/C04L.lean: chunked, packWalk); arraylist.hh itself is not read by the translator — that iteration over an ArrayList visits the elements in order is exercised (N = 1, 3, 8, 100; sizes on every chunk boundary), not proved",
    "MPI is trusted: reliable, pairwise FIFO; MPI_Pack/MPI datatype layout of IndexPair is exercised (global index types int, long, bigunsignedint<24>, bigunsignedint<40>, std::pair<int,int>), not modelled: the model treats global indices as integers of which only the order matters",
    "the communicator only renumbers the processes (the model has no communicator); exercised with MPI_COMM_WORLD, a duplicate, renumbered and proper sub-communicators",
    "theorems assume at most one entry per global index and index set on a rank (NoDupGlobals); repeated globals are covered by unpack_spec / rebuild_spec_repeated (one-set systems) and the differential runs",
    "neighbour hints are symmetric and name at least one other rank on every rank, or are absent everywhere (otherwise the model's collective buildAll is `none`; never executed)",
    "every rank takes part in every rebuild and the ranks agree whether it is due (all or none resized / freed / changed ignorePublic); otherwise the real call does not return (model: `none`; harness: skipped, observation b!)",
    "the model describes the tree with fixes/C04_localdest_index.patch and fixes/C04_oneset_receives_twoset.patch applied (/repo commits aadf5bf, 6f17323)",
]
TRUSTED = ["g++/libstdc++, ASan/UBSan, OpenMPI", "harness/mpi_c04.cc (generator, executor, set-definition oracle) + harness/pmpi_sched.cc",
           "tools/translators/tr_c04.py (locating and parsing 26 expressions / statement lists and 10 statement-level facts of remoteindices.hh, the constructors / operator= / setAttribute / getters of plocalindex.hh, 5 statement-level facts of indexset.hh)",
           "Driver/C04.lean parsing/printing and the harness-protocol index-set bookkeeping"]


def batches(tier, seed):
    res = []
    if tier == "quick":
        plan = [(1, 300), (2, 650), (3, 650), (4, 500)]
        for (np, n) in plan:
            res.append(dict(args=["--seed", str(seed * 1000 + np), "--cases", str(n), "--tier", tier, "--case-timeout", "60"],
                            np=np, tag="np%d" % np, timeout=900))
        # one batch with the PMPI scheduler switched off (plain MPI order)
        res.append(dict(args=["--seed", str(seed * 1000 + 77), "--cases", "200", "--tier", tier, "--sched", "0",
                              "--case-timeout", "60"], np=3,
                        tag="np3_nosched", timeout=900))
    else:
        plan = [(1, 2000), (2, 4000), (3, 4000), (4, 4000), (5, 800), (6, 600), (7, 200), (8, 200)]
        for (np, n) in plan:
            res.append(dict(args=["--seed", str(seed * 1000 + 100 + np), "--cases", str(n), "--tier", tier, "--case-timeout", "90"],
                            np=np, tag="np%d" % np, timeout=3000))
        res.append(dict(args=["--seed", str(seed * 1000 + 177), "--cases", "1000", "--tier", tier, "--sched", "0"], np=4,
                        tag="np4_nosched", timeout=3000))
    return res


def search_batches(seed):
    return [dict(args=["--seed", str(seed * 7919 + 13 + i), "--cases", "3000", "--tier", "thorough"], np=np, timeout=1500)
            for i, np in enumerate((2, 3, 4))]
