"""C02 — DenseMatrix::solve / invert / determinant return the solution, inverse and determinant."""
from translators import tr_c02

PID = "C02"
CLAIM = True
MANIFEST_TEXT = ""
MANIFEST_NOTE = ""
TECHNIQUE = 'Lean 4 proof over translated closed forms + hand-written LU model, differential correspondence over GF(32003) with Laplace-determinant oracle'
TRANSLATORS = [tr_c02.translate]
HARNESS = dict(
    sources=["cxx_c02.cc"],
    repo_sources=["dune/common/exceptions.cc", "dune/common/stdstreams.cc"],
    flags=["-O0", "-g1"],
)
RULE = ""
ASSUMPTIONS = []
TRUSTED = []


def batches(tier, seed):
    quick = tier == "quick"
    n = 60000 if quick else 1600000
    parts = 4 if quick else 16
    to = 300 if quick else 3000
    res = [dict(args=["--seed", str(seed * 1000 + i), "--cases", str(n // parts), "--tier", tier], tag="g%d" % i,
                timeout=to) for i in range(parts)]

    def enum(tag, mode, size, cases, stride=1, offset=0):
        return dict(args=["--seed", str(seed), "--cases", str(cases), "--tier", tier, "--mode", mode, "--n", str(size),
                          "--stride", str(stride), "--offset", str(offset)], tag=tag, timeout=to)
    # every 0/1 matrix (= every zero pattern / pivot pattern / rank profile) x {solve, invert, det} x {pivoting on, off}
    res.append(enum("e3", "enum01", 3, 6 * 512))
    if quick:
        res.append(enum("e4", "enum01", 4, 6 * 2000, stride=40503, offset=seed * 7919))
        res.append(enum("p4", "enumpm", 4, 6 * 1000, stride=1000003, offset=seed * 104729))
        res.append(enum("e5", "enum01", 5, 6 * 500, stride=1000003, offset=seed * 15485863))
    else:
        res.append(enum("e4", "enum01", 4, 6 * 65536))
        res.append(enum("p4", "enumpm", 4, 6 * 40000, stride=1000003, offset=seed * 104729))
        res.append(enum("e5", "enum01", 5, 6 * 40000, stride=1000003, offset=seed * 15485863))
        res.append(enum("e6", "enum01", 6, 6 * 10000, stride=1000000007, offset=seed * 15485863))
    return res


def search_batches(seed):
    return [dict(args=["--seed", str(seed * 7919 + 13 + i), "--cases", "200000"], timeout=900) for i in range(3)]
