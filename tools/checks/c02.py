"""C02 — DenseMatrix::solve / invert / determinant return the solution, inverse and determinant."""
from translators import tr_c02

PID = "C02"
CLAIM = True
MANIFEST_TEXT = ("Lean 4 theorems over an arbitrary field, for every size n and every admissible pivot-magnitude function, about "
                 "the member functions as a whole (DV.C02.determinant / solve / invert: size dispatch read off the source, closed "
                 "forms for rows()=1,2,3 translated from densematrix.hh/fmatrix.hh on every run, hand-written model of "
                 "luDecomposition with its three functors otherwise): determinant = Matrix.det (incl. 0 for singular A, both "
                 "pivoting modes); nonsingular A => solve returns x with A*x = b and invert returns B with A*B = B*A = 1 with "
                 "pivoting, and without pivoting exactly when all leading principal minors are nonzero; singular A of size >= 4 "
                 "=> FMatrixError in both modes; the calls without the optional argument behave as pivoting-on (default "
                 "arguments read off the source); FMatrixHelp::invertMatrix[_retTransposed]; DiagonalMatrix likewise. "
                 "Floating point: the same models instantiated with rounded real arithmetic (standard model fl(x)=x(1+d), "
                 "|d|<=u) satisfy the backward-error bound of Gaussian elimination for every n (Higham Thm 9.3/8.5/9.4 with "
                 "constant 3g+g^2, g=gamma_{n+1}): solve returns the exact solution of (A+dA)x=b, every column of invert solves "
                 "(A+dA_c)x=e_c, determinant = det(A+dA)(1+t), |dA| <= c |L||U|; DiagonalMatrix members likewise. The model "
                 "is run against FieldMatrix/DynamicMatrix/DiagonalMatrix instantiated with a GF(32003) number class (n=1..7, "
                 "DynamicMatrix up to 10; >=80k cases per quick run incl. all 0/1 matrices of size 3 and, in the thorough tier, "
                 "of size 4) with an independent Laplace-determinant / A*x==b / A*B==I oracle and operand-unchanged checks; "
                 "double/long double/complex are checked by residual (well-conditioned, permutation+tiny, unit-phase families).")
MANIFEST_NOTE = ("Trusted: Lean kernel (+propext/Classical.choice/Quot.sound), Mathlib's Matrix.det and real numbers, "
                 "tr_c02.py, the fidelity of the hand-written LU model (differential execution over GF(p) only; any harmless "
                 "change of pivot choice is invisible there by design), g++/ASan/UBSan. Floating point: proved for real scalars "
                 "under the standard rounding model without overflow/underflow, in terms of the computed factors |L||U| (no "
                 "growth-factor bound); that the machine arithmetic satisfies this model, the complex case, the closed forms "
                 "n<=3 (Cramer's rule: forward stable only) and the left residual B*A-I of invert are not proved; the harness "
                 "checks residuals against 100 n^2 eps bounds for matrices with condition number <= ~100 (pivoting; incl. "
                 "scaled permutations + tiny noise, where only the column maximum is a safe pivot, and complex matrices with "
                 "purely real/imaginary entries) or strictly diagonally dominant ones (no pivoting). Singular n<=3, singular "
                 "DiagonalMatrix and unpivoted break-down on nonsingular A are outside the property and are not compared; "
                 "non-square operands and 0x0 DynamicMatrix (cols() asserts) are outside its domain; #ifdef "
                 "DUNE_FMatrix_WITH_CHECKING code is not compiled. SIMD lanes: see C09.")
TECHNIQUE = ('Lean 4 proof (L*W = P*A0 invariant of in-place LU with partial pivoting, any field, any n; top-level theorems '
             'about the size-dispatching member functions; entry-wise rounding-error invariant for the same loops over '
             'rounded reals) + translator for the closed-form blocks, the size dispatch and the '
             'default arguments + differential correspondence over GF(32003) with independent oracle')
TRANSLATORS = [tr_c02.translate]
HARNESS = dict(
    sources=["cxx_c02.cc"],
    repo_sources=["dune/common/exceptions.cc", "dune/common/stdstreams.cc"],
    flags=["-O0", "-g1"],
)
RULE = ("cases: field gf|f64|ld|c64 x op solve|invert|det|FMatrixHelp::invertMatrix[_retTransposed] x FieldMatrix|"
        "DynamicMatrix|DiagonalMatrix x n=1..7 (DynamicMatrix also 8..10) x doPivoting true|false|argument omitted; "
        "GF(32003) matrices from 12 generators (dense, sparse, row-permuted triangular, rank-deficient products, "
        "dependent/zero rows or columns, vanishing leading minor, pivot ties x/p-x, monomial, singular only in the last "
        "step, diagonal-ish) plus exhaustive/strided enumeration of 0/1 and 0/1/-1 matrices; floats: rotations x "
        "diag(1..64) x rotations, scaled permutation + noise of size 1e-6..1e-30 (pivoting), strictly diagonally dominant "
        "(no pivoting); complex additionally with exact unit phases i^k on rows/columns (purely real/imaginary entries); "
        "distinct = distinct op lines; non-trivial = the oracle decided a clause of the property (value checked, or "
        "FMatrixError/0 demanded); 'ok trivial' = behaviour unspecified by the property (singular n<=3, singular "
        "diagonal, unpivoted break-down); lu_* counters = pivot patterns seen by a statistics-only shadow elimination")
ASSUMPTIONS = [
    "the LU model lean/DuneVerif/Model/C02.lean is hand-written; its fidelity to densematrix.hh rests on the differential run over GF(32003)",
    "the closed forms for n<=3, FMatrixHelp::invertMatrix*, the list of sizes with a closed-form branch and the default arguments of doPivoting are regenerated from the source by tools/translators/tr_c02.py (straight-line grammar; anything else raises)",
    "floating point: the backward-error theorems are about the models over reals with a rounding function of relative error <= u (standard model, no overflow/underflow, real scalars); that IEEE double / x87 long double / std::complex arithmetic as compiled meets it is assumed; harness residual tolerance 100 n^2 eps relative to ||A|| ||x|| + ||b|| (solve), ||A|| ||B|| (inverse), prod of row 1-norms (determinant)",
    "the theorems need absval x = 0 <-> x = 0 and 0 <= absval x (true for abs on real/complex fields and for the harness' GF(p) class)",
    "'solve and determinant never modify A or b' is decided by the harness (operands compared before/after), the functional model cannot express it",
    "square operands of size >= 1 only (rows()!=cols() throws FMatrixError by an explicit guard; a 0x0 DynamicMatrix fails the assertion in mat_cols())",
]
TRUSTED = ["g++/libstdc++, ASan/UBSan", "Mathlib v4.33 (Matrix.det, Equiv.Perm.sign, BlockTriangular)",
           "translator tr_c02.py", "harness/cxx_c02.cc (GF(p) class, generators, Laplace/residual oracles) + Driver/C02.lean parsing/printing"]


def batches(tier, seed):
    quick = tier == "quick"
    n = 60000 if quick else 1600000
    parts = 4 if quick else 16
    to = 300 if quick else 3000
    res = [dict(args=["--seed", str(seed * 1000 + i), "--cases", str(n // parts), "--tier", tier], tag="g%d" % i,
                timeout=to) for i in range(parts)]

    def enum(tag, mode, size, cases, stride=1, offset=0):
        return dict(args=["--seed", str(seed), "--cases", str(cases), "--tier", tier, "--mode", mode, "--n", str(size),
                          "--stride", str(stride), "--offset", str(offset)], tag=tag, timeout=to)
    # every 0/1 matrix (= every zero pattern / pivot pattern / rank profile) x {solve, invert, det} x {pivoting on, off}
    res.append(enum("e3", "enum01", 3, 6 * 512))
    if quick:
        res.append(enum("e4", "enum01", 4, 6 * 2000, stride=40503, offset=seed * 7919))
        res.append(enum("p4", "enumpm", 4, 6 * 1000, stride=1000003, offset=seed * 104729))
        res.append(enum("e5", "enum01", 5, 6 * 500, stride=1000003, offset=seed * 15485863))
    else:
        res.append(enum("e4", "enum01", 4, 6 * 65536))
        res.append(enum("p4", "enumpm", 4, 6 * 40000, stride=1000003, offset=seed * 104729))
        res.append(enum("e5", "enum01", 5, 6 * 40000, stride=1000003, offset=seed * 15485863))
        res.append(enum("e6", "enum01", 6, 6 * 10000, stride=1000000007, offset=seed * 15485863))
    return res


def search_batches(seed):
    return [dict(args=["--seed", str(seed * 7919 + 13 + i), "--cases", "200000"], timeout=900) for i in range(3)]
