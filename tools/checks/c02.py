"""C02 — DenseMatrix::solve / invert / determinant return the solution, inverse and determinant."""
from translators import tr_c02

PID = "C02"
CLAIM = True
MANIFEST_TEXT = ("Lean 4 theorems over an arbitrary field, for every size n and every admissible pivot-magnitude function, about "
                 "the member functions as a whole (DV.C02.determinant / solve / invert: size dispatch read off the source, closed "
                 "forms for rows()=1,2,3 translated from densematrix.hh/fmatrix.hh on every run, hand-written model of "
                 "luDecomposition with its three functors otherwise): determinant = Matrix.det (incl. 0 for singular A, both "
                 "pivoting modes); nonsingular A => solve returns x with A*x = b and invert returns B with A*B = B*A = 1 with "
                 "pivoting, and without pivoting exactly when all leading principal minors are nonzero; singular A of size >= 4 "
                 "=> FMatrixError in both modes; the calls without the optional argument behave as pivoting-on (default "
                 "arguments read off the source); FMatrixHelp::invertMatrix[_retTransposed]; DiagonalMatrix likewise. "
                 "Floating point: the same models instantiated with rounded real arithmetic (standard model fl(x)=x(1+d), "
                 "|d|<=u) satisfy the backward-error bound of Gaussian elimination for every n (Higham Thm 9.3/8.5/9.4 with "
                 "constant 3g+g^2, g=gamma_{n+1}): solve returns the exact solution of (A+dA)x=b, every column of invert solves "
                 "(A+dA_c)x=e_c, determinant = det(A+dA)(1+t), |dA| <= c |L||U|; DiagonalMatrix members likewise. "
                 "Round three: the LU path has no absolute scale -- for any scalar type and any scaling that satisfies the "
                 "identities the loops use (exact fields: x -> c*x, c != 0; rounded arithmetic: whenever fl(c*x) = c*fl(x), i.e. "
                 "binary formats and powers of two without over/underflow) solve / invert / determinant of c*A, d*b report "
                 "FMatrixError (determinant 0) in exactly the cases in which they do for A, b, exchange the same rows and return "
                 "(d/c)*x, (1/c)*B, c^n*det (solveLU_scale, invertLU_scale, detLU_scale and the *_ge4 forms); and under "
                 "rounding the pivoted decomposition reports FMatrixError only if P*A + dA is singular for some |dA| <= "
                 "gamma_n |L||W| (L, W the partial factors at the failing step; lu_singular_reported_fl), i.e. never for a "
                 "matrix farther from singularity than the backward error of the elimination. The model "
                 "is run against FieldMatrix/DynamicMatrix/DiagonalMatrix instantiated with a GF(32003) number class (n=1..7, "
                 "DynamicMatrix up to 10; >=80k cases per quick run incl. all 0/1 matrices of size 3 and, in the thorough tier, "
                 "of size 4) with an independent Laplace-determinant / A*x==b / A*B==I oracle and operand-unchanged checks; "
                 "double/long double/complex and LoopSIMD<double,4> (every lane its own matrix, lanes with different pivot rows, "
                 "some lanes exactly singular) are checked by residual: well-conditioned, permutation+tiny, unit-phase families, "
                 "each also multiplied by m*2^k over the whole exponent range in which nothing over/underflows (double: |k|<=900, "
                 "long double: |k|<=15900), exactly singular float matrices (zero row/column, equal rows), and runs with "
                 "FMatrixPrecision<>::set_absolute_limit set to 0 ... 1e300 around the call. "
                 "Round four: the hand-written LU / DiagonalMatrix model is tied to the source: tr_c02.py re-reads on every "
                 "run the loop headers, statement order, branch conditions (pivot comparison, singularity test, throwEarly "
                 "block), the arguments of the three luDecomposition calls (operand is a local copy, throwEarly literal) and "
                 "the scalar kernel of every update statement of luDecomposition, Elim, ElimPivot, ElimDet, the LU branches "
                 "of solve/invert/determinant and DiagonalMatrix::solve/invert/determinant; 19 tie_* theorems (20 with round five's tie_checked_quantity) state that the "
                 "model functions are exactly these loop skeletons instantiated with the generated kernels (proved with "
                 "ring, so commuted factors / renamed variables / respelled compound assignments pass). New theorems about "
                 "histories and consistency: invert_sound (both modes, every n), A.invert();A.invert() restores A "
                 "(invert_invert, invert_invert_returns), solve = invert*b, the result of solve does not depend on the "
                 "pivoting mode, det(B)*det(A)=1, DiagonalMatrix::solve/invert/determinant agree with the dense calls on "
                 "diag(d). New cases: solve with x and b of different vector families (fmx/dmx/diagx) and the same object "
                 "inverted twice (inv2). Round five: the translator normalises behaviour-preserving respellings of the "
                 "translated functions before matching (see MANIFEST_NOTE), so ordinary maintenance edits no longer break a tie; "
                 "the quantity tested by the DUNE_FMatrix_WITH_CHECKING regions of the closed forms is tied to the determinant "
                 "(tie_checked_quantity) and that configuration is executed in a second translation unit (ck cases).")
MANIFEST_NOTE = ("Trusted: Lean kernel (+propext/Classical.choice/Quot.sound), Mathlib's Matrix.det and real numbers, "
                 "tr_c02.py, the fidelity of the hand-written LU model (round four: every scalar kernel, loop header, "
                 "statement order and call flag of the LU path is regenerated from the source and tied to the model by the "
                 "tie_* theorems; what remains hand-written is the fold structure itself -- which loop nests in which and "
                 "the meaning of `swap` -- checked by differential execution over GF(p); any harmless change of pivot choice "
                 "is invisible there by design; round five: the translator normalises behaviour-preserving respellings before "
                 "matching -- hoisted size locals, row / entry references, private void helpers, while / range-for / iterator / "
                 "std::iota / std::accumulate loops, flipped comparisons, the three count-down spellings, guard clauses in the "
                 "dispatch and in the singular-lane block (decision table), const / auto / renamed locals and compound "
                 "assignments in the closed forms -- each rule with a checked side condition, so these no longer alarm; a "
                 "rewrite that still leaves the grammar, e.g. a hoisted reciprocal or copied entry, a value-returning helper, "
                 "a lambda, is reported as a broken tie and then needs a failing input "
                 "from the search to count as a violation of the property), g++/ASan/UBSan. Floating point: proved for real scalars "
                 "under the standard rounding model without overflow/underflow, in terms of the computed factors |L||U| (no "
                 "growth-factor bound); that the machine arithmetic satisfies this model (and commutes with power-of-two "
                 "scalings), the complex case, the closed forms "
                 "n<=3 (Cramer's rule: forward stable only) and the left residual B*A-I of invert are not proved; "
                 "'FMatrixError => singular up to the backward error' is proved with the bound in terms of the partial "
                 "factors |L||W| (no growth-factor / condition-number form). The harness "
                 "checks residuals against 100 n^2 eps bounds for matrices with condition number <= ~100 (pivoting; incl. "
                 "scaled permutations + tiny noise, where only the column maximum is a safe pivot, and complex matrices with "
                 "purely real/imaginary entries) or strictly diagonally dominant ones (no pivoting), at every magnitude of the "
                 "entries. For long double operands outside the range of double (field token ld@ka@kb) the Lean driver computes "
                 "on the unscaled operands (justified by the scale theorems); FMatrixPrecision's runtime limit is not a "
                 "parameter of the model (the default build must not read it). SIMD: only LoopSIMD<double,4> and only through "
                 "the residual oracle lane by lane (model answer = scalar model per lane, justified by C09's lane-wise "
                 "theorems); all other SIMD shapes and the bit-for-bit lane transparency are C09's. Singular n<=3, singular "
                 "DiagonalMatrix and unpivoted break-down on nonsingular A are outside the property and are not compared; "
                 "non-square operands and 0x0 DynamicMatrix (cols() asserts) are outside its domain; #ifdef "
                 "DUNE_FMatrix_WITH_CHECKING code is not compiled (with that macro the closed forms and DiagonalMatrix reject "
                 "matrices below FMatrixPrecision's absolute limit by design); round five: the translator reads these regions "
                 "inside the closed forms of solve (n<=3) and invert (n<=2), emits the tested quantity and "
                 "tie_checked_quantity proves it is the determinant; and a second translation unit of the harness "
                 "(cxx_c02_ck.cc) compiles the closed forms of solve / invert WITH the macro for std::complex<long double> "
                 "(a scalar type used nowhere else in the binary, so the two configurations of the header-only code never "
                 "meet) and runs them on well-conditioned operands with |det| between 2^-180 and 2^613: they must return "
                 "(`ck` cases; the Lean driver answers ck-returns for every admissible line).  Not covered in that "
                 "configuration: DiagonalMatrix, operands below the limit (rejected by design), SIMD.")
TECHNIQUE = ('Lean 4 proof (L*W = P*A0 invariant of in-place LU with partial pivoting, any field, any n; top-level theorems '
             'about the size-dispatching member functions; entry-wise rounding-error invariant for the same loops over '
             'rounded reals; lockstep simulation of the scaled against the unscaled run for any scalar type) + translator '
             'for the closed-form blocks, the size dispatch, the '
             'default arguments and (round four) the kernels / loop headers / call flags of the whole LU path and of '
             'DiagonalMatrix + differential correspondence over GF(32003) with independent oracle + residual oracle over '
             'double / long double / complex / LoopSIMD<double,4> at all magnitudes')
TRANSLATORS = [tr_c02.translate]
HARNESS = dict(
    sources=["cxx_c02.cc", "cxx_c02_ck.cc"],
    repo_sources=["dune/common/exceptions.cc", "dune/common/stdstreams.cc"],
    flags=["-O0", "-g1"],
)
RULE = ("round five: one case in fifty is `ck` = the closed forms of solve / invert (n = 1..3, FieldMatrix | DynamicMatrix) in a "
        "second translation unit compiled WITH DUNE_FMatrix_WITH_CHECKING on std::complex<long double> operands A*2^k (small "
        "integer A with exact nonzero determinant, -180 <= k*n <= 600: |det| from 2^-180 to 2^613, always far above the absolute "
        "limit 1e-80): the call must return and pass the residual test; "
        "cases: field gf|f64|ld|c64|v64 (v64 = LoopSIMD<double,4>, four independent lanes) x op solve|invert|det|"
        "FMatrixHelp::invertMatrix[_retTransposed]|inv2 (the same object inverted twice; gf, pivoting on/default) x FieldMatrix|"
        "DynamicMatrix|DiagonalMatrix x n=1..7 (DynamicMatrix also 8..10) x doPivoting true|false|argument omitted; "
        "one solve in six with x and b of the other vector family (fmx: FieldMatrix, x DynamicVector, b FieldVector; dmx: "
        "DynamicMatrix, x FieldVector, b DynamicVector; diagx: DiagonalMatrix with DynamicVectors); "
        "GF(32003) matrices from 12 generators (dense, sparse, row-permuted triangular, rank-deficient products, "
        "dependent/zero rows or columns, vanishing leading minor, pivot ties x/p-x, monomial, singular only in the last "
        "step, diagonal-ish) plus exhaustive/strided enumeration of 0/1 and 0/1/-1 matrices; floats: rotations x "
        "diag(1..64) x rotations, scaled permutation + noise of size 1e-6..1e-30 (pivoting), strictly diagonally dominant "
        "(no pivoting); complex additionally with exact unit phases i^k on rows/columns (purely real/imaginary entries); "
        "two in five float cases multiplied by m*2^ka (b by 2^kb), ka boundary-biased (..., 2^-266 ~ 1e-80, 2^-333 ~ 1e-100, "
        "...) over the range in which operands, results and intermediates of the algorithm neither overflow nor become "
        "subnormal (LU solve/invert |ka|<=900 for double/complex, <=15900 for long double; determinant |ka|<=E/n-8; closed "
        "forms |ka|<=E/3-10); one in eight dense float cases of size >=4 made exactly singular (zero row, zero column, "
        "two equal rows; in a SIMD operand in some lanes only); one case in ten (every field) runs with "
        "FMatrixPrecision<>::set_absolute_limit(0 | 1e-320 .. 1e300); "
        "distinct = distinct op lines; non-trivial = the oracle decided a clause of the property (value checked, or "
        "FMatrixError/0 demanded); 'ok trivial' = behaviour unspecified by the property (singular n<=3, singular "
        "diagonal, unpivoted break-down); lu_* counters = pivot patterns seen by a statistics-only shadow elimination; "
        "gen_scale_* / flt_A_exp2_* = binary magnitude classes of the float operands; simd_* = lane mixes")
ASSUMPTIONS = [
    "the LU model lean/DuneVerif/Model/C02.lean is hand-written; since round four its scalar kernels, loop headers, statement order, singularity test and luDecomposition call flags are regenerated from densematrix.hh / diagonalmatrix.hh and tied to it by the tie_* theorems; the fold structure (nesting, meaning of swap) rests on the differential run over GF(32003)",
    "the translator's LU grammar accepts renamed loop variables / locals, any whitespace and bracing, i++ / ++i, compound or spelled-out assignments, commuted and re-associated right-hand sides, either orientation of the pivot comparison (> or >=), pivot search from i or i+1, Simd::cond with == or != condition, the column un-permutation with or without its guard; round five: before matching, the statement trees are normalised -- while loops / increments in the body -> for loops, locals that only name a size or begin()/end() (const, or never assigned) are inlined, references that only name a row or an entry are inlined when their index variables are not modified, private void helper functions without return are inlined at their call sites (reference parameters by substitution, by-value parameters only unmodified scalars), range-for over pivot_ / diag_ / range(a,b), iterator loops, std::iota and std::accumulate(.., std::multiplies) -> the index loop, 'n > i' and 'i != n' (upward from 0) -> 'i < n', the three spellings of a count-down loop over n-1..0 -> one header (an unsigned counter with 'i >= 0' is rejected), the throwEarly / return block is compared as a decision table over (throwEarly, all lanes nonsingular, some lane nonsingular), the two Simd::cond updates of the pivot search may stand in either order; any other rewrite of these functions (hoisted values such as a reciprocal or a copied entry, value-returning helpers, lambdas / std::transform, reordered loops, additional statements) is reported as a broken obligation and triggers the search for a failing input",
    "the closed forms for n<=3, FMatrixHelp::invertMatrix*, the list of sizes with a closed-form branch and the default arguments of doPivoting are regenerated from the source by tools/translators/tr_c02.py (straight-line grammar; round five: const / auto locals, K t(e), compound assignments, const references naming an entry that is not written meanwhile, a bare return ending a void block (guard-clause dispatch; a size branch without else must return), 'k == rows()', 'this->rows()'; local names are free because the generated definitions are alpha-equivalent and the theorems are proved by ring; anything else raises)",
    "floating point: the backward-error theorems are about the models over reals with a rounding function of relative error <= u (standard model, no overflow/underflow, real scalars); that IEEE double / x87 long double / std::complex arithmetic as compiled meets it is assumed; harness residual tolerance 100 n^2 eps relative to ||A|| ||x|| + ||b|| (solve), ||A|| ||B|| (inverse), prod of row 1-norms (determinant)",
    "the theorems need absval x = 0 <-> x = 0 and 0 <= absval x (true for abs on real/complex fields and for the harness' GF(p) class)",
    "'solve and determinant never modify A or b' is decided by the harness (operands compared before/after), the functional model cannot express it",
    "square operands of size >= 1 only (rows()!=cols() throws FMatrixError by an explicit guard; a 0x0 DynamicMatrix fails the assertion in mat_cols())",
    "scale theorems: hypotheses fl(c*x) = c*fl(x) for c, d, d/c (true for binary floating point and powers of two in the absence of overflow/underflow; assumed, not proved, for the machine types); the harness keeps every scaled case inside that regime by construction of the exponent ranges",
    "float matrices with a zero row, a zero column or (real types) two equal rows are treated as exactly singular: the elimination then meets an exact zero pivot whatever the rounding (x/x = 1 and x - 1*x = 0 exactly in IEEE arithmetic); for complex scalars equal rows are not used because the library's complex division does not guarantee z/z = 1",
    "LoopSIMD<double,4>: the Lean driver answers lane by lane with the scalar model; that the SIMD code is lane-wise the scalar algorithm is property C09 (theorems lu_lanewise, solve_lanewise, invert_lanewise there)",
    "the runtime value of FMatrixPrecision<>::absolute_limit() must not influence the default build (the macro DUNE_FMatrix_WITH_CHECKING is not defined); the harness varies it, the model does not have it; the checking regions inside the closed forms of solve / invert must have the shape `if (anyTrue(absreal(E) < absolute_limit())) DUNE_THROW(FMatrixError, ..)`, exactly one per block, and E must be the determinant (tie_checked_quantity); the harness executes them only in the `ck` cases (second translation unit with the macro defined, std::complex<long double> operands with a determinant far above the limit, n <= 3)",
]
TRUSTED = ["g++/libstdc++, ASan/UBSan", "Mathlib v4.33 (Matrix.det, Equiv.Perm.sign, BlockTriangular)",
           "translator tr_c02.py", "harness/cxx_c02.cc (GF(p) class, generators, Laplace/residual oracles) + Driver/C02.lean parsing/printing"]


def batches(tier, seed):
    quick = tier == "quick"
    n = 60000 if quick else 1600000
    parts = 4 if quick else 16
    to = 300 if quick else 3000
    res = [dict(args=["--seed", str(seed * 1000 + i), "--cases", str(n // parts), "--tier", tier], tag="g%d" % i,
                timeout=to) for i in range(parts)]

    def enum(tag, mode, size, cases, stride=1, offset=0):
        return dict(args=["--seed", str(seed), "--cases", str(cases), "--tier", tier, "--mode", mode, "--n", str(size),
                          "--stride", str(stride), "--offset", str(offset)], tag=tag, timeout=to)
    # every 0/1 matrix (= every zero pattern / pivot pattern / rank profile) x {solve, invert, det} x {pivoting on, off}
    res.append(enum("e3", "enum01", 3, 6 * 512))
    if quick:
        res.append(enum("e4", "enum01", 4, 6 * 2000, stride=40503, offset=seed * 7919))
        res.append(enum("p4", "enumpm", 4, 6 * 1000, stride=1000003, offset=seed * 104729))
        res.append(enum("e5", "enum01", 5, 6 * 500, stride=1000003, offset=seed * 15485863))
    else:
        res.append(enum("e4", "enum01", 4, 6 * 65536))
        res.append(enum("p4", "enumpm", 4, 6 * 40000, stride=1000003, offset=seed * 104729))
        res.append(enum("e5", "enum01", 5, 6 * 40000, stride=1000003, offset=seed * 15485863))
        res.append(enum("e6", "enum01", 6, 6 * 10000, stride=1000000007, offset=seed * 15485863))
    return res


def search_batches(seed):
    return [dict(args=["--seed", str(seed * 7919 + 13 + i), "--cases", "200000"], timeout=900) for i in range(3)]
