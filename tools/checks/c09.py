"""C09 — SIMD types are lane-wise transparent, also through the dense-matrix algorithms."""
from translators import tr_c09

PID = "C09"
CLAIM = True
MANIFEST_TEXT = ("Lean 4 theorems, for every lane count S, every scalar type and every interpretation of the operator symbols "
                 "(so also IEEE arithmetic): each operator / cmath function that loop.hh lists (one generated lemma per row of the "
                 "macro invocation lists, over the per-lane loop shapes the translator reads off the DUNE_SIMD_LOOP_* macro bodies), "
                 "lane/cond/broadcast/mask reductions/nested lane numbering, and the defaults of defaults.hh (mask, maskOr/And, "
                 "allTrue/anyFalse/allFalse through anyTrue, horizontal max/min, implCast) and Scalar/Rebind/lanes are lane-wise; a scalar "
                 "operand of ANOTHER arithmetic type reaches every lane of a comparison, of && / || and of a shift in its own type (the "
                 "declared parameter types are part of the translated shapes), a mask of another type selects by lane number in cond; the "
                 "LU-based determinant/solve/invert, all matrix-vector kernels (rectangular), left/rightmultiply and the matrix and "
                 "vector norms of densematrix.hh/densevector.hh, written once over a SimdLike structure with per-lane pivoting, return in "
                 "every lane what the same algorithm returns on that lane's data, including mixed singular/regular lanes (determinant) "
                 "and 'throws iff some lane throws' (solve/invert) - in the default configuration AND with DUNE_FMatrix_WITH_CHECKING (the "
                 "singularity tests of the closed forms are executed from the table translated from densematrix.hh), for LoopSIMD<.,S> and "
                 "for SIMD-of-SIMD (both instances proved lawful). Each run re-translates loop.hh/interface.hh/standard.hh/defaults.hh/"
                 "densematrix.hh/DESIGN.md, re-checks the proofs, and runs LoopSIMD<T,S> (S in 1,2,3,4,8, T in float,double,int,long,short,"
                 "unsigned,bool,complex, nested, over-aligned, 49 lane-type x scalar-type pairs), a minimal SIMD type living on the defaults, "
                 "and FieldMatrix/FieldVector/DynamicMatrix of LoopSIMD<double,S>, LoopSIMD<float,4> and LoopSIMD<LoopSIMD<double,2>,2> in "
                 "both configurations (two translation units) against the scalar operation per lane by bit pattern and against the Lean "
                 "model (bit-exact, Float/Float32 = IEEE double/single). ROUND 4: the control decisions of luDecomposition (bounds and comparison of the "
                 "per-lane pivot search, operand order of its two cond calls, the update of nonsingularLanes, the reductions that throw / "
                 "return, the elimination bounds), of ElimDet::swap / ElimPivot::swap, the throwEarly argument of the three callers and the "
                 "masking of the determinant's singular lanes are a table (Gen.luCtl) re-translated from densematrix.hh on every run; the "
                 "straight-line arithmetic around them (elimination step, lane-wise row swap, Elim<V>, backsolve, the triangular solves and "
                 "the lane-wise un-permutation of invert) must keep the form the model follows or the translator fails; the driver runs the "
                 "algorithms FROM the table (determinantT/solveT/invertT), theorems: the table is the canonical one (lu_control_shape), the "
                 "table-driven algorithms are the hand-written ones (translated_control_refines), hence lane-wise (det/solve/invert_translated_*), "
                 "and the LU factors, the recorded pivot rows and the mask themselves are lane-wise (lu_factors_lanewise, "
                 "lu_factors_lanewise_noThrow). The eleven matrix-vector kernels mv..usmhv (umhv/mmhv/usmhv were never executed before) are "
                 "translated into loop-nest shapes (any test / reduction / early return in a kernel is outside the grammar), executed from "
                 "the shapes and proved lane-wise for EVERY shape of the grammar (kernels_translated_lanewise); the vector-space operations "
                 "of DenseMatrix (+=, -=, *=, /=, unary -, axpy with per-lane factors) are modelled, run and proved lane-wise "
                 "(matrix_space_ops_lanewise).")
MANIFEST_NOTE = ("Trusted: Lean kernel (+propext/Classical.choice/Quot.sound), tr_c09.py (round 5: including its normalisation pass - inlining of "
                 "single-assignment const locals with stable pure initialisers, range-for / guard-clause / if-return respellings, alpha-renaming - "
                 "whose side conditions are syntactic and conservative: a rewrite they cannot justify leaves the text outside the grammar and is "
                 "reported as a broken tie without failing input), fidelity of the hand-written dense-matrix "
                 "model (differential runs only), Lean's Float/Float32 = IEEE binary64/32 for + - * / < == fabs sqrt and int<->float "
                 "conversions, g++/libm/ASan/UBSan. cmath functions are uninterpreted in the model (their table travels on the op line); "
                 "NaN payload/sign is canonicalised; for solve/invert the property is read as: the SIMD call throws FMatrixError iff the "
                 "scalar call throws for some lane, otherwise all lanes agree bitwise. Scalar operands of another arithmetic type: for the "
                 "mask-valued operators and shifts lane l must be the built-in mixed-type expression lane(l,v) @ s; the arithmetic operators "
                 "and compound assignments are declared with Simd::Scalar<T> (the call converts the argument, simd/DESIGN.md Note 2 lets a SIMD "
                 "type stay in its own type) and get same-type scalars only. The checked configuration is compiled as a second translation "
                 "unit with the library renamed to another namespace (#define Dune DuneChk) to keep both configurations in one binary. "
                 "complex multiplication/division, the _OPENMP pragma configuration and DiagonalMatrix are not modelled. Five genuine defects "
                 "found by this check were repaired in /repo (fixes/C09_*.patch = commits 4bc4257, 463b852, 1d9eacd, 85bd095, 7a78e57); the "
                 "model describes the repaired code. -O0 and a reduced UBSan set (without null/alignment/vptr/pointer-overflow/object-size) "
                 "are used for the harness because ~55 vector types x all operators + ~75 matrix/vector types take > 2 min to compile at -O1 "
                 "with all sanitizers.")
TECHNIQUE = "Lean 4 proof over translated loop shapes (incl. declared operand types) + SimdLike-generic LU/kernel model (loop and nested instances proved lawful; LU control decisions, matrix-vector kernel shapes and the checked configuration's tests executed from tables translated from densematrix.hh, refinement to the hand-written model proved); translator for operator tables, defaults.hh, type functions, the densematrix.hh singularity tests, the luDecomposition control skeleton + functors + callers and the eleven kernels; differential correspondence in two build configurations with per-lane scalar oracle (bitwise)"
TRANSLATORS = [tr_c09.translate]
HARNESS = dict(
    # cxx_c09_chk.cc: the same headers once more with DUNE_FMatrix_WITH_CHECKING defined (library renamed to another namespace)
    sources=["cxx_c09.cc", "cxx_c09_chk.cc"],
    repo_sources=["dune/common/exceptions.cc", "dune/common/stdstreams.cc"],
    # -O0: ~45 vector types x all operators + ~60 matrix/vector types need > 2 min at -O1 with both sanitizers;
    # the UBSan checks that cannot concern lane values (null, alignment, vptr, pointer-overflow, object-size) are left out
    # for the same reason; signed overflow, shifts, division, bounds (std::array indexing), bool, float casts stay on, ASan stays on
    # -g1 (line tables and function names for the sanitizer reports, no local-variable info) saves ~6 s of the compile
    flags=["-O0", "-g1", "-fno-sanitize=null,alignment,vptr,pointer-overflow,object-size,nonnull-attribute,returns-nonnull-attribute"],
)
RULE = ("cases: operator/function x scalar type {f32,f64,i32,i64,i16,u32,bool,complex} x shape {1,2,3,4,8,2x2,4x2,2x4} x form {vv,vs,sv} with "
        "lanes drawn independently from boundary values (+-0, +-inf, NaN, denormals, extremes, INT_MIN/MAX, UINT_MAX) and random values; "
        "abstraction layer (lane incl. rvalue, lane assignment, cond, mask reductions with one deviating lane, broadcast, max/min, mask*, "
        "implCast, lanes/Scalar/Rebind), the same through a minimal SIMD type that only has the defaults of defaults.hh, over-aligned "
        "LoopSIMD, shifts by a vector of another type, operators whose scalar operand is a lane of the vector operand itself "
        "(v OP= lane(k, v): aliasing); scalar operands of another arithmetic type (binx: 7 lane types x 7 scalar types, comparisons/&&/|| in "
        "both operand orders, shifts; the scalar equal to a lane, off by one, a fraction / a float rounding error off, congruent modulo "
        "2^8/2^16/2^32, negative against unsigned, 2^24+1, 2^53+1), cond with a flat / nested / over-aligned mask of another type, maskOr/And "
        "of two vector types, broadcast of a scalar of another type (layx); matrices n=1..6 (DynamicMatrix 1..8) over "
        "LoopSIMD<double,{1,2,3,4,8}>, LoopSIMD<float,4>, LoopSIMD<LoopSIMD<double,2>,2>, each lane an independent recipe (random, scaled "
        "permutation, zero column, duplicate/dependent rows, ties, powers of two, zero) so lanes need different pivot rows and some are "
        "singular; the same solve/invert in the configuration DUNE_FMatrix_WITH_CHECKING (matc: n=1..4, absolute_limit in {1e-80,1e-6,0.5,1,2.5,8} "
        "set per case, one lane on the other side of the test); rectangular kernels mv/mtv/umv/umtv/mmv/mmtv/usmv/usmtv, left/rightmultiply, "
        "matrix and vector norms, dot, axpy; (round 4) the hermitian kernels umhv/mmhv/usmhv and the vector-space operations A+=B, A-=B, A*=k, "
        "A/=k, -A, A.axpy(k,B) on rectangular matrices with a per-lane factor k; distinct = distinct op lines; non-trivial = the per-lane scalar oracle compared a result")
ASSUMPTIONS = [
    "the loop shapes (incl. the declared type of every scalar parameter), operator lists, the scalar cond/reductions, the defaults of "
    "defaults.hh, Scalar/Rebind/LaneCount and the singularity tests of the checked configuration (densematrix.hh) are regenerated "
    "from the source by tools/translators/tr_c09.py; (round 4) so are the control decisions of luDecomposition / ElimDet / ElimPivot / the "
    "LU branches of determinant, solve, invert (Gen.luCtl; the straight-line arithmetic between them is pattern-checked: identifiers, "
    "increment style, braces, `a -= f*b` vs `a = a - f*b`, commuted factors, swap operand order, `!allTrue` vs `anyFalse`, `i != j` with "
    "exchanged cond operands are free; (round 5) before the grammar is applied the source is normalised by semantics-preserving rewrites "
    "with explicit side conditions: a `const` local initialised from a side-effect-free expression whose value cannot change in its scope "
    "(size accessors rows()/cols()/size()/Simd::lanes of an object that is neither assigned as a whole, resized nor passed on; pure reads "
    "whose operands are not written before the last use) is inlined, with a static_cast kept visible when the declared type is not the "
    "known type of the initialiser; `for (auto l : range(E))` and a range-for over the entries of a `const LoopSIMD<M,S,A>&` become index "
    "loops; `if (c) return a; [else] return b;` becomes `return c ? a : b;` for same-typed parameters; `if (c) continue; REST` becomes "
    "`if (!c) {REST}`; result locals / accumulators are alpha-renamed; `x |= y` = `x = x | y`; `det = cond(..); return det;` = `return cond(..);`; "
    "two adjacent independent `Simd::cond` assignments under one mask commute; anything else makes the translator fail) and the loop-nest shapes of the eleven matrix-vector "
    "kernels (Gen.kernel_*); hand-written and resting on the differential run: the closed forms n <= 3, left/rightmultiply, the norms, "
    "the vector-space operations (lean/DuneVerif/Model/C09LU.lean, C09X.lean, C09K.lean)",
    "conjugateComplex is the identity on the lanes the harness uses (real scalar types); the kernel theorem holds for every scalar function",
    "Lean Float/Float32 arithmetic (+ - * / < == abs sqrt) is IEEE binary64/binary32 (checked bit for bit against the C++ results in every run); "
    "the compiler does not contract a*b+c into fma (no -mfma / -ffast-math in the harness build)",
    "NaN payloads and signs are canonicalised on both sides; integer operands are restricted to defined behaviour (no signed overflow, "
    "no division by zero, shift counts in range); short is computed in int and wraps on conversion, unsigned wraps",
    "cmath functions are compared lane vs std:: call inside the harness; in the model they are uninterpreted (table on the op line)",
    "a scalar operand of another arithmetic type is given to the operators that are generic in it (comparisons, && ||, shifts) and must "
    "reach the lanes unconverted; the arithmetic operators / compound assignments (declared with Simd::Scalar<T>) get same-type scalars only; "
    "mixed-type comparisons follow the usual arithmetic conversions of C++ on x86-64 (float->integer conversions out of range are not generated "
    "where they would be undefined)",
    "the checked configuration lives in a second translation unit in which every token `Dune` is renamed (one binary, no ODR clash); "
    "FMatrixPrecision<>::absolute_limit() is set per case",
    "not modelled: complex multiplication/division, Vc-based SIMD types (vc.hh), the _OPENMP (omp simd pragma) configuration, DiagonalMatrix",
]
TRUSTED = ["g++/libstdc++/libm, ASan/UBSan", "translator tr_c09.py", "harness/cxx_c09.cc + harness/cxx_c09_chk.cc (per-lane scalar oracle) + Driver/C09.lean parsing/printing and C++ conversion rules"]


def batches(tier, seed):
    n = 24000 if tier == "quick" else 1200000
    parts = 4 if tier == "quick" else 16
    return [dict(args=["--seed", str(seed * 1000 + i), "--cases", str(n // parts), "--tier", tier], tag="g%d" % i,
                 timeout=(600 if tier == "quick" else 3600)) for i in range(parts)]


def search_batches(seed):
    return [dict(args=["--seed", str(seed * 7919 + 13 + i), "--cases", "60000"], timeout=1200) for i in range(3)]
