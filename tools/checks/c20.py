"""C20 — Python views of dense vectors agree with the C++ objects they wrap."""

PID = "C20"
CLAIM = True
MANIFEST_TEXT = ("Lean 4 theorems about an executable model of dune-common's Python bindings for dense vectors: construction = first n "
                 "numbers zero-filled (and the binding's copy loop refines it), index normalisation/IndexError for every size and every "
                 "integer index, set/get, view aliasing vs. copy independence in a shared-store model, every bound arithmetic/comparison/"
                 "norm operation equals the plain C++ vector operation on the entries, tuple vectors preserve entry types and values. "
                 "Tied to the source on every run: _common, _typeregistry and the JIT modules (FieldVector<double,n>, TupleVector<...>, "
                 "a NumPyVector algorithm) are rebuilt from the current working tree's _common.cc, headers and generator code whenever any "
                 "file they depend on changed, the current python/dune package is imported, and >=3000 seeded operation programs per run "
                 "are executed on the real bindings, on the Lean model and on an independent plain-Python-list shadow.")
MANIFEST_NOTE = ("Partial by nature: CPython, pybind11 (casting/overload resolution) and NumPy are exercised, not modelled; values are "
                 "integer-valued doubles |x|<=2^24; FieldVector sizes 1,2,3,4,5,6,9 (all JIT-generated) and five tuple shapes; DynamicVector operands of unequal "
                 "length are excluded (undefined in C++ as well); the dune-py cmake/make builder is replaced by a direct g++ call on the "
                 "source text the current generator produces; precompiled registerfvector.cc (off in /repo/_build) is not built. "
                 "Three defects found while building the check (negative indices in __setitem__/DynamicVector, FieldVector.copy() returning "
                 "zeros, NumPyVector ignoring strides) are repaired by fixes/C20_*.patch; the model describes the repaired code.")
TECHNIQUE = 'Lean 4 proof over a shared-store model of the bindings + differential correspondence against freshly rebuilt extension modules with a plain-Python shadow oracle'
TRANSLATORS = []
HARNESS = dict(
    sources=["cxx_c20.cc"],
    repo_sources=[],
    sanitize=False,       # the binary only exec's the Python harness harness/c20_py.py
)
CRASH_IS_VIOLATION = True   # an index outside [-n, n) must raise IndexError, never touch memory
RULE = ("cases: seeded programs of 3-14 bound operations over 4 vector registers and 3 NumPy-array registers (or 2 tuple vectors and "
        "their Python-side sources): constructors from list/tuple/args/NumPy (contiguous, strided, reversed)/array.array/no args/"
        "dune.common.FieldVector, copies, aliases, + - * / with vectors, lists (short/long), float and int scalars incl. reflected, "
        "in-place operators, assign, get/set with indices biased to {-n-1,-n,-1,0,n-1,n,n+1,+-2^33}, len, iteration, str/repr, slices, "
        "== !=, norms, dot, NumPy views/copies/slice views with reads and writes, NumPyVector operations on (strided) views; tuple "
        "vectors by value and by reference; distinct = distinct op lines; non-trivial = at least one operation was executed on the "
        "real bindings and compared with the shadow")
ASSUMPTIONS = [
    "the Lean model lean/DuneVerif/Model/C20.lean is hand-written; its fidelity to the bindings rests on this differential run",
    "CPython 3.11, the vendored pybind11 and NumPy 2.4 are trusted (overload resolution, implicit conversions, buffer protocol, slicing)",
    "extension modules are compiled with g++ -O1 -UNDEBUG without MPI from $VERIF_REPO's current files; JIT module sources come from the "
    "current python/dune/generator code, only the cmake/make step of dune-py is replaced by a direct compiler call",
    "entries are integer-valued doubles with |x| <= 2^24 so that all arithmetic is exact; two_norm is checked as sqrt(two_norm2)",
    "DynamicVector arithmetic/comparison with operands of different length is not exercised (undefined behaviour in the C++ operators)",
]
TRUSTED = ["CPython/pybind11/NumPy, g++/libstdc++", "harness/c20_py.py (builder, executor, shadow oracle) + Driver/C20.lean parsing/printing"]


def batches(tier, seed):
    n = 3200 if tier == "quick" else 400000
    parts = 2 if tier == "quick" else 16
    return [dict(args=["--seed", str(seed * 1000 + i), "--cases", str(n // parts), "--tier", tier], tag="g%d" % i,
                 timeout=(900 if tier == "quick" else 3000)) for i in range(parts)]


def search_batches(seed):
    return [dict(args=["--seed", str(seed * 7919 + 13 + i), "--cases", "20000"], timeout=1800) for i in range(3)]
