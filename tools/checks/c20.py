"""C20 — Python views of dense vectors agree with the C++ objects they wrap."""
from translators import tr_c20

PID = "C20"
CLAIM = True
MANIFEST_TEXT = ("Lean 4 theorems (38, all sizes/entries/indices/store states/record sizes and byte strides) about an executable model of dune-common's Python bindings "
                 "for dense vectors: construction from list/tuple/args = first n numbers zero-filled (the binding's copy loop refines "
                 "it), the buffer constructor over a buffer_info in bytes = the same for the buffer's entries whenever NumPy calls the buffer "
                 "aligned (which the format check enforces), byte addressing ptr+j*stride hits exactly the cell a view denotes for every "
                 "record size while whole-item addressing ptr[j*(stride/w)] does so iff w divides the stride, DynamicVector's list constructor; index "
                 "normalisation and IndexError for every integer index (no bound), set/get; the legacy iteration protocol yields exactly "
                 "the entries and is ended by the IndexError at n; slices (CPython index adjustment) denote only positions inside the "
                 "vector and are exact; views, slice views and NumPy-backed C++ vectors alias the vector's cells, copies are independent; "
                 "every bound arithmetic/comparison/norm/string operation equals the plain C++ vector operation on the entries, incl. "
                 "FieldVector<K,1> scalar arithmetic and operands given as tuple/NumPy array/strided view/array.array; tuple vectors "
                 "preserve entry types and values, and after every program of tuple-vector operations (by value or by reference) every entry still "
                 "has the element type of the shape and every FieldVector entry names an existing object of exactly n cells; and, by induction over programs, a store invariant (registers name existing vectors, "
                 "FieldVector<K,n> has n cells, every view entry is an existing cell and its byte address is where that cell starts) holds after "
                 "every program of bound operations. "
                 "Tied to the source on every run, first by a translator (tools/translators/tr_c20.py) that regenerates from the headers "
                 "the index normalisation lambda (statement order, conditions, arithmetic; plus the shape of the ssize_t and pybind11::int_ "
                 "overloads of __getitem__/__setitem__), the copy loops of the tuple/list/args constructors, copy(*args), the buffer "
                 "constructor (checks, stride computation, bound, source index) and DynamicVector's list constructor, the string constants of "
                 "str/repr, and the ordered list of everything the registration functions bind (78 entries incl. overload order and the "
                 "chaining of registration functions); theorems gen_normalize_index, gen_getitem_python (the generated normalisation is "
                 "Python's list indexing: i mod n inside [-n,n), IndexError outside, for every n and every integer i), gen_copy_loops (each "
                 "generated loop computes the specification construct n xs), gen_buffer_ctor, gen_str_consts, gen_bindings_modelled (every "
                 "binding is driven by named operations of the op language) are re-proved against that output, so an edited bound, condition, "
                 "constant or a new/removed/reordered overload breaks an obligation and starts the search for a failing input. "
                 "Second by the differential run: _common (both as configured with just-in-time FieldVector classes and with "
                 "DUNE_ENABLE_PYTHONMODULE_PRECOMPILE: FieldVector_double_0..14 from registerfvector.cc), _typeregistry and the JIT modules "
                 "(FieldVector<double,n>, TupleVector<...>, two NumPyVector algorithms) are rebuilt from the current working tree's sources "
                 "whenever any file they depend on changed, the current python/dune package is imported, and >=32000 seeded operation programs "
                 "per run are executed on the real bindings, on the Lean model and on an independent plain-Python-list shadow; a second "
                 "independent oracle snapshots every byte of a buffer object's allocation that is not part of an entry (gaps, padding and "
                 "other fields of packed records) and fails when one changes.")
MANIFEST_NOTE = ("Partial by nature: CPython, pybind11 (casting/overload resolution) and NumPy are exercised, not modelled; values are "
                 "integer-valued doubles |x|<=2^24; FieldVector sizes 1,2,3,4,5,6,9 just-in-time generated and 0..14 precompiled, five tuple "
                 "shapes; DynamicVector operands of unequal length are excluded (undefined in C++ as well); the dune-py cmake/make builder is "
                 "replaced by a direct g++ call on the source text the current generator produces. The translator covers the straight-line "
                 "lambdas and data of densevector.hh/fvector.hh/dynvector.hh and the binding lists of those plus vector.hh/tuplevector.hh; "
                 "arithmetic operators, NumPyVector, TupleVector, string.hh join and the Python side stay hand-modelled and are tied by the "
                 "differential run only. Translated bodies are normalised before they are matched and emitted in a canonical spelling (locals "
                 "named by position, ordered operands of + * min max == !=, b>a as a<b, !(a<b) as b<=a, ?: / `if (c) n = e;` / std::min "
                 "spellings of a minimum, integral casts in every syntax, x.empty(), const/auto locals with side-effect-free initialisers "
                 "substituted incl. a hoisted static_cast<K*>(info.ptr), named strings and `s += e` steps, guard clause = if/else = inverted "
                 "test, while loop with trailing ++i = for loop, index helper as closure / function of the header / written out in both "
                 "accessors, DV(n,K(0)).size() = n, cls.def(..).def(..) chains, renamed parameters and captures), so such maintenance edits "
                 "regenerate the byte-identical Lean file; other equivalent control flow of the index normalisation (one combined range test "
                 "and a conditional shift) reaches Lean and is proved by case split + omega; what cannot be recognised soundly (iterator, "
                 "range-for or count-down loops, std algorithms, stride not held in a local, merged buffer checks, `%`-based normalisation, "
                 "brace initialisation of the vector) is reported as a broken obligation, never guessed. "
                 "Buffer layouts: contiguous, strided, reversed, columns, read-only broadcast (stride 0) and fields of packed records "
                 "(byte strides that are no multiple of the item size, unaligned entries; 16 layouts) for 10 NumPy element types incl. "
                 "non-native byte order; an unaligned buffer of doubles may be rejected by the FieldVector constructor (it is: NumPy exports "
                 "'=d') or constructed exactly, both are accepted; writable zero-stride buffers are excluded. Runs on x86-64, where "
                 "NumPyVector's unaligned double accesses are harmless. "
                 "Four defects found while building the check (negative indices in __setitem__/DynamicVector, FieldVector.copy() returning "
                 "zeros, NumPyVector ignoring strides, TypeError/OverflowError instead of IndexError for indices beyond ssize_t) are repaired "
                 "by fixes/C20_*.patch (applied); the model describes the repaired code. A fifth, latent one (round five): the buffer constructor "
                 "divided a negative byte stride by the unsigned sizeof(K), so i*stride overflowed ssize_t for reversed views (undefined "
                 "behaviour, right values only through wrap-around; not observable by the differential run) -- repaired by "
                 "fixes/C20_buffer_negative_stride.patch (applied, 5a41cb5); a revert is reported by the translator + gen_buffer_ctor "
                 "(the stride is the one expression translated with C++'s signed/unsigned conversions instead of exact integers).")
TECHNIQUE = ('Lean 4 proof (effect/invariant structure, induction over programs) over a shared-store model of the bindings + translator for the '
             'straight-line lambdas, constants and binding lists + differential '
             'correspondence against freshly rebuilt extension modules (two build variants) with a plain-Python shadow oracle')
TRANSLATORS = [tr_c20.translate]
HARNESS = dict(
    sources=["cxx_c20.cc"],
    repo_sources=[],
    sanitize=False,       # the binary only exec's the Python harness harness/c20_py.py
)
# replaying a corpus file is also what (re)builds the extension modules when a header changed: minutes on a loaded machine
CORPUS_TIMEOUT = 5400
CRASH_IS_VIOLATION = True   # an index outside [-n, n) must raise IndexError, never touch memory
RULE = ("cases: seeded programs of 3-14 bound operations over 4 vector registers and 3 NumPy-array registers (or 2 tuple vectors and "
        "their Python-side sources): constructors from list/tuple/args of floats or ints/NumPy (contiguous, strided, reversed)/array.array/"
        "no args/dune.common.FieldVector and rejected buffers (int64, float32, 2-d), copies incl. copy(*args), aliases, + - * / with "
        "vectors, lists (short/long), tuples, NumPy arrays and views, array.array, float and int scalars incl. reflected and __div__, "
        "in-place operators, assign, get/set with int and numpy.int64 indices biased to {-n-1,-n,-1,0,n-1,n,n+1,+-2^31,+-2^33,+-2^63,"
        "+-2^64,10^30}, len, iteration, str/repr, slices, == !=, norms, dot incl. reflected, NumPy views/copies/slice views with reads "
        "and writes, buffer objects of 18 element types in 5 element-strided layouts and 16 packed-record layouts q<R>o<F>s<K> (byte "
        "strides 9..39, either direction, field offsets 0..12) as constructor arguments and as arrays under NumPyVector operations (both "
        "call paths; half of the new buffer objects are used by a NumPyVector at once), read-only broadcast buffers, NumPyVector "
        "operations on (strided) views (three call paths: generated algorithm module, NumPyVector(pybind11::buffer), and reads/writes "
        "through coefficients()/data()/the const accessors) and a NumPyVector owning its array; tuple vectors by value and by "
        "reference incl. negative/huge indices; distinct = distinct op lines; non-trivial = at least one operation was executed on the "
        "real bindings and compared with the shadow")
ASSUMPTIONS = [
    "the Lean model lean/DuneVerif/Model/C20.lean is hand-written; its fidelity to the bindings rests on this differential run, "
    "except for the parts tools/translators/tr_c20.py regenerates (index normalisation, constructor copy loops, buffer constructor "
    "arithmetic, string constants, the list of bindings), which theorems gen_* prove equal to the model on every run",
    "the translator's normalisations are sound only as rewrites of C++ it recognises: substituting a local requires a side-effect-free "
    "initialiser and that neither the local nor anything the initialiser reads is modified later; integral casts are dropped because "
    "every value at those places (sizes, lengths, indices inside the vector) is far inside both ranges; translated integer arithmetic "
    "is exact except in the stride of the buffer constructor, where signedness is modelled: `strides[0] / sizeof(K)` (unsigned division, "
    "the defect repaired by fixes/C20_buffer_negative_stride.patch) is emitted as wrapS64((stride0 mod 2^64) / w), which gen_buffer_ctor "
    "refutes, the repaired `/ ssize_t(sizeof(K))` as the signed division the theorem is about; "
    "`python3 tools/translators/tr_c20.py --selftest` replays 18 respellings that must stay quiet and 35 edits that must not",
    "CPython 3.11, the vendored pybind11 and NumPy 2.4 are trusted (overload resolution, implicit conversions, buffer protocol, slicing)",
    "extension modules are compiled with g++ -O1 -UNDEBUG without MPI from $VERIF_REPO's current files; JIT module sources come from the "
    "current python/dune/generator code, only the cmake/make step of dune-py is replaced by a direct compiler call",
    "entries are integer-valued doubles with |x| <= 2^24 so that all arithmetic is exact; two_norm is checked as sqrt(two_norm2)",
    "DynamicVector arithmetic/comparison with operands of different length is not exercised (undefined behaviour in the C++ operators)",
    "indices of NumPy's own indexing (views) are limited to |i| <= 2^40: beyond 2^63 NumPy, not the bindings, decides the exception",
    "NumPy's allocations are at least 8-byte aligned (the rule that predicts ndarray.flags.aligned from the layout is cross-checked "
    "against NumPy on every unaligned case); x86-64: dereferencing an unaligned double* in NumPyVector works",
    "for a buffer of doubles NumPy does not call aligned the FieldVector constructor may raise ValueError or return exactly the "
    "buffer's numbers; the register is not bound in either case",
]
TRUSTED = ["CPython/pybind11/NumPy, g++/libstdc++", "translator tools/translators/tr_c20.py", "harness/c20_py.py (builder, executor, shadow oracle) + Driver/C20.lean parsing/printing"]


def batches(tier, seed):
    """two builds of the package are driven: `jit` (as /repo/_build configures _common: every FieldVector class is generated
    just in time) and `pre` (_common with DUNE_ENABLE_PYTHONMODULE_PRECOMPILE: FieldVector_double_0..14 precompiled)"""
    if tier == "quick":
        plan = [("jit", 20000), ("pre", 12000)]
    else:
        plan = [("pre" if i % 3 == 2 else "jit", 80000) for i in range(16)]
    return [dict(args=["--seed", str(seed * 1000 + i), "--cases", str(n), "--tier", tier, "--variant", v], tag="g%d%s" % (i, v),
                 timeout=(2700 if tier == "quick" else 5400)) for i, (v, n) in enumerate(plan)]


def search_batches(seed):
    return [dict(args=["--seed", str(seed * 7919 + 13 + i), "--cases", "20000", "--variant", ("pre" if i == 2 else "jit")],
                 timeout=1800) for i in range(3)]
