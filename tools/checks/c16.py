"""C16 — iterators, ranges and hybrid loops visit exactly the intended elements, lawfully."""

from translators import tr_c16

PID = "C16"
CLAIM = True
MANIFEST_TEXT = ("Lean 4 theorems (51) over a model in which an iterator is (container, position) and every public operator is derived "
                 "exactly as iteratorfacades.hh derives it (legacy Forward/Bidirectional/RandomAccess facades incl. both "
                 "is_convertible branches, the new IteratorFacade over a base iterator incl. its derived()+=1 branch, the "
                 "hand-written IntegralRangeIterator, IndexedIterator, the pointer chasing SLList iterators): ++/-- inverse, "
                 "it+n / it+=n / it[n] = n single steps, every HISTORY of stepping operators = one advance by the net "
                 "displacement, (a+n)-a = n, the machine difference of IntegralRangeIterator = the true difference whenever "
                 "representable (and the true one modulo 2^bits otherwise), the six comparisons = position order (a strict order; for the "
                 "IntegralRangeIterator and for the iterators of a transformed range over an integral range for EVERY width of the "
                 "integral type and any distance of the two positions - the latter after repair C16_facade_order_by_base), "
                 "const/mutable equality; IntegralRange "
                 "/ StaticIntegralRange enumerate from..to-1 (loops proved for every sufficient fuel), transformed ranges apply "
                 "f once per element in order, sparse ranges pair entries with indices, static and dynamic Hybrid::size/"
                 "elementAt/forEach/accumulate/ifElse/switchCases and the integer_sequence helpers agree.  The one-line "
                 "operator bodies (78 pieces, about 100 source occurrences) are re-read from the headers by a translator on every run and the theorems are "
                 "proved about the generated expressions; each run also executes the same expressions and histories on every "
                 "iterator type the library builds and diffs against the model, with an integer-position oracle.")
MANIFEST_NOTE = ("Trusted: Lean kernel (+propext/Classical.choice/Quot.sound), the translator's reading of the operator bodies "
                 "(canonical form on grid-equivalence - exact integers on a grid that follows the literals of the body, plus an 8 bit "
                 "grid where a machine difference occurs; a piece it cannot read breaks the obligation translator_read_all_bodies; "
                 "before comparing, a body is normalised: this-> dropped, const locals with a side-effect free initialiser inlined "
                 "(by-value locals of a named type as a cast to that type), guard clauses / if-else chains / braces / ?: read as one "
                 "value with compile-time conditions selecting the branch pieces, calls of sibling operators of the same class "
                 "replaced by the sibling's own translated body with cycle detection; loops, modified locals, statements with an "
                 "effect before a return, unknown calls and a second update of the position are not normalised and alarm), the hand-written "
                 "rest of the model (differential run only), g++/libstdc++ iterators as base iterators, ASan/UBSan.  Overload "
                 "selection (which facade operator / Hybrid overload the compiler picks) is a compile-time fact the model "
                 "takes as given; integer wrap-around is modelled where the operator bodies form a difference of iterators or cast "
                 "to difference_type (E.wsub, width taken from the iterator kind); values, positions and step counts inside a "
                 "range are representable in its type by construction.  The model describes the code after "
                 "fixes/C16_facade_order_by_base.patch (IteratorFacade < <= > >= forwarded to comparable base iterators).")
TECHNIQUE = ("Lean 4 proof over facade-derivation model whose operator bodies are translated from the headers on every run + "
             "differential correspondence on all library iterator kinds (single expressions and operation histories) with "
             "integer-position oracle")
TRANSLATORS = [tr_c16.translate]
HARNESS = dict(
    sources=["cxx_c16.cc"],
    repo_sources=["dune/common/exceptions.cc", "dune/common/stdstreams.cc"],
    # the harness instantiates ~42 iterator kinds; -O0/-g1 keeps its compile time at ~35 s (sanitizers stay on)
    flags=["-O0", "-g1"],
)
RULE = ("cases: one iterator expression (++, --, +=, -=, +, -, n+it, [], *, index(), -, ==, !=, <, <=, >, >=) x iterator kind "
        "(DynamicVector/FieldVector iterators, DynamicMatrix/FieldMatrix/DiagonalMatrix row iterators, ArrayList with erased "
        "prefix, SLList iterator/ModifyIterator, GenericIterator on all three legacy facades, IndexedIterator over "
        "vector/list/forward_list, IntegralRange over 7 integral types incl. bounds at the type limits, transformed ranges "
        "over vector/list/forward_list/IntegralRange, sparse range) x container size 0..12 x position(s) begin..end (and "
        "before-begin where offered) x step count of either sign x const/mutable operands; whole-range enumerations; hybrid "
        "helpers on tuple/TupleVector/array/integer_sequence/static ranges vs vectors; round 2: operation histories of up "
        "to 24 stepping operators on one iterator object, mutable->const conversion, beforeEnd()/find(), operator->, "
        "ModifyIterator x iterator, ArrayList after purge(), IndexedIterator over DenseIterator, an IteratorFacade client "
        "without base iterator (+= branch of ++/--), TransformedRangeIterator with a function object, unsigned ranges "
        "straddling the signed maximum (u8/u32/u64 incl. values >= 2^63), range(to)/pair constructors, "
        "TransformedRangeView size/empty/[], sparseRange over DiagonalMatrix rows, three-argument switchCases, "
        "integralRange(end), integer_sequence get/front/back/head/tail/push_*/size/empty/contains/difference/equal/sorted.  "
        "round 4: integral ranges of ANY extent of the eight integral types (bounds/values at the type limits, distances around "
        "and beyond max(difference_type)): six comparisons + difference of two IntegralRangeIterators (itcmp) and of two "
        "iterators of a transformed range over the integral range (tcmp), it+n / n+it / += / [] / - / -= with n up to "
        "max(difference_type) on both (itadv, tadv), size/contains/empty of such ranges; 128 bit oracle.  "
        "distinct = distinct op lines; "
        "non-trivial = oracle-checked (malformed lines answer bad-op and are trivial)")
ASSUMPTIONS = [
    "the operator bodies of lean/DuneVerif/Gen/C16.lean are regenerated from the headers by tools/translators/tr_c16.py "
    "(a body that agrees with its canonical form on an integer/boolean grid is emitted in canonical form; a body the "
    "translator cannot read is emitted in canonical form and listed in Gen.unparsed, which the obligation "
    "translator_read_all_bodies requires to be empty).  Tolerated spellings of a body (round five; all by normalisation, "
    "none by pattern of a particular patch): renamed / hoisted const locals (inlined where the initialiser is free of "
    "side effects and nothing it reads is modified afterwards), this->member, braces, if/else vs guard clause vs "
    "conditional expression (also on the compile-time is_convertible / models<> conditions, also negated), a>b vs b<a, "
    "!(x<y) vs x>=y and every other boolean/linear-integer identity (grid), an operator written through a sibling "
    "operator of the same class (IntegralRangeIterator comparisons, n+a / a+n / a-n, it[n] as *(it+n); "
    "RandomAccessIteratorFacade + / - / += / -= through each other or on a copy of any name; facade != through ==; "
    "IntegralRange empty() through size()).  Everything outside (loops, a modified local, an unknown call, bit "
    "operations, an integer valued ?: that is not equivalent to the canonical form, operators that reach themselves) "
    "raises the alarm without a failing input; the rest of "
    "lean/DuneVerif/Model/C16.lean (which primitive an operator calls, loops, IndexedIterator, hybrid helpers) is "
    "hand-written and its fidelity rests on this differential run",
    "iterators of std::vector/std::list/std::forward_list used as base iterators behave as positions (trusted libstdc++)",
    "values and step counts inside a range are representable in its value/difference type; wrap-around is modelled for the "
    "difference of two IntegralRangeIterators and for differences/casts to difference_type inside their comparison bodies "
    "(E.wsub)",
    "which overload / is_convertible branch the compiler selects for a kind is tabulated in the driver (kinfo), not derived",
    "the model describes the repaired IntegralRangeIterator (fixes/C16_integralrange_strict_order.patch, applied to /repo as 781d470: "
    "< and > strict; fixes/C16_integralrange_diff_overflow.patch: difference formed in the unsigned type) and the repaired "
    "IteratorFacade (fixes/C16_facade_order_by_base.patch: < <= > >= compare the base iterators where the derived class "
    "exports comparable ones)",
    "SLList nodes have pairwise distinct addresses (hypothesis Nodup of sll_iterator_is_position)",
]
TRUSTED = ["g++/libstdc++, ASan/UBSan", "tools/translators/tr_c16.py (reading of one-line operator bodies)", "harness/cxx_c16.cc (type-erased law checker, integer oracle) + Driver/C16.lean parsing/printing"]


def batches(tier, seed):
    n = 40000 if tier == "quick" else 1200000
    parts = 4 if tier == "quick" else 12
    return [dict(args=["--seed", str(seed * 1000 + i), "--cases", str(n // parts), "--tier", tier], tag="g%d" % i,
                 timeout=(600 if tier == "quick" else 3000)) for i in range(parts)]


def search_batches(seed):
    return [dict(args=["--seed", str(seed * 7919 + 17 + i), "--cases", "150000"], timeout=900) for i in range(3)]
