"""C16 — iterators, ranges and hybrid loops visit exactly the intended elements, lawfully."""

from translators import tr_c16

PID = "C16"
CLAIM = True
MANIFEST_TEXT = ("Lean 4 theorems over a model in which an iterator is (container, position) and every public operator is derived "
                 "exactly as iteratorfacades.hh derives it (legacy Forward/Bidirectional/RandomAccess facades incl. both "
                 "is_convertible branches, the new IteratorFacade over a base iterator, the hand-written IntegralRangeIterator, "
                 "IndexedIterator): ++/-- inverse, it+n / it+=n / it[n] = n single steps, (a+n)-a = n, the six comparisons = "
                 "position order (a strict order), const/mutable equality; IntegralRange enumerates from..to-1, transformed "
                 "ranges apply f once per element in order, sparse ranges pair entries with indices, static and dynamic "
                 "Hybrid::size/elementAt/forEach/accumulate/ifElse/switchCases agree.  Each run executes the same expressions "
                 "on every iterator type the library builds and diffs against the model, with an integer-position oracle.")
MANIFEST_NOTE = ("Trusted: Lean kernel (+propext/Classical.choice/Quot.sound), the hand-written model's fidelity (differential "
                 "run only), g++/libstdc++ iterators as base iterators, ASan/UBSan.  Overload selection (which facade operator / "
                 "Hybrid overload the compiler picks) is a compile-time fact the model takes as given; integer wrap-around of "
                 "narrow integral types is outside the model (positions and differences are assumed representable).")
TECHNIQUE = "Lean 4 proof over facade-derivation model + differential correspondence on all library iterator kinds with integer-position oracle"
TRANSLATORS = [tr_c16.translate]
HARNESS = dict(
    sources=["cxx_c16.cc"],
    repo_sources=["dune/common/exceptions.cc", "dune/common/stdstreams.cc"],
    # the harness instantiates ~35 iterator kinds; -O0/-g1 keeps its compile time at ~25 s (sanitizers stay on)
    flags=["-O0", "-g1"],
)
RULE = ("cases: one iterator expression (++, --, +=, -=, +, -, n+it, [], *, index(), -, ==, !=, <, <=, >, >=) x iterator kind "
        "(DynamicVector/FieldVector iterators, DynamicMatrix/FieldMatrix/DiagonalMatrix row iterators, ArrayList with erased "
        "prefix, SLList iterator/ModifyIterator, GenericIterator on all three legacy facades, IndexedIterator over "
        "vector/list/forward_list, IntegralRange over 7 integral types incl. bounds at the type limits, transformed ranges "
        "over vector/list/forward_list/IntegralRange, sparse range) x container size 0..12 x position(s) begin..end (and "
        "before-begin where offered) x step count of either sign x const/mutable operands; whole-range enumerations; hybrid "
        "helpers on tuple/TupleVector/array/integer_sequence/static ranges vs vectors.  distinct = distinct op lines; "
        "non-trivial = oracle-checked (malformed lines answer bad-op and are trivial)")
ASSUMPTIONS = [
    "the Lean model lean/DuneVerif/Model/C16.lean is hand-written; its fidelity to iteratorfacades.hh, rangeutilities.hh, "
    "indexediterator.hh and hybridutilities.hh rests on this differential run",
    "iterators of std::vector/std::list/std::forward_list used as base iterators behave as positions (trusted libstdc++)",
    "positions, step counts and differences stay representable in the iterator's value/difference type (no wrap-around modelled)",
    "which overload / is_convertible branch the compiler selects for a kind is tabulated in the driver (kinfo), not derived",
    "the model describes the repaired IntegralRangeIterator (fixes/C16_integralrange_strict_order.patch, applied to /repo as 781d470): < and > strict",
]
TRUSTED = ["g++/libstdc++, ASan/UBSan", "harness/cxx_c16.cc (type-erased law checker, integer oracle) + Driver/C16.lean parsing/printing"]


def batches(tier, seed):
    n = 40000 if tier == "quick" else 1200000
    parts = 4 if tier == "quick" else 12
    return [dict(args=["--seed", str(seed * 1000 + i), "--cases", str(n // parts), "--tier", tier], tag="g%d" % i,
                 timeout=(600 if tier == "quick" else 3000)) for i in range(parts)]


def search_batches(seed):
    return [dict(args=["--seed", str(seed * 7919 + 17 + i), "--cases", "150000"], timeout=900) for i in range(3)]
