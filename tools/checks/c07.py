"""C07 — collectives and MPI marshalling reproduce the rank-order fold / the originals."""
from translators import tr_c07

PID = "C07"
CLAIM = True
MANIFEST_TEXT = ("Lean 4 theorems for all process counts, lengths, displacements and typemaps: a transfer with a "
                 "datatype moves exactly the typemap's blocks (arrays stride by the extent); the datatype built for "
                 "IndexPair is exactly {global index, attribute}, for pairs/FieldVector/bigunsignedint all members; "
                 "gatherv with prefix-sum displacements is the concatenation in rank order and scatterv inverts it; "
                 "every reduction tree over any permutation equals the rank-order fold for associative-commutative "
                 "ops; the sequential stand-in equals the one-process specification for each of its 16 collectives; "
                 "MPIPack round-trips every sequence of static / size-prefixed / nested items and its growth rule "
                 "leaves room for what MPI_Pack writes.  Each run executes the real Communication<MPI_Comm>, "
                 "Communication<No_Comm>, MPIPack, send/recv/rrecv and MPITraits datatypes on 1-4 (thorough 1-7) "
                 "ranks for 12 element types and compares them with the model and with an oracle computed from the "
                 "op line.")
MANIFEST_NOTE = ("Partial: MPI itself is trusted (a transfer moves the typemap's blocks; reductions with a commutative "
                 "op fold in some order and bracketing; MPI_Unpack inverts MPI_Pack; reliable pairwise-FIFO delivery) "
                 "- these appear as definitions (transfer, Spec.*, Codec).  The theorems are about the wrapper logic "
                 "and the message-level specification; model fidelity rests on the differential runs (P<=7, lengths "
                 "<=5).  The sequential stand-in copies whole objects where MPI copies only the communicated members "
                 "(IndexPair, ParallelLocalIndex): agreement is claimed and checked on the communicated state.")
TECHNIQUE = "Lean 4 proof over cell-level model of typemaps, collectives and MPIPack + MPI differential correspondence with a fold oracle"
TRANSLATORS = [tr_c07.translate]
HARNESS = dict(
    sources=["mpi_c07.cc", "pmpi_sched.cc"],
    mpi=True,
    repo_sources=["dune/common/exceptions.cc", "dune/common/stdstreams.cc"],
)
RULE = ("cases: collective (sum/prod/min/max/user functor in 7 call forms, broadcast, gather(v), scatter(v), "
        "allgather(v), barrier; blocking, future-based and scalar forms) on world / MPI_COMM_SELF / sequential "
        "stand-in x element type {int,long,double,complex,FieldVector<int,3>,bigunsignedint<96>,pair<int,char>,"
        "IndexPair,ParallelLocalIndex} x root x lengths 0..5 (rank dependent for the v-variants, displacement layouts "
        "compact/gaps/reversed/overlapping reads) with boundary values; point-to-point rings (isend/recv/rrecv/irecv, "
        "scalar/vector/string); MPIPack histories (0..6 items: scalar, std::array, vector, string; local, saved "
        "positions, nested, sent, irecv with reserve, broadcast); decoded MPI typemaps + byte-level transfers; "
        "distinct = distinct op lines; non-trivial = every case except barriers and refused (unsupported) combinations")
ASSUMPTIONS = [
    "MPI (Open MPI) is trusted: transfers move exactly the typemap's blocks, reductions with commutative ops fold the "
    "contributions in some order/bracketing, MPI_Unpack inverts MPI_Pack, delivery is reliable and pairwise FIFO",
    "the Lean model lean/DuneVerif/Model/C07.lean is hand-written at cell level (one cell per scalar member); its "
    "fidelity to mpicommunication.hh / communication.hh / mpipack.hh / mpidata.hh / mpitraits.hh rests on this "
    "differential run",
    "reductions are exercised without signed overflow (sums bounded by INT_MAX/8 per rank etc.); doubles hold integers",
    "non-blocking variants are observed after get()/wait(); the future protocol itself belongs to C19",
    "process counts 1-4 (quick) / 1-7 (thorough), lengths 0..5",
]
TRUSTED = ["mpicxx/libstdc++, ASan/UBSan, Open MPI 4.1", "harness/mpi_c07.cc (cell conversion, oracle) + Driver/C07.lean parsing/printing",
           "harness/pmpi_sched.cc"]


def batches(tier, seed):
    if tier == "quick":
        plan = [(1, 1200), (2, 1200), (3, 900), (4, 900)]
        to = 600
    else:
        plan = [(1, 12000), (2, 12000), (3, 9000), (4, 9000), (5, 6000), (6, 5000), (7, 4000)]
        to = 3000
    return [dict(args=["--seed", str(seed * 100 + p), "--cases", str(n), "--tier", tier], np=p, tag="np%d" % p,
                 timeout=to) for (p, n) in plan]


def search_batches(seed):
    return [dict(args=["--seed", str(seed * 7919 + 17 + p), "--cases", "6000"], np=p, timeout=1500) for p in (1, 2, 3)]
