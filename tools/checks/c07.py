"""C07 — collectives and MPI marshalling reproduce the rank-order fold / the originals."""
from translators import tr_c07

PID = "C07"
CLAIM = True
MANIFEST_TEXT = ("Lean 4 theorems for all process counts, lengths, displacements and typemaps: a transfer with a "
                 "datatype moves exactly the typemap's blocks (arrays stride by the extent, which the resize step makes "
                 "sizeof for pair/IndexPair/ParallelLocalIndex whatever the members are); struct/contiguous/resized "
                 "compose for arbitrarily nested members; the datatype built for IndexPair is exactly {global index, "
                 "attribute}, for pairs/FieldVector/bigunsignedint all members; the ComposeMPITraits / ComposeMPIOp "
                 "tables of the current sources map every C++ type / functor to the handle the MPI standard defines for "
                 "it, every predefined operation of ComposeMPIOp is one MPI defines on every datatype of ComposeMPITraits "
                 "(builtin_ops_defined: no logical/byte type may become is_intrinsic), and user functors are registered as non-commutative with the operand order MPI prescribes; the lazily "
                 "created singletons (one MPI_Op per (element type, functor), one MPI_Datatype per type) are history "
                 "independent: in the current sources (table re-extracted on every run) every template parameter the "
                 "creation of a handle depends on selects its static storage, hence after any sequence of calls every call "
                 "obtains the handle its own create() would have built; "
                 "gather(v)/allgather(v) are the concatenation in rank order (gatherv for any displacement layout: "
                 "the covering segment wins, other cells untouched), scatter(v) hands out the chunks and inverts "
                 "gather(v), broadcast leaves the root's buffer everywhere, stated for every rank; allreduce is, element "
                 "by element, any reduction tree over any permutation (associative-commutative ops) resp. any bracketing "
                 "in rank order (merely associative user functors) = the rank-order fold; with a cell-wise functor every "
                 "cell of the result is the rank-order fold of that cell, so reducing a FieldVector/std::vector through "
                 "MPIData's container view (functor on the entries) equals reducing the whole objects; the sequential stand-in, as "
                 "re-translated body by body from the current communication.hh, equals the one-process specification for "
                 "each of its collectives (on the communicated cells for partially communicated types), is rank 0 of 1 and "
                 "refuses point-to-point calls; MPIPack round-trips every sequence of static / size-prefixed / nested "
                 "items and its growth rule leaves room for what MPI_Pack writes; receive with size discovery returns "
                 "the sent elements with the sent length in every ring; R4: the straight-line construction block of every "
                 "MPITraits<...>::getType() (FieldVector, bigunsignedint, std::pair, ParallelLocalIndex, IndexPair, byte fallback) "
                 "is executed symbolically on every run and, for every instantiation (member typemaps, offsets, sizeof, counts), "
                 "denotes the model's typemap constructor, hence the datatype the current code builds for ParallelLocalIndex "
                 "transfers the attribute only, the one for IndexPair exactly global index and attribute, arrays of pairs stride "
                 "by sizeof(pair), FieldVector/bigunsignedint all components/digits; every member function body of "
                 "Communication<MPI_Comm> is executed symbolically into the MPI call it issues (function, buffers, counts, "
                 "datatypes, root, op, delegations, the probe-count-resize-receive sequence of rrecv) and equals the "
                 "specification table; every call fits the MPI signature, describes every buffer by the datatype of its own "
                 "elements and reduces with the MPI_Op of the element type its datatype describes; the counts of "
                 "igather/iscatter/iallgather are the per-rank sizes for all sizes and process counts.  Each run executes the real "
                 "Communication<MPI_Comm>, Communication<No_Comm>, MPIPack, send/recv/rrecv (with and without status) and "
                 "MPITraits datatypes on 1-4 (thorough 1-7) ranks for 30 element types (all intrinsic types of "
                 "mpitraits.hh, byte-fallback types incl. bool / signed char / long long / unsigned long long with the four "
                 "named reductions in scalar, array, in-place and in/out form, padded and nested pairs, FieldVector<int,3/2> and of pairs, "
                 "bigunsignedint<96/40>, IndexPair, ParallelLocalIndex), MPIData container views of std::vector, std::array<T,3>, "
                 "DynamicVector<T> and FieldVector objects in the reductions, single calls and call histories executed in one "
                 "process (one generic functor such as std::plus<> over several element types, several functors on one "
                 "type, the members of one template family, arbitrary mixes), and compares them with the model and with "
                 "an oracle computed from the op line.")
MANIFEST_NOTE = ("Partial: MPI itself is trusted (a transfer moves the typemap's blocks; reductions fold in some order and "
                 "bracketing for commutative ops, in rank order with some bracketing for non-commutative ones; MPI_Unpack "
                 "inverts MPI_Pack; reliable pairwise-FIFO delivery) - these appear as definitions (transfer, Spec.*, Codec, "
                 "Tree).  The theorems are about the wrapper logic and the message-level specification; model fidelity "
                 "rests on the translator (type/op tables, user-op registration, owner of the static storage of every lazily "
                 "created handle, every body of the sequential stand-in, R4: the construction code of the six struct/contiguous "
                 "datatypes and the MPI call of each of the 31 wrapper overloads of Communication<MPI_Comm>; the cell-level "
                 "offsets/sizes at which the driver instantiates the datatypes, MPIData/MPIFuture and MPIPack remain hand-modelled; "
                 "R5: the translator compares meanings, not spellings - locals and parameters are followed by what they denote "
                 "(renaming, const, this->, hoisted const locals, a new local for `a -= b`, reordered independent statements are "
                 "invisible), `create on first use` may be an if-block or a guard clause, the element loop of the user-op callback "
                 "and the copy loops of the stand-in may be index loops, pointer walks, std::copy / std::copy_n or count-down walks, "
                 "index sums are put in a canonical order, `(me==root)*x` = `me==root ? x : 0`, rrecv's status pointer may be "
                 "defaulted by assignment or by a conditional expression; a spelling outside these classes (a private helper "
                 "function, a datatype built in a data-dependent loop, a branch in a wrapper) still raises the alarm "
                 "`no-failing-input-found` although the property may hold) and "
                 "on the differential runs (P<=7, lengths <=5, reductions with user functors beyond 10 kB per contribution so that "
                 "MPI's long-message algorithms run).  The sequential stand-in copies whole objects where MPI copies "
                 "only the communicated members (IndexPair, ParallelLocalIndex): agreement is claimed and checked on the "
                 "communicated state.  Histories start from a fresh process in the model; in a batch the real process has "
                 "the state left by earlier cases (harmless when the singletons are history independent, which is what the "
                 "theorem and the differential run establish).  Generic functors are exercised on types without tail "
                 "padding invisible to MPI; the container views of allreduce(Type&&)/iallreduce (repaired by /repo 708cce0, "
                 "fixes/C07_reduce_container_op.patch) are exercised with functors that also compile when the op is "
                 "instantiated for the container (generic min/max/left/right on std::vector<T>; named and generic "
                 "sum/prod/left/right on the int entries of a FieldVector object), so that a regression shows as a replay.  Known library issue kept out of the generated inputs: Open MPI 4.1 evaluates "
                 "MPI_MIN/MPI_MAX on MPI_UNSIGNED_LONG with a signed comparison (reproduced with a bare MPI_Allreduce), so "
                 "unsigned long operands of min/max stay below 2^63.")
TECHNIQUE = ("Lean 4 proof over cell-level model of typemaps, collectives, MPIPack and the lazily created handle singletons + "
             "translator for the type/op tables, the user-op registration, the singleton storage, the sequential stand-in, the datatype "
             "construction code and the MPI call of every wrapper (symbolic execution of straight-line bodies) + "
             "MPI differential correspondence (single calls and call histories) with a fold oracle")
TRANSLATORS = [tr_c07.translate]
HARNESS = dict(
    sources=["mpi_c07.cc", "pmpi_sched.cc"],
    mpi=True,
    repo_sources=["dune/common/exceptions.cc", "dune/common/stdstreams.cc"],
    # -g1: line tables only (sanitizer reports still carry file:line); -flto=8: the one big translation unit is code-generated in
    # parallel (78 s -> 23 s wall for 27 element types)
    flags=["-g1", "-flto=8"],
)
RULE = ("cases: call history (2-6 op lines of the kinds below executed in one process: one generic functor - std::plus<>, "
        "std::multiplies<>, std::bit_xor<>, templated min/max/left/right - over 2-4 element types; 2-4 typed functors on one "
        "element type; typemap decodes and transfers within one template family FieldVector<K,n> / bigunsignedint<k> / "
        "pair<T1,T2> / byte fallback / index types; any mix; all 27 typemaps in a row) or collective (sum/prod/min/max/user functors incl. associative non-commutative ones in 7 call forms "
        "+ container views vector<T> / FieldVector object with functors on the entries, std::array<T,3> / DynamicVector<T> with predefined ops, "
        "broadcast, gather(v), scatter(v), allgather(v), barrier; blocking, future-based and scalar forms) on world / "
        "MPI_COMM_SELF / sequential stand-in x element type {int,long,double,complex<double>,FieldVector<int,3>,"
        "bigunsignedint<96>,pair<int,char>,pair<long long,char>,IndexPair,ParallelLocalIndex; reduced call set: unsigned "
        "char,short,unsigned short,unsigned,unsigned long,float,long double,complex<float>,complex<long double>,long long,"
        "POD struct,pair<pair<long long,char>,short>,FieldVector<pair<long long,char>,2>,bigunsignedint<40>,FieldVector<int,2>,"
        "pair<int,short>} x root x "
        "lengths 0..5 (just beyond 10 kB per contribution, 650..2900 elements, for a share of the user-functor reductions; rank dependent for the v-variants, "
        "displacement layouts compact/gaps/reversed/overlapping reads) with boundary values; point-to-point rings "
        "(isend/recv/rrecv/irecv, scalar/vector/string, with and without MPI_Status); MPIPack histories (0..6 items: scalar, "
        "std::array, vector, string; <</>> and write/read; local with resize/enlarge/eof, saved positions, nested, sent, "
        "irecv with reserve, broadcast); decoded MPI typemaps + byte-level transfers of 1..4 elements (extent = sizeof, "
        "lb = 0); rank/size/barrier/conversions/refused calls; distinct = distinct op lines; non-trivial = every case "
        "except barriers and refused (unsupported) combinations")
ASSUMPTIONS = [
    "MPI (Open MPI) is trusted: transfers move exactly the typemap's blocks, reductions with commutative ops fold the "
    "contributions in some order/bracketing, with non-commutative ops in rank order with some bracketing, MPI_Unpack "
    "inverts MPI_Pack, delivery is reliable and pairwise FIFO",
    "the Lean model lean/DuneVerif/Model/C07.lean is hand-written at cell level (one cell per scalar member); the type and "
    "op tables, the user-op registration, the storage of the lazily created handles, the bodies of the sequential stand-in, the construction code of the datatypes and the MPI call of every wrapper of Communication<MPI_Comm> are re-translated from the sources on "
    "every run (lean/DuneVerif/Gen/C07.lean; R5: modulo renaming of locals / parameters / data members, const, this->, guard "
    "clause vs if-block, index loop vs pointer walk vs std::copy(_n), hoisted const locals, commuted sums and factors, "
    "`(me==root)*x` vs `me==root ? x : 0`; roles of int parameters (root, tag, peer) are taken from their position in the "
    "public signature; negative element counts are outside the quantifier, so `i != n` and `i < n` are identified); "
    "the rest of its fidelity to mpicommunication.hh / mpipack.hh / mpidata.hh / "
    "mpitraits.hh rests on this differential run",
    "reductions are exercised without signed overflow (sums bounded by MAX/8 per rank etc.); floating-point types hold "
    "integers small enough to be exact; unsigned long operands of min/max stay below 2^63 (Open MPI bug, see note)",
    "collectives are called within their documented preconditions (matching send/receive counts, non-overlapping gatherv "
    "segments, root < P)",
    "non-blocking variants are observed after get()/wait(); the future protocol itself belongs to C19",
    "generic functors (one functor type for several element types) are default-constructible and stateless, as "
    "Generic_MPI_Op requires of every functor; they are applied to element types without tail padding invisible to MPI",
    "the MPIData-based reductions allreduce(Type&&)/iallreduce on containers (std::vector, FieldVector object) behave as "
    "after fixes/C07_reduce_container_op.patch: the functor is applied to the entries",
    "process counts 1-4 (quick) / 1-7 (thorough), lengths 0..5 (user-functor reductions up to 2900 elements)",
]
TRUSTED = ["mpicxx/libstdc++ (-O1 -flto), ASan/UBSan, Open MPI 4.1", "harness/mpi_c07.cc (cell conversion, oracle) + Driver/C07.lean parsing/printing",
           "harness/pmpi_sched.cc", "tools/translators/tr_c07.py (statement grammar for the stand-in's bodies; recognition of the three storage shapes "
           "static data member / function-local static / reference to a variable (template); R4: the statement grammars of the two symbolic "
           "executors - declarations, MPI_Get_address pairs / offsetof, MPI_Type_contiguous/create_struct/create_resized/commit/free; "
           "MPIData/MPIFuture views, local ints as products/quotients, one MPI call or one delegation per wrapper - and the canonical "
           "alphabetical order given to struct members; R5: the normalisations listed in MANIFEST_NOTE - each is an equivalence of C++ "
           "spellings argued in design_notes/C07.md `Round five`, and each has negative tests there (a pointer that is dereferenced "
           "but not advanced, a bound other than *len, a swapped difference, a short index loop, a negated guard, a status pointer "
           "used before it is defaulted ... fail loudly))"]
CORPUS_TIMEOUT = 600


def batches(tier, seed):
    if tier == "quick":
        plan = [(1, 1200), (2, 1200), (3, 900), (4, 900)]
        to = 600
    else:
        plan = [(1, 12000), (2, 12000), (3, 9000), (4, 9000), (5, 6000), (6, 5000), (7, 4000)]
        to = 3000
    return [dict(args=["--seed", str(seed * 100 + p), "--cases", str(n), "--tier", tier], np=p, tag="np%d" % p,
                 timeout=to) for (p, n) in plan]


def search_batches(seed):
    return [dict(args=["--seed", str(seed * 7919 + 17 + p), "--cases", "6000"], np=p, timeout=1500) for p in (1, 2, 3)]
