#!/bin/sh
# runs the pinned suite with the verification guard (DUNE_COMMON_VERIF) OFF: the normal build of /repo/_build
set -e
export OMPI_ALLOW_RUN_AS_ROOT=1 OMPI_ALLOW_RUN_AS_ROOT_CONFIRM=1 OMPI_MCA_rmaps_base_oversubscribe=1
cmake --build /repo/_build -- -k 0 >/dev/null 2>&1 || cmake --build /repo/_build
cmake --build /repo/_build --target build_tests >/dev/null 2>&1 || true
ctest --test-dir /repo/_build -j8 --timeout 900
