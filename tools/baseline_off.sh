#!/bin/sh
# runs the pinned suite with the verification guard (DUNE_COMMON_VERIF) OFF: the normal build of /repo/_build
set -e
cmake --build /repo/_build -- -k 0 >/dev/null 2>&1 || cmake --build /repo/_build
cmake --build /repo/_build --target build_tests >/dev/null 2>&1 || true
ctest --test-dir /repo/_build -j8 --timeout 900
