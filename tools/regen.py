#!/usr/bin/env python3
"""regen.py <Cxx>: re-run the property's translators against $VERIF_REPO (default /repo) and rewrite lean/DuneVerif/Gen."""
import importlib
import os
import sys
sys.path.insert(0, os.path.dirname(os.path.abspath(__file__)))
import dvlib as L
cfg = importlib.import_module("checks." + sys.argv[1].lower())
for tr in getattr(cfg, "TRANSLATORS", []):
    for path, content in tr(L.REPO):
        if L.write_if_changed(os.path.join(L.LEAN, path), content):
            print("rewrote", path)
