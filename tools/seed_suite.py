#!/usr/bin/env python3
"""seed_suite.py <scratch suite tree> <seeded id>...: development aid.  Runs the repository's whole suite with each seeded
change applied (tools/mut_confirm.sh in the given scratch tree, one at a time) and records the outcome in
seeded/<id>/meta.json (confirmed.suite_passes_with_change)."""
import json, os, subprocess, sys
V = os.path.dirname(os.path.dirname(os.path.abspath(__file__)))
tree = sys.argv[1]
for sid in sys.argv[2:]:
    d = os.path.join(V, "seeded", sid)
    r = subprocess.run(["sh", os.path.join(V, "tools", "mut_confirm.sh"), os.path.join(d, "patch.diff")],
                       env=dict(os.environ, MUTCONFIRM_DIR=tree), stdout=subprocess.PIPE, stderr=subprocess.STDOUT, text=True)
    m = json.load(open(os.path.join(d, "meta.json")))
    m.setdefault("confirmed", {})["suite_passes_with_change"] = (r.returncode == 0)
    m["confirmed"]["suite_tail"] = r.stdout[-500:]
    json.dump(m, open(os.path.join(d, "meta.json"), "w"), indent=1)
    print(sid, "suite", "pass" if r.returncode == 0 else "FAIL", flush=True)
