#!/usr/bin/env python3
"""seed_regress.py [ids...]: re-run every seeded change (seeded/<id>/patch.diff) against the CURRENT checks and the
current /repo HEAD and record the outcome in seeded/<id>/meta.json under "final".  A patch that no longer applies
because /repo moved on (fix commits) is retried with `git apply --3way`; if that fails too it is reported as
needs-rebase.  If the property's own check misses the change, the checks of other properties anchored in the patched
files are tried as well (a change filed under one property may be the subject of another)."""
import json, os, re, subprocess, sys, time
V = os.path.dirname(os.path.dirname(os.path.abspath(__file__)))
DST = os.environ.get("SEED_DST", os.path.join(V, "seeded"))
props = {json.loads(l)["id"]: json.loads(l) for l in open(os.path.join(V, "properties.jsonl"))}
def sh(cmd, **kw):
    return subprocess.run(cmd, shell=True, stdout=subprocess.PIPE, stderr=subprocess.STDOUT, text=True, **kw)
def run_check(pid, wt):
    out = "/tmp/sr_out_%d" % os.getpid()
    sh("rm -rf %s" % out)
    env = dict(os.environ, VERIF_REPO=wt, VERIF_BUILD=out + "/build", VERIF_OUT=out)
    t0 = time.time()
    r = subprocess.run(["python3", os.path.join(V, "tools", "check.py"), pid], cwd=V, env=env,
                       stdout=subprocess.PIPE, stderr=subprocess.STDOUT, text=True, timeout=7200)
    viol = [l for l in r.stdout.split("\n") if l.startswith("VIOLATION")]
    reps = []
    for l in viol[:3]:
        m = re.search(r"replay=(\S+)", l)
        if m and os.path.exists(os.path.join(out, m.group(1))):
            try:
                j = json.load(open(os.path.join(out, m.group(1))))
                reps.append({"ops": j.get("ops"), "kind": j.get("kind"), "message": (j.get("message") or "")[:200]})
            except Exception:
                pass
    sh("rm -rf %s" % out)
    env2 = dict(os.environ, VERIF_REPO="/repo")
    subprocess.run(["python3", os.path.join(V, "tools", "regen.py"), pid], cwd=V, env=env2, stdout=subprocess.DEVNULL, stderr=subprocess.DEVNULL)
    return {"property": pid, "exit": r.returncode, "violations": len(viol),
            "concrete": any("no-failing-input-found" not in l for l in viol), "replays": reps,
            "wall_s": round(time.time() - t0, 1), "tail": r.stdout[-300:]}
ids = sys.argv[1:] or sorted(d for d in os.listdir(DST) if os.path.exists(os.path.join(DST, d, "patch.diff")))
head = sh("git -C /repo rev-parse --short HEAD").stdout.strip()
for sid in ids:
    d = os.path.join(DST, sid)
    meta = json.load(open(os.path.join(d, "meta.json")))
    pid = meta["breaks_property"]
    wt = "/tmp/sr_wt_%d" % os.getpid()
    sh("git -C /repo worktree remove --force %s" % wt); sh("git -C /repo worktree add --detach %s HEAD" % wt)
    ap = sh("git -C %s apply %s" % (wt, os.path.join(d, "patch.diff")))
    how = "git apply"
    if ap.returncode != 0:
        ap = sh("git -C %s apply --3way %s" % (wt, os.path.join(d, "patch.diff")))
        how = "git apply --3way"
        if ap.returncode != 0 or "conflicts" in ap.stdout:
            meta["final"] = {"repo_head": head, "applied": False, "note": "needs-rebase: " + ap.stdout[-200:]}
            json.dump(meta, open(os.path.join(d, "meta.json"), "w"), indent=1)
            print(sid, "NEEDS-REBASE"); sh("git -C /repo worktree remove --force %s" % wt); continue
    res = [run_check(pid, wt)]
    caught = res[0]["exit"] == 1 and res[0]["violations"] > 0
    if not caught:
        files = set(re.findall(r"^\+\+\+ b/(\S+)", open(os.path.join(d, "patch.diff")).read(), re.M))
        for q, pr in props.items():
            if q != pid and files & set(pr["anchors"]["files"]):
                r2 = run_check(q, wt); res.append(r2)
                if r2["exit"] == 1 and r2["violations"] > 0:
                    caught = True; break
    meta["final"] = {"repo_head": head, "applied": True, "applied_with": how, "caught": caught,
                     "caught_by": [r["property"] for r in res if r["exit"] == 1 and r["violations"] > 0],
                     "concrete_input": any(r["concrete"] for r in res if r["exit"] == 1), "runs": res}
    json.dump(meta, open(os.path.join(d, "meta.json"), "w"), indent=1)
    print(sid, "caught by " + ",".join(meta["final"]["caught_by"]) if caught else "MISSED", "concrete" if meta["final"]["concrete_input"] else "")
    sys.stdout.flush()
    sh("git -C /repo worktree remove --force %s" % wt)
