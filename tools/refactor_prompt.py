#!/usr/bin/env python3
"""refactor_prompt.py <Cxx> <wave>: development aid.  Like seeder_prompt.py, but asks an independent sub-agent for
behaviour-preserving refactorings (to test that the checks do not raise alarms with a concrete replay on code where the
property holds).  Worktree /tmp/refwt_<Cxx>_<wave>, output /tmp/refout_<Cxx>_<wave>, prompt /tmp/refprompt_<Cxx>_<wave>.txt."""
import json, os, subprocess, sys
V = os.path.dirname(os.path.dirname(os.path.abspath(__file__)))
pid, wave = sys.argv[1], sys.argv[2]
p = [json.loads(l) for l in open(os.path.join(V, "properties.jsonl")) if json.loads(l)["id"] == pid][0]
wt, out = "/tmp/refwt_%s_%s" % (pid, wave), "/tmp/refout_%s_%s" % (pid, wave)
subprocess.run("git -C /repo worktree remove --force %s; git -C /repo worktree add --detach %s HEAD" % (wt, wt),
               shell=True, stdout=subprocess.DEVNULL, stderr=subprocess.DEVNULL)
os.makedirs(out, exist_ok=True)
text = "Title: %s\n\nStatement: %s\n\nQuantified over (%s): %s\n\nAnchor files: %s\n\nMechanisms: %s\n\nObservable at: %s" % (
    p["title"], p["statement"], ", ".join(p["quantifier"]["over"]), p["quantifier"]["text"],
    ", ".join(p["anchors"]["files"]),
    "; ".join("%s (%s)" % (m["name"], m["where"]) for m in p["anchors"].get("mechanism", [])),
    "; ".join(p["anchors"].get("observe_at", [])))
t = open(os.path.join(V, "tools", "prompt_refactor.txt")).read()
t = t.replace("@@WT@@", wt).replace("@@OUT@@", out).replace("@@PFX@@", "rf%s%s" % (pid.lower(), wave)).replace("@@PROPERTY@@", text)
f = "/tmp/refprompt_%s_%s.txt" % (pid, wave)
open(f, "w").write(t)
print(f)
