#!/bin/sh
# freeze.sh: make/refresh a frozen copy of the committed /verif (with the built .lake) under /tmp/vfrozen for
# evaluating seeded changes while builders keep editing the live tree.
set -e
rm -rf /tmp/vfrozen
git -C /verif worktree prune
git -C /verif worktree add --detach /tmp/vfrozen HEAD >/dev/null
rsync -a /verif/lean/.lake /tmp/vfrozen/lean/
mkdir -p /tmp/vfrozen/build
echo frozen at $(git -C /tmp/vfrozen rev-parse --short HEAD)
