#!/bin/sh
# development aid: tools/seed_wave.sh <Cxx> <wave>  — evaluates /tmp/seedout_<Cxx>_<wave>/m1..m3 (demo both ways + the
# property's check as committed, run from the evaluation clone /tmp/verif_eval so that builders working in /verif are
# not disturbed); results stored under /verif/seeded/<Cxx>_<wave>mK.  The suite confirmation is done separately (seed_suite.py).
P=$1; W=$2
for k in 1 2 3; do
  d=/tmp/seedout_${P}_${W}/m$k
  [ -f $d/patch.diff ] || { echo "$P $W m$k: no patch"; continue; }
  SEED_DST=/verif/seeded python3 /tmp/verif_eval/tools/seed_eval.py $P $d ${P}_${W}m$k --skip-suite 2>&1 | tail -3
done
