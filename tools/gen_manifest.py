#!/usr/bin/env python3
"""Writes MANIFEST.json from tools/manifest_src.json (claimed checks) + properties.jsonl (everything else goes to
not_applicable with the recorded reason)."""
import json
import os

V = os.path.dirname(os.path.dirname(os.path.abspath(__file__)))
import importlib
import sys
sys.path.insert(0, os.path.join(V, "tools"))
src = json.load(open(os.path.join(V, "tools", "manifest_src.json")))
for f in sorted(os.listdir(os.path.join(V, "tools", "checks"))):
    if f.startswith("c") and f.endswith(".py"):
        cfg = importlib.import_module("checks." + f[:-3])
        if getattr(cfg, "CLAIM", False) and cfg.PID in src.get("integrated", []):
            src["claimed"][cfg.PID] = {"text": cfg.MANIFEST_TEXT, "note": cfg.MANIFEST_NOTE, "technique": cfg.TECHNIQUE}
        elif hasattr(cfg, "NOT_CLAIMED_REASON"):
            src["not_claimed"][cfg.PID] = cfg.NOT_CLAIMED_REASON
props = [json.loads(l)["id"] for l in open(os.path.join(V, "properties.jsonl"))]
checks = []
na = []
for pid in props:
    c = src["claimed"].get(pid)
    if c:
        checks.append({
            "property_id": pid,
            "quick_cmd": "python3 tools/check.py %s --tier quick" % pid,
            "thorough_cmd": "python3 tools/check.py %s --tier thorough" % pid,
            "evidence_file": "evidence/%s.json" % pid,
            "replay_cmd_template": "python3 tools/check.py %s --replay {path}" % pid,
            "engine": "lean4+correspondence",
            "level_claimed": {"category": "proof", "text": c["text"], "design_ref": c.get("design_ref", "DESIGN.md section 5, " + pid)},
            "level_note": c["note"],
            "technique": c["technique"],
        })
    else:
        na.append({"property_id": pid, "reason": src["not_claimed"].get(pid, "check not built yet in this round; no claim is made")})
m = {
    "version": 1,
    "setup_cmd": "python3 tools/setup.py",
    "hooks": {
        "guard": "DUNE_COMMON_VERIF",
        "enable": "harnesses are compiled by tools/check.py against /repo's working tree with -DDUNE_COMMON_VERIF (no source hook is currently needed; the define is set for future instrumentation)",
        "baseline_off_cmd": "sh tools/baseline_off.sh",
        "source_commits": src.get("hook_commits", []),
        "add_only": True,
    },
    "engines": [{
        "name": "lean4+correspondence", "path": "tools/check.py",
        "serves_properties": [c["property_id"] for c in checks],
        "kind_free_text": "Lean 4 theorems about executable models (lean/DuneVerif), models tied to the current source by translators (tools/translators) and by differential correspondence harnesses (harness/*.cc) with independent property oracles",
    }],
    "checks": checks,
    "not_applicable": na,
    "notes": src.get("notes", ""),
}
json.dump(m, open(os.path.join(V, "MANIFEST.json"), "w"), indent=1)
print("claimed:", [c["property_id"] for c in checks])
