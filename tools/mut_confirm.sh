#!/bin/sh
# development aid: confirm that a seeded change compiles and passes the repo's own suite.
#   tools/mut_confirm.sh <patch.diff>      (uses the persistent scratch tree /tmp/mutconfirm with its own _build)
set -u
PATCH=$(readlink -f "$1")
export OPENBLAS_NUM_THREADS=1 OMP_NUM_THREADS=1 OMPI_ALLOW_RUN_AS_ROOT=1 OMPI_ALLOW_RUN_AS_ROOT_CONFIRM=1 OMPI_MCA_rmaps_base_oversubscribe=1
MC=${MUTCONFIRM_DIR:-/tmp/mutconfirm}
cd "$MC" || exit 3
git checkout -q -- . ; git apply "$PATCH" || { echo "patch does not apply"; exit 3; }
cmake --build _build --target build_tests -- -j4 > $MC.build.log 2>&1 || { echo "BUILD FAILED"; tail -20 $MC.build.log; git checkout -q -- .; exit 1; }
ctest --test-dir _build -j4 --timeout 900 > $MC.ctest.log 2>&1
RC=$?
tail -6 $MC.ctest.log
git checkout -q -- .
exit $RC
