#!/usr/bin/env python3
"""ref_eval.py <Cxx> <wave> [clone]: development aid.  Evaluates the behaviour-preserving refactorings
/tmp/refout_<Cxx>_<wave>/h1..h3 (written by an independent sub-agent that saw only the property text) against the
property's check, run from the evaluation clone (default /tmp/verif_eval) against a scratch worktree of /repo HEAD with
the patch applied.  Expected: exit 0, or only `no-failing-input-found` VIOLATION lines (a tie that no longer checks
although no failing input exists — allowed by the interface, but recorded).  A VIOLATION with a concrete replay on a
harmless refactoring is a FALSE ALARM and must be repaired in the machinery.  Results: harmless/<Cxx>_<wave>hK/."""
import json, os, shutil, subprocess, sys, time
V = os.path.dirname(os.path.dirname(os.path.abspath(__file__)))
pid, wave = sys.argv[1], sys.argv[2]
clone = sys.argv[3] if len(sys.argv) > 3 else "/tmp/verif_eval"
for k in (1, 2, 3):
    src = "/tmp/refout_%s_%s/h%d" % (pid, wave, k)
    if not os.path.exists(os.path.join(src, "patch.diff")):
        print(pid, wave, "h%d: no patch" % k); continue
    name = "%s_%sh%d" % (pid, wave, k)
    dst = os.path.join(V, "harmless", name)
    os.makedirs(dst, exist_ok=True)
    for f in ("patch.diff", "README.md"):
        if os.path.exists(os.path.join(src, f)):
            shutil.copy(os.path.join(src, f), dst)
    t0 = time.time()
    c = subprocess.run(["sh", os.path.join(clone, "tools", "mut_run.sh"), pid, os.path.join(dst, "patch.diff")],
                       stdout=subprocess.PIPE, stderr=subprocess.STDOUT, text=True, timeout=7200)
    viol = [l for l in c.stdout.split("\n") if l.startswith("VIOLATION")]
    concrete = [l for l in viol if "no-failing-input-found" not in l]
    verdict = "quiet" if c.returncode == 0 and not viol else ("tie-broken-no-failing-input" if viol and not concrete else
              ("FALSE-ALARM-with-replay" if concrete else "exit-%d-without-violation" % c.returncode))
    meta = {"id": name, "property": pid, "kind": "behaviour-preserving refactoring (independent sub-agent, property text only)",
            "repo_head": subprocess.run(["git", "-C", "/repo", "rev-parse", "--short", "HEAD"], capture_output=True, text=True).stdout.strip(),
            "check": {"exit": c.returncode, "violation_lines": viol[:6], "verdict": verdict, "wall_s": round(time.time() - t0, 1),
                      "output_tail": c.stdout[-2500:]}}
    json.dump(meta, open(os.path.join(dst, "meta.json"), "w"), indent=1)
    print(name, verdict, flush=True)
