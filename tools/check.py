#!/usr/bin/env python3
"""check.py <Cxx> [--tier quick|thorough] [--replay file] : single entry point (DESIGN.md 2.2)."""
import argparse
import hashlib
import importlib
import json
import os
import re
import sys
import time
import traceback

sys.path.insert(0, os.path.dirname(os.path.abspath(__file__)))
import dvlib as L  # noqa: E402


class Ctx:
    pass


def sig(line):
    return hashlib.sha1(line.encode()).hexdigest()


def classify(st):
    """per-line verdicts: list of (idx, kind, msg) for kind in propfail|mismatch|crash"""
    res = []
    n = len(st.ops)
    for i in range(n):
        if st.crashed is not None and i == st.crashed:
            res.append((i, "crash", st.crashlog[-1500:]))
            break
        if i >= len(st.impl) or i >= len(st.oracle):
            break
        o = st.oracle[i]
        if not o.startswith("ok"):
            res.append((i, "propfail", o))
            continue
        if st.model is not None:
            m = st.model[i] if i < len(st.model) else "<model produced no line>"
            if m != st.impl[i]:
                res.append((i, "mismatch", "impl=%s model=%s" % (st.impl[i][:400], m[:400])))
    return res


def run_lines(cfg, binary, lines, tag, np=None, timeout=300):
    """replay explicit op lines through implementation and model"""
    base = os.path.join(L.BUILD, "%s_%s" % (cfg.PID, tag))
    with open(base + ".rops", "w") as fh:
        fh.write("".join(l + "\n" for l in lines))
    st, rc = L.run_harness(binary, ["--replay", base + ".rops"], base, mpi_np=np, timeout=timeout)
    st.ops = lines
    try:
        st.model, _, _ = L.run_model(cfg.PID, lines)
    except Exception as ex:  # model driver unavailable
        st.model = None
    return st


def shrink(cfg, binary, line, kind, np=None, budget=60):
    """delta-debug the ';'-separated segments of one op line, keeping the same failure kind"""
    if ";" not in line:
        return line
    head, _, rest = line.partition(" : ") if " : " in line else ("", "", line)
    segs = [s for s in rest.split(";")]
    t0 = time.time()

    def fails(ss):
        cand = (head + " : " if head else "") + ";".join(ss)
        st = run_lines(cfg, binary, [cand], "shrink", np=np, timeout=60)
        v = classify(st)
        return bool(v) and v[0][1] == kind

    n = 2
    while len(segs) >= 2 and time.time() - t0 < budget:
        chunk = max(1, len(segs) // n)
        reduced = False
        for i in range(0, len(segs), chunk):
            cand = segs[:i] + segs[i + chunk:]
            if cand and fails(cand):
                segs = cand
                n = max(n - 1, 2)
                reduced = True
                break
        if not reduced:
            if chunk == 1:
                break
            n = min(len(segs), n * 2)
    return (head + " : " if head else "") + ";".join(segs)


def main():
    ap = argparse.ArgumentParser()
    ap.add_argument("pid")
    ap.add_argument("--tier", default=os.environ.get("VERIF_TIER", "quick"))
    ap.add_argument("--replay")
    ap.add_argument("--no-lean", action="store_true", help="development only: skip proof step")
    a = ap.parse_args()
    pid = a.pid.upper()
    tier = a.tier if a.tier in ("quick", "thorough") else "quick"
    # VERIF_SEED: one integer; anything else (a list, text) must not make the check die: the first integer in it is used
    _m = re.search(r"-?\d+", os.environ.get("VERIF_SEED", "1") or "1")
    seed = int(_m.group(0)) if _m else 1
    t0 = time.time()
    cfg = importlib.import_module("checks." + pid.lower())
    findings = L.load_findings(pid)
    violations = []   # (kind, replay_obj, suffix)
    known = []
    broken = []       # names of obligations / correspondences that no longer check
    notes = []

    # ---- 1. translate -------------------------------------------------------------------------
    for tr in getattr(cfg, "TRANSLATORS", []):
        try:
            for path, content in tr(L.REPO):
                L.write_if_changed(os.path.join(L.LEAN, path), content)
        except Exception as ex:
            broken.append("translator:%s (%s)" % (tr.__name__, str(ex)[:300]))

    # ---- 2. prove ---------------------------------------------------------------------------------
    thms = L.obligations(pid)
    discharged = 0
    axioms_seen = set()
    lean_log = ""
    drv_ok = True
    if not a.no_lean:
        hits = L.grep_forbidden(pid)
        if hits:
            broken.append("forbidden-construct:" + "; ".join(hits[:5]))
        ok, out, dt = L.lake_build(["DuneVerif.Props." + pid])
        lean_log = out[-4000:]
        ok2, out2, dt2 = L.lake_build(["dv_" + pid.lower()])
        drv_ok = ok2
        if not ok2:
            broken.append("driver-build:dv_%s" % pid.lower())
            lean_log += out2[-3000:]
        if ok:
            res, auditout = L.audit_axioms(pid, thms)
            for t in thms:
                good, ax = res[t]
                axioms_seen.update(ax)
                if good and not hits:
                    discharged += 1
                else:
                    broken.append("theorem:%s axioms=%s" % (t, ax))
        else:
            # find which declarations failed
            errs = re.findall(r"error: (\S+?:\d+:\d+): (.*)", out)
            broken.append("lake-build:DuneVerif.Props.%s %s" % (pid, "; ".join("%s %s" % e for e in errs[:4])[:600]))
        if tier == "thorough" and ok:
            okc, outc = L.leanchecker("DuneVerif.Props." + pid)
            if not okc:
                broken.append("leanchecker:DuneVerif.Props.%s %s" % (pid, outc[-300:]))
            notes.append("leanchecker DuneVerif.Props.%s: %s" % (pid, "ok" if okc else "FAILED"))
    else:
        discharged = len(thms)

    # ---- 3. correspond ----------------------------------------------------------------------------
    h = cfg.HARNESS
    binary = os.path.join(L.BUILD, "h_" + pid.lower())
    okc, outc, dtc = L.compile_harness(
        pid, h["sources"], binary, extra_flags=h.get("flags", ()), mpi=h.get("mpi", False),
        repo_sources=h.get("repo_sources", ()), libs=h.get("libs", ()), sanitize=h.get("sanitize", True))
    evaluations = 0
    distinct = set()
    samples = []
    traces = 0
    dist = {}
    all_bad = []  # (line, kind, msg, np)
    if not okc:
        broken.append("harness-compile:%s %s" % (h["sources"][0], outc[-800:]))
    else:
        if a.replay:
            rp = json.load(open(a.replay))
            lines = rp.get("ops", [])
            st = run_lines(cfg, binary, lines, "replay", np=rp.get("np"))
            for i, l in enumerate(lines):
                print("op:     ", l)
                print("impl:   ", st.impl[i] if i < len(st.impl) else "<crash>")
                print("model:  ", st.model[i] if st.model and i < len(st.model) else "<none>")
                print("oracle: ", st.oracle[i] if i < len(st.oracle) else "<crash>")
            v = classify(st)
            print("verdict:", v if v else "holds on this replay")
            sys.exit(1 if v else 0)

        batches = []
        cdir = os.path.join(L.VERIF, "corpus", pid)
        if os.path.isdir(cdir):
            for f in sorted(os.listdir(cdir)):
                if f.endswith(".ops"):
                    npv = None
                    mm = __import__("re").search(r"\.np(\d+)\.ops$", f)
                    if mm:
                        npv = int(mm.group(1))
                    batches.append(dict(replay=os.path.join(cdir, f), np=npv, tag="corpus_" + f[:-4],
                                        timeout=getattr(cfg, "CORPUS_TIMEOUT", 300)))
        for b in cfg.batches(tier, seed):
            batches.append(b)
        for bi, b in enumerate(batches):
            tag = b.get("tag", "b%d" % bi)
            base = os.path.join(L.BUILD, "%s_%s" % (pid, tag))
            if "replay" in b:
                args = ["--replay", b["replay"]]
            else:
                args = list(b["args"])
            st, rc = L.run_harness(binary, args, base, mpi_np=b.get("np"), timeout=b.get("timeout", 900),
                                   env=b.get("env"))
            if drv_ok and st.ops:
                try:
                    st.model, mrc, merr = L.run_model(pid, st.ops)
                    if mrc != 0:
                        notes.append("model driver rc=%s %s" % (mrc, merr[-300:]))
                except Exception as ex:
                    broken.append("driver-run:%s" % str(ex)[:200])
            n_done = min(len(st.impl), len(st.oracle))
            evaluations += n_done
            for i in range(n_done):
                if st.oracle[i] == "ok" or (st.oracle[i].startswith("ok") and "trivial" not in st.oracle[i]):
                    distinct.add(sig(st.ops[i]))
                if st.model is not None and i < len(st.model) and st.model[i] == st.impl[i]:
                    traces += 1
            if st.ops and len(samples) < 6:
                k = min(len(st.ops), n_done) - 1
                if k >= 0:
                    samples.append({"op": st.ops[k][:600], "impl": st.impl[k][:300],
                                    "model": (st.model[k][:300] if st.model and k < len(st.model) else None),
                                    "np": b.get("np")})
            sp = base + ".stats"
            if os.path.exists(sp):
                try:
                    for k, v in json.load(open(sp)).items():
                        dist[k] = dist.get(k, 0) + v if isinstance(v, (int, float)) else v
                except Exception:
                    pass
            for (i, kind, msg) in classify(st):
                all_bad.append((st.ops[i] if i < len(st.ops) else "<no op line>", kind, msg, b.get("np")))
            if st.crashed is not None and not any(k == "crash" for (_, k, _, _) in all_bad):
                all_bad.append(("<harness died outside an op> rc=%s" % rc, "crash", st.crashlog[-1500:], b.get("np")))
            if len(all_bad) > 50:
                break

    # ---- 4. judge -----------------------------------------------------------------------------
    crash_is_violation = getattr(cfg, "CRASH_IS_VIOLATION", True)
    mism = []
    seen_keys = set()
    for (line, kind, msg, npv) in all_bad:
        if kind in ("propfail", "crash"):
            what = L.match_finding(findings, line, msg)
            if what is not None:
                if what not in known:
                    known.append(what)
                continue
            if kind == "crash" and not crash_is_violation:
                mism.append((line, kind, msg, npv))
                continue
            small = line
            if okc and len(violations) < 3:
                try:
                    small = shrink(cfg, binary, line, kind, np=npv)
                except Exception:
                    small = line
            key = sig(small)
            if key in seen_keys:
                continue
            seen_keys.add(key)
            if len(violations) < 5:
                violations.append((kind, {"property": pid, "kind": kind, "ops": [small], "original": line,
                                          "np": npv, "message": msg, "seed": seed, "tier": tier,
                                          "replay_cmd": "python3 tools/check.py %s --replay <this file>" % pid}, ""))
        else:
            mism.append((line, kind, msg, npv))

    if (mism or broken) and not violations:
        # correspondence or obligation broken without a property failure so far: search harder
        found = None
        if okc and hasattr(cfg, "search_batches"):
            for b in cfg.search_batches(seed):
                base = os.path.join(L.BUILD, "%s_search" % pid)
                st, rc = L.run_harness(binary, list(b["args"]), base, mpi_np=b.get("np"), timeout=b.get("timeout", 600))
                for (i, kind, msg) in classify(st):
                    if kind in ("propfail", "crash") and i < len(st.ops):
                        if L.match_finding(findings, st.ops[i], msg) is None:
                            found = (st.ops[i], kind, msg, b.get("np"))
                            break
                if found:
                    break
        if found:
            small = shrink(cfg, binary, found[0], found[1], np=found[3])
            violations.append((found[1], {"property": pid, "kind": found[1], "ops": [small], "np": found[3],
                                          "message": found[2], "found_by": "search after broken " +
                                          ("correspondence" if mism else "obligation"), "broken": broken,
                                          "seed": seed, "tier": tier}, ""))
        else:
            first = mism[0] if mism else None
            obj = {"property": pid, "kind": "no-failing-input-found",
                   "broken_obligations": broken,
                   "broken_correspondence": ("corr_%s: first differing case" % pid) if first else None,
                   "ops": [first[0]] if first else [], "np": first[3] if first else None,
                   "message": first[2] if first else "", "lean_log_tail": lean_log[-2500:],
                   "n_mismatches": len(mism), "seed": seed, "tier": tier}
            violations.append(("broken", obj, " no-failing-input-found"))

    cov = {
        "obligations": len(thms), "discharged": discharged,
        "checker_cmd": "cd lean && lake build DuneVerif.Props.%s && lake env lean ../build/Audit_%s.lean  (#print axioms per theorem)%s"
                       % (pid, pid, "; lake env leanchecker DuneVerif.Props.%s" % pid if tier == "thorough" else ""),
        "trusted_base": ["Lean 4.33.0 kernel", "axioms used: " + (", ".join(sorted(axioms_seen)) or "none"),
                         "statement files lean/DuneVerif/Props/%s.lean" % pid] + list(getattr(cfg, "TRUSTED", [])),
        "theorems": thms,
        "evaluations": evaluations, "distinct_nontrivial": len(distinct),
        "rule": getattr(cfg, "RULE", ""),
        "samples": samples, "traces_validated_against_impl": traces,
        "distribution": dist, "broken": broken, "notes": notes,
        "known_findings_hit": known,
    }
    L.write_evidence(pid, tier, seed, cov, time.time() - t0, len(violations), list(getattr(cfg, "ASSUMPTIONS", [])))
    for what in known:
        print("KNOWN-FINDING: property=%s %s" % (pid, what))
    for (kind, obj, suffix) in violations:
        path = L.write_replay(pid, obj)
        print("VIOLATION property=%s replay=%s%s" % (pid, path, suffix))
    L.log("[%s %s] obligations %d/%d, cases %d (distinct nontrivial %d, model==impl %d), violations %d, %.1fs"
          % (pid, tier, discharged, len(thms), evaluations, len(distinct), traces, len(violations), time.time() - t0))
    if broken:
        L.log("broken:", broken)
    sys.exit(1 if violations else 0)


if __name__ == "__main__":
    try:
        main()
    except SystemExit:
        raise
    except Exception:
        traceback.print_exc()
        sys.exit(2)
