#!/usr/bin/env python3
"""ref_rerun.py <clone> <harmless id>...: development aid.  Re-runs stored behaviour-preserving refactorings
(harmless/<id>/patch.diff) against the CURRENT check of their property (run from the given clone of /verif) and records
the outcome in harmless/<id>/meta.json under "final"."""
import json, os, subprocess, sys, time
V = os.path.dirname(os.path.dirname(os.path.abspath(__file__)))
clone = sys.argv[1]
for name in sys.argv[2:]:
    d = os.path.join(V, "harmless", name)
    m = json.load(open(os.path.join(d, "meta.json")))
    t0 = time.time()
    c = subprocess.run(["sh", os.path.join(clone, "tools", "mut_run.sh"), m["property"], os.path.join(d, "patch.diff")],
                       stdout=subprocess.PIPE, stderr=subprocess.STDOUT, text=True, timeout=7200)
    viol = [l for l in c.stdout.split("\n") if l.startswith("VIOLATION")]
    concrete = [l for l in viol if "no-failing-input-found" not in l]
    verdict = "quiet" if c.returncode == 0 and not viol else ("tie-broken-no-failing-input" if viol and not concrete else
              ("FALSE-ALARM-with-replay" if concrete else "exit-%d-without-violation" % c.returncode))
    m["final"] = {"exit": c.returncode, "violation_lines": viol[:6], "verdict": verdict, "wall_s": round(time.time() - t0, 1),
                  "repo_head": subprocess.run(["git", "-C", "/repo", "rev-parse", "--short", "HEAD"], capture_output=True, text=True).stdout.strip(),
                  "output_tail": c.stdout[-1500:]}
    json.dump(m, open(os.path.join(d, "meta.json"), "w"), indent=1)
    print(name, verdict, flush=True)
