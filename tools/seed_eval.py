#!/usr/bin/env python3
"""seed_eval.py <Cxx> <dir with patch.diff, demo.*, build_and_run.sh, README.md> <name>
Confirms an independently written seeded change and stores it under seeded/<name>/ with meta.json:
  1. demonstration passes on the unchanged tree and fails with the change (scratch worktree of /repo HEAD)
  2. the change compiles and the repo's own suite still passes (tools/mut_confirm.sh, persistent tree /tmp/mutconfirm)
  3. our check for the property is run against the changed tree (tools/mut_run.sh)
Nothing is ever applied to /repo."""
import json, os, shutil, subprocess, sys, time
V = os.path.dirname(os.path.dirname(os.path.abspath(__file__)))
pid, src, name = sys.argv[1], os.path.abspath(sys.argv[2]), sys.argv[3]
skip_suite = "--skip-suite" in sys.argv
patch = os.path.join(src, "patch.diff")
def sh(cmd, **kw):
    return subprocess.run(cmd, shell=True, stdout=subprocess.PIPE, stderr=subprocess.STDOUT, text=True, **kw)
wt = "/tmp/seedeval_%d" % os.getpid()
sh("git -C /repo worktree add --detach %s HEAD" % wt)
env = dict(os.environ, OMPI_ALLOW_RUN_AS_ROOT="1", OMPI_ALLOW_RUN_AS_ROOT_CONFIRM="1", OMPI_MCA_rmaps_base_oversubscribe="1")
bar = os.path.join(src, "build_and_run.sh")
r0 = subprocess.run(["sh", bar, wt], cwd=src, stdout=subprocess.PIPE, stderr=subprocess.STDOUT, text=True, env=env, timeout=1800)
ap = sh("git -C %s apply %s" % (wt, patch))
r1 = subprocess.run(["sh", bar, wt], cwd=src, stdout=subprocess.PIPE, stderr=subprocess.STDOUT, text=True, env=env, timeout=1800)
sh("git -C /repo worktree remove --force %s" % wt)
demo_ok = (r0.returncode == 0 and r1.returncode != 0 and ap.returncode == 0)
print("demo: unchanged rc=%d, changed rc=%d, patch applies=%s" % (r0.returncode, r1.returncode, ap.returncode == 0))
suite = None
if not skip_suite:
    s = sh("sh %s/tools/mut_confirm.sh %s" % (V, patch), timeout=7200)
    suite = (s.returncode == 0)
    print("suite:", "pass" if suite else "FAIL", s.stdout[-400:])
t0 = time.time()
c = sh("sh %s/tools/mut_run.sh %s %s" % (V, pid, patch), timeout=7200)
viol = [l for l in c.stdout.split("\n") if l.startswith("VIOLATION")]
print("check: rc=%d, %d VIOLATION lines" % (c.returncode, len(viol)))
dst = os.path.join(os.environ.get("SEED_DST", os.path.join(V, "seeded")), name)
os.makedirs(dst, exist_ok=True)
for f in os.listdir(src):
    if os.path.isfile(os.path.join(src, f)) and os.path.getsize(os.path.join(src, f)) < 200000:
        shutil.copy(os.path.join(src, f), dst)
replays = [l for l in c.stdout.split("\n") if '"ops"' in l or '"message"' in l or (l.strip().startswith('"') and "ops" not in l and len(l) < 300 and l.strip().endswith('"'))]
meta = {
    "id": name, "breaks_property": pid,
    "needs_to_manifest": open(os.path.join(src, "README.md")).read()[:1500] if os.path.exists(os.path.join(src, "README.md")) else "",
    "written_by": "independent sub-agent given only the property text and a scratch worktree",
    "confirmed": {
        "repo_head": subprocess.run(["git", "-C", "/repo", "rev-parse", "--short", "HEAD"], capture_output=True, text=True).stdout.strip(),
        "demo_passes_unchanged": r0.returncode == 0, "demo_fails_with_change": r1.returncode != 0,
        "demo_output_with_change_tail": r1.stdout[-600:],
        "suite_passes_with_change": suite,
        "suite_cmd": "tools/mut_confirm.sh (cmake --build build_tests + ctest -j8 in scratch tree /tmp/mutconfirm; python bindings off)",
    },
    "check": {"cmd": "tools/mut_run.sh %s seeded/%s/patch.diff" % (pid, name), "exit": c.returncode,
              "violation_lines": viol[:6], "caught": c.returncode == 1 and bool(viol),
              "with_concrete_input": any("no-failing-input-found" not in l for l in viol),
              "wall_s": round(time.time() - t0, 1), "output_tail": c.stdout[-1800:]},
}
json.dump(meta, open(os.path.join(dst, "meta.json"), "w"), indent=1)
print("stored", dst, "caught" if meta["check"]["caught"] else "MISSED", "demo_ok" if demo_ok else "DEMO-NOT-CONFIRMED")
