#!/usr/bin/env python3
"""Shared machinery of the dune-common verification checks (see DESIGN.md section 2).

One check run =
  1. translate  : regenerate lean/DuneVerif/Gen/* from the current source tree ($VERIF_REPO or /repo)
  2. prove      : lake build the property's theorem module and line-protocol driver, audit axioms,
                  grep for sorry/admit/axiom/native_decide/...
  3. correspond : compile the harness against the *current* headers/.cc files, let it generate cases and
                  run the real code (ops / impl / oracle streams), pipe the same ops to the Lean model
                  driver, diff.
  4. judge      : oracle failure -> VIOLATION with shrunk replay (or KNOWN-FINDING);
                  model/impl disagreement or broken obligation -> search for failing input, else
                  VIOLATION ... no-failing-input-found.
"""
import hashlib
import json
import os
import re
import shutil
import subprocess
import sys
import time

VERIF = os.path.dirname(os.path.dirname(os.path.abspath(__file__)))
REPO = os.environ.get("VERIF_REPO", "/repo")
LEAN = os.path.join(VERIF, "lean")
BUILD = os.environ.get("VERIF_BUILD", os.path.join(VERIF, "build"))
# development only (mutation runs): redirect evidence/replays so that registered outputs are not overwritten
OUTROOT = os.environ.get("VERIF_OUT", VERIF)
ALLOWED_AXIOMS = {"propext", "Classical.choice", "Quot.sound"}
FORBIDDEN = re.compile(
    r"\bsorry\b|\badmit\b|^\s*axiom\s|native_decide|bv_decide|implemented_by|\bunsafe\s|maxHeartbeats\s+0\b|@\[extern"
)

GUARD = "DUNE_COMMON_VERIF"
CXXFLAGS = [
    "-std=c++20", "-O1", "-g", "-fno-omit-frame-pointer",
    "-fsanitize=address,undefined", "-fno-sanitize-recover=all",
    "-UNDEBUG", "-D" + GUARD, "-DHAVE_CONFIG_H", "-Wno-deprecated-declarations",
]


def log(*a):
    print(*a, file=sys.stderr, flush=True)


def sh(cmd, **kw):
    kw.setdefault("stdout", subprocess.PIPE)
    kw.setdefault("stderr", subprocess.STDOUT)
    kw.setdefault("text", True)
    return subprocess.run(cmd, **kw)


# ------------------------------------------------------------------------------------------------
# Lean side
# ------------------------------------------------------------------------------------------------

def strip_lean_comments(src):
    """remove -- line comments and /- -/ block comments (nesting aware), keep strings roughly."""
    out = []
    i, n, depth = 0, len(src), 0
    while i < n:
        if src.startswith("/-", i):
            depth += 1
            i += 2
            continue
        if depth and src.startswith("-/", i):
            depth -= 1
            i += 2
            continue
        if depth:
            if src[i] == "\n":
                out.append("\n")
            i += 1
            continue
        if src.startswith("--", i):
            while i < n and src[i] != "\n":
                i += 1
            continue
        if src[i] == '"':
            j = i + 1
            while j < n and src[j] != '"':
                j += 2 if src[j] == "\\" else 1
            out.append('""')
            i = j + 1
            continue
        out.append(src[i])
        i += 1
    return "".join(out)


def lean_files_for(pid):
    """all Lean source files a property's theorems may depend on (own files + Common)."""
    res = []
    for sub in ("Model", "Proofs", "Props", "Gen", "Common"):
        d = os.path.join(LEAN, "DuneVerif", sub)
        for root, _, files in os.walk(d):
            for f in files:
                if not f.endswith(".lean"):
                    continue
                p = os.path.join(root, f)
                rel = os.path.relpath(p, d)
                if sub == "Common" or rel.startswith(pid):
                    res.append(p)
    res.append(os.path.join(LEAN, "Driver", pid + ".lean"))
    return [p for p in res if os.path.exists(p)]


def grep_forbidden(pid):
    hits = []
    for p in lean_files_for(pid):
        txt = strip_lean_comments(open(p).read())
        for ln, line in enumerate(txt.split("\n"), 1):
            if FORBIDDEN.search(line):
                hits.append("%s:%d: %s" % (os.path.relpath(p, VERIF), ln, line.strip()))
    return hits


def lake_build(targets, timeout=3000):
    t0 = time.time()
    r = sh(["lake", "build"] + targets, cwd=LEAN, timeout=timeout)
    return r.returncode == 0, r.stdout, time.time() - t0


def obligations(pid):
    p = os.path.join(LEAN, "obligations", pid + ".json")
    if not os.path.exists(p):
        return []
    return json.load(open(p))["theorems"]


def audit_axioms(pid, thms):
    """#print axioms for every obligation; returns dict thm -> (ok, axioms|error)"""
    os.makedirs(BUILD, exist_ok=True)
    f = os.path.join(BUILD, "Audit_%s.lean" % pid)
    with open(f, "w") as fh:
        fh.write("import DuneVerif.Props.%s\n" % pid)
        for t in thms:
            fh.write('#print axioms %s\n' % t)
    r = sh(["lake", "env", "lean", f], cwd=LEAN, timeout=1200)
    out = r.stdout
    res = {}
    # messages look like: 'thm' depends on axioms: [a, b]   or   'thm' does not depend on any axioms
    flat = re.sub(r"\s+", " ", out)
    for t in thms:
        m = re.search(r"'%s' depends on axioms: \[([^\]]*)\]" % re.escape(t), flat)
        if m:
            ax = {a.strip() for a in m.group(1).split(",") if a.strip()}
            res[t] = (ax <= ALLOWED_AXIOMS, sorted(ax))
            continue
        if re.search(r"'%s' does not depend on any axioms" % re.escape(t), flat):
            res[t] = (True, [])
            continue
        res[t] = (False, ["<not found / error>"])
    return res, out


def leanchecker(module, timeout=1800):
    r = sh(["lake", "env", "leanchecker", module], cwd=LEAN, timeout=timeout)
    return r.returncode == 0, r.stdout[-2000:]


# ------------------------------------------------------------------------------------------------
# C++ side
# ------------------------------------------------------------------------------------------------

def compile_harness(pid, sources, out, extra_flags=(), mpi=False, repo_sources=(), libs=(), sanitize=True):
    """compile harness sources (relative to /verif/harness) + repo .cc files (relative to REPO)"""
    os.makedirs(BUILD, exist_ok=True)
    cxx = "mpicxx" if mpi else "g++"
    flags = list(CXXFLAGS)
    if not sanitize:
        flags = [f for f in flags if "sanitize" not in f]
    cmd = [cxx] + flags + list(extra_flags)
    if mpi:
        cmd += ["-DHAVE_MPI=1"]
    cmd += ["-I" + REPO, "-I" + os.path.join(VERIF, "harness", "include"), "-I" + os.path.join(VERIF, "harness")]
    cmd += [os.path.join(VERIF, "harness", s) for s in sources]
    cmd += [os.path.join(REPO, s) for s in repo_sources]
    cmd += ["-o", out] + list(libs)
    t0 = time.time()
    r = sh(cmd, timeout=1800)
    return r.returncode == 0, r.stdout, time.time() - t0


def read_lines(path):
    if not os.path.exists(path):
        return []
    with open(path, errors="replace") as fh:
        return fh.read().split("\n")[:-1] if os.path.getsize(path) else []


class Streams:
    """the three harness streams + the model stream for one batch of cases"""

    def __init__(self, ops, impl, oracle, model=None, crashed=None, crashlog=""):
        self.ops, self.impl, self.oracle, self.model = ops, impl, oracle, model
        self.crashed = crashed  # index of the op during which the harness died, or None
        self.crashlog = crashlog


def run_harness(binary, args, base, mpi_np=None, timeout=600, env=None):
    """runs harness; it writes base.ops/.impl/.oracle; returns Streams (without model).
    An MPI batch whose every case was answered but whose `mpirun` still returned non-zero (seen under heavy load: a rank
    "exiting improperly" during MPI_Finalize after all work was done) is run once more before it is judged; a failure
    that belongs to the code under test (a destructor, a sanitizer report at exit) shows up again and is reported."""
    st, rc = _run_harness_once(binary, args, base, mpi_np, timeout, env)
    if mpi_np and rc not in (0, -9) and st.ops and len(st.impl) == len(st.ops) == len(st.oracle):
        first = st.crashlog
        st, rc = _run_harness_once(binary, args, base, mpi_np, timeout, env)
        if rc != 0:
            st.crashlog = "(second run of the batch; the first ended: %s)\n%s" % (first[-400:], st.crashlog)
    return st, rc


def _run_harness_once(binary, args, base, mpi_np=None, timeout=600, env=None):
    for ext in (".ops", ".impl", ".oracle"):
        if ext == ".ops" and "--replay" in args:
            continue
        try:
            os.remove(base + ext)
        except FileNotFoundError:
            pass
    cmd = [binary] + args + ["--out", base]
    if mpi_np:
        cmd = ["mpirun", "--allow-run-as-root", "--oversubscribe", "-np", str(mpi_np)] + cmd
    e = dict(os.environ)
    e.setdefault("ASAN_OPTIONS", "detect_leaks=0:abort_on_error=0:exitcode=77")
    e.setdefault("UBSAN_OPTIONS", "print_stacktrace=1:halt_on_error=1:exitcode=77")
    e["OMPI_MCA_rmaps_base_oversubscribe"] = "1"
    e["OMPI_ALLOW_RUN_AS_ROOT"] = "1"
    e["OMPI_ALLOW_RUN_AS_ROOT_CONFIRM"] = "1"
    if env:
        e.update(env)
    crashlog = ""
    rc = 0
    try:
        r = sh(cmd, timeout=timeout, env=e)
        rc = r.returncode
        crashlog = r.stdout[-6000:]
    except subprocess.TimeoutExpired as ex:
        rc = -9
        crashlog = "TIMEOUT after %ss\n" % timeout + ((ex.stdout or "")[-3000:] if isinstance(ex.stdout, str) else "")
        if mpi_np:
            sh(["pkill", "-9", "-f", binary])
    opsf = base + ".ops" if "--replay" not in args else args[args.index("--replay") + 1]
    ops = read_lines(opsf)
    impl = read_lines(base + ".impl")
    oracle = read_lines(base + ".oracle")
    crashed = None
    if rc != 0:
        crashed = min(len(impl), len(oracle))
        if crashed >= len(ops):
            crashed = len(ops) - 1 if ops else 0
    return Streams(ops, impl, oracle, None, crashed, crashlog if rc != 0 else ""), rc


def run_model(pid, ops_lines, timeout=1200):
    drv = os.path.join(LEAN, ".lake", "build", "bin", "dv_" + pid.lower())
    inp = "\n".join(ops_lines) + ("\n" if ops_lines else "")
    r = subprocess.run([drv], input=inp, stdout=subprocess.PIPE, stderr=subprocess.PIPE, text=True, timeout=timeout)
    out = r.stdout.split("\n")
    if out and out[-1] == "":
        out.pop()
    return out, r.returncode, r.stderr[-2000:]


# ------------------------------------------------------------------------------------------------
# known findings
# ------------------------------------------------------------------------------------------------

def load_findings(pid):
    res = []
    p = os.path.join(VERIF, "KNOWN_FINDINGS.txt")
    if not os.path.exists(p):
        return res
    for line in open(p):
        line = line.strip()
        m = re.match(r"finding:\s+property=(\S+)\s+key=/(.*?)/\s+(.*)$", line)
        if m and m.group(1) == pid:
            res.append((re.compile(m.group(2)), m.group(3)))
    return res


def match_finding(findings, op, msg):
    for rx, what in findings:
        if rx.search(op + " ## " + msg):
            return what
    return None


# ------------------------------------------------------------------------------------------------
# evidence / replay
# ------------------------------------------------------------------------------------------------

def write_evidence(pid, tier, seed, coverage, wall, violations, assumptions):
    os.makedirs(os.path.join(OUTROOT, "evidence"), exist_ok=True)
    ev = {
        "property_id": pid, "tier": tier, "seed": seed, "level": "proof",
        "coverage": coverage, "assumptions": assumptions, "wall_s": round(wall, 2),
        "violations": violations,
    }
    with open(os.path.join(OUTROOT, "evidence", pid + ".json"), "w") as fh:
        json.dump(ev, fh, indent=1)


def write_replay(pid, obj):
    d = os.path.join(OUTROOT, "replays", pid)
    os.makedirs(d, exist_ok=True)
    h = hashlib.sha1(json.dumps(obj, sort_keys=True).encode()).hexdigest()[:12]
    p = os.path.join(d, h + ".json")
    with open(p, "w") as fh:
        json.dump(obj, fh, indent=1)
    return os.path.relpath(p, OUTROOT)


def write_if_changed(path, content):
    if os.path.exists(path) and open(path).read() == content:
        return False
    os.makedirs(os.path.dirname(path), exist_ok=True)
    with open(path, "w") as fh:
        fh.write(content)
    return True
