"""Translator for C04 (RemoteIndices).

remoteindices.hh is mostly loops over MPI buffers (hand-written model, tied by the differential run), but the *decisions*
and the *rank arithmetic* of the protocol are one-line expressions.  They are re-read from the current source tree on
every run and emitted as Lean definitions over `Int`/`Bool` (lean/DuneVerif/Gen/C04.lean); the model
(lean/DuneVerif/Model/C04.lean) calls these generated definitions instead of hand-written copies, and the theorems in
Props/C04.lean are proved about them:

  buildRemote          nothing-to-do test, "handle the own message" test, ring-mode test, the ring loop bounds,
                       output/input buffer index of a ring round, destination and source rank of a ring round, the
                       rank a ring message originates from, `sendTwo`
  packEntries          which pairs are published
  unpackIndices        the `fromOurSelf` filter, the "rewind" test
  unpackCreateRemote   the number of local target pairs handed to the merge when two sets were received, the
                       "both lists empty" test
  rebuild / isSynced   the rebuild condition, the isSynced expression, the bookkeeping assignments after a build
  free / setIndexSets  `firstBuild = true`
  setNeighbours / setIndexSets / constructor / setIncludeSelf: the argument replaces the stored configuration unconditionally

C++ `%` is emitted as `Int.tmod` (truncation), `+ - *` on `Int`; nothing is re-interpreted over `Nat`.

Robustness against harmless rewrites (as tr_c16): every piece has a canonical form.  A source expression that parses and
agrees with the canonical form on a grid of assignments is emitted in canonical form (the generated file does not
change, nothing is re-proved); one that parses and differs is emitted as written (the proofs then fail or not, and the
correspondence run looks for the failing input); one that cannot be located or parsed is emitted in canonical form and
listed in `Gen.unparsed` (the tie for that piece then rests on the correspondence run alone).
"""
import itertools
import os
import re


class TranslateError(Exception):
    pass


def strip_comments(src):
    src = re.sub(r"/\*.*?\*/", " ", src, flags=re.S)
    src = re.sub(r"//[^\n]*", "", src)
    return re.sub(r"\s+", " ", src)


TOK = re.compile(r"\s*(?:(\d+)|([A-Za-z_]\w*)|(==|!=|<=|>=|&&|\|\||[-+*%<>!()?:]))")


def tokenize(s):
    toks, i = [], 0
    s = s.strip()
    while i < len(s):
        m = TOK.match(s, i)
        if not m:
            raise TranslateError("cannot tokenize %r" % s[i:i + 24])
        if m.group(1):
            toks.append(("num", int(m.group(1))))
        elif m.group(2):
            w = m.group(2)
            toks.append(("op", {"not": "!", "and": "&&", "or": "||"}[w]) if w in ("not", "and", "or") else ("id", w))
        else:
            toks.append(("op", m.group(3)))
        i = m.end()
    return toks


class P:
    """C expression grammar: ?: < || < && < == != < relational < + - < * % < unary ! - < primary"""

    def __init__(self, text, types):
        self.t = tokenize(text)
        self.i = 0
        self.text = text
        self.types = types  # identifier -> "I" | "B"

    def peek(self):
        return self.t[self.i] if self.i < len(self.t) else ("end", None)

    def eat(self, kind=None, val=None):
        k, v = self.peek()
        if (kind and k != kind) or (val is not None and v != val):
            raise TranslateError("unexpected %r in %r" % (v, self.text))
        self.i += 1
        return v

    def parse(self):
        e = self.cond()
        if self.peek()[0] != "end":
            raise TranslateError("trailing tokens in %r" % self.text)
        return e

    def cond(self):
        c = self.lor()
        if self.peek() == ("op", "?"):
            self.eat()
            a = self.cond()
            self.eat("op", ":")
            b = self.cond()
            return ("ite", c, a, b)
        return c

    def lor(self):
        e = self.land()
        while self.peek() == ("op", "||"):
            self.eat()
            e = ("or", e, self.land())
        return e

    def land(self):
        e = self.eq()
        while self.peek() == ("op", "&&"):
            self.eat()
            e = ("and", e, self.eq())
        return e

    def eq(self):
        e = self.rel()
        while self.peek() in (("op", "=="), ("op", "!=")):
            op = self.eat()
            e = ("cmp", op, e, self.rel())
        return e

    def rel(self):
        e = self.add()
        while self.peek() in [("op", o) for o in ("<", "<=", ">", ">=")]:
            op = self.eat()
            e = ("cmp", op, e, self.add())
        return e

    def add(self):
        e = self.mul()
        while self.peek() in (("op", "+"), ("op", "-")):
            op = self.eat()
            e = ("add" if op == "+" else "sub", e, self.mul())
        return e

    def mul(self):
        e = self.unary()
        while self.peek() in (("op", "*"), ("op", "%")):
            op = self.eat()
            e = ("mul" if op == "*" else "mod", e, self.unary())
        return e

    def unary(self):
        if self.peek() == ("op", "!"):
            self.eat()
            return ("not", self.unary())
        if self.peek() == ("op", "-"):
            self.eat()
            return ("neg", self.unary())
        if self.peek() == ("op", "+"):
            self.eat()
            return self.unary()
        return self.primary()

    def primary(self):
        k, v = self.peek()
        if k == "num":
            self.eat()
            return ("lit", v)
        if k == "op" and v == "(":
            self.eat()
            e = self.cond()
            self.eat("op", ")")
            return e
        if k == "id":
            self.eat()
            if v == "true":
                return ("tt",)
            if v == "false":
                return ("ff",)
            if v in self.types:
                return ("var", v, self.types[v])
            raise TranslateError("unknown identifier %r in %r" % (v, self.text))
        raise TranslateError("unexpected token %r in %r" % (v, self.text))


def sort_of(e):
    k = e[0]
    if k in ("tt", "ff", "not", "and", "or", "cmp"):
        return "B"
    if k in ("lit", "add", "sub", "mul", "mod", "neg"):
        return "I"
    if k == "var":
        return e[2]
    if k == "ite":
        return sort_of(e[2])
    raise TranslateError("bad node %r" % (e,))


def check_types(e):
    k = e[0]
    if k in ("var", "lit", "tt", "ff"):
        return
    if k in ("add", "sub", "mul", "mod"):
        if sort_of(e[1]) != "I" or sort_of(e[2]) != "I":
            raise TranslateError("arithmetic on a boolean")
        check_types(e[1]); check_types(e[2])
    elif k == "neg":
        if sort_of(e[1]) != "I":
            raise TranslateError("arithmetic on a boolean")
        check_types(e[1])
    elif k == "cmp":
        if sort_of(e[2]) != sort_of(e[3]):
            raise TranslateError("comparison of a boolean with an integer")
        if e[1] not in ("==", "!=") and sort_of(e[2]) != "I":
            raise TranslateError("ordering of booleans")
        check_types(e[2]); check_types(e[3])
    elif k == "not":
        if sort_of(e[1]) != "B":
            raise TranslateError("! on an integer")
        check_types(e[1])
    elif k in ("and", "or"):
        if sort_of(e[1]) != "B" or sort_of(e[2]) != "B":
            raise TranslateError("&&/|| on an integer")
        check_types(e[1]); check_types(e[2])
    elif k == "ite":
        if sort_of(e[1]) != "B" or sort_of(e[2]) != sort_of(e[3]):
            raise TranslateError("ill-sorted ?:")
        check_types(e[1]); check_types(e[2]); check_types(e[3])


def tmod(a, b):
    """C++ % (truncation towards zero); b == 0 gives 0 like Lean's Int.tmod"""
    if b == 0:
        return a
    q = abs(a) // abs(b)
    if (a < 0) != (b < 0):
        q = -q
    return a - q * b


def ev(e, env):
    k = e[0]
    if k == "var":
        return env[e[1]]
    if k == "lit":
        return e[1]
    if k == "tt":
        return True
    if k == "ff":
        return False
    if k == "add":
        return ev(e[1], env) + ev(e[2], env)
    if k == "sub":
        return ev(e[1], env) - ev(e[2], env)
    if k == "mul":
        return ev(e[1], env) * ev(e[2], env)
    if k == "mod":
        return tmod(ev(e[1], env), ev(e[2], env))
    if k == "neg":
        return -ev(e[1], env)
    if k == "not":
        return not ev(e[1], env)
    if k == "and":
        return ev(e[1], env) and ev(e[2], env)
    if k == "or":
        return ev(e[1], env) or ev(e[2], env)
    if k == "ite":
        return ev(e[2], env) if ev(e[1], env) else ev(e[3], env)
    if k == "cmp":
        x, y = ev(e[2], env), ev(e[3], env)
        return {"==": x == y, "!=": x != y, "<": x < y, "<=": x <= y, ">": x > y, ">=": x >= y}[e[1]]
    raise TranslateError("bad node %r" % (e,))


GRID_I = (-2, -1, 0, 1, 2, 3, 5, 8)


def equivalent(e1, e2, params, where=None):
    """agreement on a grid of assignments; `where` restricts the grid to the assignments that can occur in the code
    (ranks and rounds are not negative, rank < procs, ...): two forms that differ only outside are the same piece"""
    doms = [GRID_I if t == "I" else (False, True) for (_, t) in params]
    for vals in itertools.product(*doms):
        env = {n: v for (n, _), v in zip(params, vals)}
        if where is not None and not where(env):
            continue
        if ev(e1, env) != ev(e2, env):
            return False
    return True


def lean(e):
    """fully parenthesised Lean term"""
    k = e[0]
    if k == "var":
        return e[1]
    if k == "lit":
        return "(%d : Int)" % e[1]
    if k == "tt":
        return "true"
    if k == "ff":
        return "false"
    if k in ("add", "sub", "mul"):
        return "(%s %s %s)" % (lean(e[1]), {"add": "+", "sub": "-", "mul": "*"}[k], lean(e[2]))
    if k == "mod":
        return "(Int.tmod %s %s)" % (lean(e[1]), lean(e[2]))
    if k == "neg":
        return "(- %s)" % lean(e[1])
    if k == "not":
        return "(!%s)" % lean(e[1])
    if k == "and":
        return "(%s && %s)" % (lean(e[1]), lean(e[2]))
    if k == "or":
        return "(%s || %s)" % (lean(e[1]), lean(e[2]))
    if k == "ite":
        return "(if %s then %s else %s)" % (lean(e[1]), lean(e[2]), lean(e[3]))
    if k == "cmp":
        op = e[1]
        if op in ("==", "!="):
            return "(%s %s %s)" % (lean(e[2]), op, lean(e[3]))
        return "(decide (%s %s %s))" % (lean(e[2]), {"<": "<", "<=": "≤", ">": ">", ">=": "≥"}[op], lean(e[3]))
    raise TranslateError("bad node %r" % (e,))


# ------------------------------------------------------------------------------------------------
# source access
# ------------------------------------------------------------------------------------------------

def body_after(src, pos):
    i = src.index("{", pos)
    depth, j = 0, i
    while j < len(src):
        if src[j] == "{":
            depth += 1
        elif src[j] == "}":
            depth -= 1
            if depth == 0:
                return src[i + 1:j]
        j += 1
    raise TranslateError("unbalanced braces")


def member_bodies(src, name):
    """bodies of all out-of-class definitions `RemoteIndices<T,A>::name(...) {`"""
    out = []
    for m in re.finditer(r"RemoteIndices\s*<\s*T\s*,\s*A\s*>::%s\s*\(" % re.escape(name), src):
        # skip the parameter list
        depth, j = 0, m.end() - 1
        while j < len(src):
            if src[j] == "(":
                depth += 1
            elif src[j] == ")":
                depth -= 1
                if depth == 0:
                    break
            j += 1
        rest = src[j + 1:j + 40].lstrip()
        if rest.startswith("const"):
            rest = rest[5:].lstrip()
        if rest.startswith("{") or rest.startswith(":"):
            out.append(body_after(src, j))
    return out


def subst(text, table):
    for rx, name in table:
        text = re.sub(rx, " %s " % name, text)
    return text


def find_all(rx, text, group=1):
    return [m.group(group) for m in re.finditer(rx, text)]


def paren_arg(text, start):
    """text[start] == '(' ; returns the balanced contents"""
    depth, j = 0, start
    while j < len(text):
        if text[j] == "(":
            depth += 1
        elif text[j] == ")":
            depth -= 1
            if depth == 0:
                return text[start + 1:j], j + 1
        j += 1
    raise TranslateError("unbalanced parentheses")


def if_conditions(body):
    """[(condition text, text following the condition)] for every `if(` in body"""
    res = []
    for m in re.finditer(r"\bif\s*\(", body):
        c, end = paren_arg(body, m.end() - 1)
        res.append((c, body[end:end + 160]))
    return res


class Gen:
    def __init__(self):
        self.defs = []
        self.unparsed = []
        self.lists = []
        self.flags = []

    def piece(self, name, doc, params, canon, occurrences, expect=1, table=(), where=None):
        """params: [(name, 'I'|'B')]; canon and occurrences: expression strings over the parameter names
        (occurrences after applying `table`)"""
        types = dict(params)
        cexpr = P(canon, types).parse()
        check_types(cexpr)
        chosen, status = cexpr, "canonical"
        good = 0
        for occ in occurrences:
            try:
                if isinstance(occ, Exception):
                    raise occ
                e = P(subst(occ, table), types).parse()
                check_types(e)
                if sort_of(e) != sort_of(cexpr):
                    raise TranslateError("expression of the wrong sort: %r" % occ)
                good += 1
                if not equivalent(e, cexpr, params, where) and status == "canonical":
                    chosen, status = e, "as written in the source (differs from the canonical form)"
            except TranslateError as ex:
                self.unparsed.append("%s: %s" % (name, str(ex)[:160]))
        if good < expect and len(occurrences) < expect:
            self.unparsed.append("%s: expected %d occurrences, found %d" % (name, expect, len(occurrences)))
        self.defs.append((name, params, "Bool" if sort_of(cexpr) == "B" else "Int", lean(chosen), doc, status))

    def flag(self, name, doc, found):
        """a fact about a function body; found None = function not located"""
        if found is None:
            self.unparsed.append("%s: not located" % name)
        self.flags.append((name, doc, found))

    def strlist(self, name, doc, canon, found):
        """a list of strings (normalised assignment statements); found None = not located"""
        if found is None:
            self.unparsed.append("%s: not located" % name)
            found = canon
        self.lists.append((name, doc, found, "canonical" if found == canon else "as written in the source"))

    def text(self):
        out = ["-- GENERATED by tools/translators/tr_c04.py from dune/common/parallel/remoteindices.hh -- do not edit",
               "namespace DV.C04.Gen",
               ""]
        for name, params, ty, body, doc, status in self.defs:
            out.append("/-- %s  [%s] -/" % (doc, status))
            ps = " ".join("(%s : %s)" % (n, "Int" if t == "I" else "Bool") for (n, t) in params)
            out.append("def %s %s : %s := %s" % (name, ps, ty, body))
        for name, doc, items, status in self.lists:
            out.append("/-- %s  [%s] -/" % (doc, status))
            out.append("def %s : List String := [%s]" % (name, ", ".join('"%s"' % i.replace('"', "'") for i in items)))
        for name, doc, val in self.flags:
            out.append("/-- %s  [%s] -/" % (doc, "not located" if val is None else "as found in the source"))
            out.append("def %s : Option Bool := %s" % (name, "none" if val is None else ("some true" if val else "some false")))
        out.append("")
        out.append("/-- pieces the translator could not locate or parse (emitted in canonical form above) -/")
        out.append("def unparsed : List String := [%s]" % ", ".join('"%s"' % u.replace("\\", "/").replace('"', "'")
                                                                      for u in self.unparsed))
        out.append("")
        out.append("end DV.C04.Gen")
        return "\n".join(out) + "\n"


def first_or_err(lst, what):
    return lst if lst else [TranslateError("%s not found" % what)]


def top_statements(body):
    """[(statement text without blanks, guarded)] of a function body at brace depth 0.  A statement that is controlled
    by if/else/for/while/do/switch/try (with or without braces) is reported as one item with guarded=True; the
    statements of a plain `{ ... }` block count as top-level statements."""
    out = []
    i, n = 0, len(body)

    def skip_ws(j):
        while j < n and body[j].isspace():
            j += 1
        return j

    def simple_end(j):
        depth = 0
        while j < n:
            c = body[j]
            if c in "([{":
                depth += 1
            elif c in ")]}":
                depth -= 1
            elif c == ";" and depth == 0:
                return j + 1
            j += 1
        return n

    def stmt_end(j):
        """end of the statement starting at j (controlled statements included)"""
        j = skip_ws(j)
        if j >= n:
            return n
        m = re.match(r"(if|for|while|switch)\b", body[j:])
        if m:
            k = skip_ws(j + m.end())
            if k < n and body[k] == "(":
                _, k = paren_arg(body, k)
            k = stmt_end(k)
            k2 = skip_ws(k)
            if m.group(1) == "if" and re.match(r"else\b", body[k2:]):
                k = stmt_end(k2 + 4)
            return k
        if re.match(r"(else|do|try)\b", body[j:]):
            return stmt_end(j + re.match(r"(else|do|try)\b", body[j:]).end())
        if body[j] == "{":
            depth = 0
            while j < n:
                if body[j] == "{":
                    depth += 1
                elif body[j] == "}":
                    depth -= 1
                    if depth == 0:
                        return j + 1
                j += 1
            return n
        return simple_end(j)

    while True:
        i = skip_ws(i)
        if i >= n:
            break
        if body[i] == "{":            # plain block: its statements are unconditional
            e = stmt_end(i)
            out.extend(top_statements(body[i + 1:e - 1]))
            i = e
            continue
        e = stmt_end(i)
        text = re.sub(r"\s+", "", body[i:e])
        guarded = bool(re.match(r"(if|for|while|switch|else|do|try)\b", body[i:]))
        if text.strip(";"):
            out.append((text.rstrip(";"), guarded))
        i = e
    return out


def unconditional(body, rx):
    """True: a top-level unguarded statement matches rx; False: none does (the statement is missing, or only occurs
    under a condition / in a loop)"""
    return any(re.fullmatch(rx, t) for (t, guarded) in top_statements(body) if not guarded)


def param_names(args):
    """names of the parameters of a parameter list (default values dropped)"""
    names = []
    for a in split_args(args):
        a = a.split("=")[0].strip()
        m = re.search(r"(\w+)\s*$", a)
        names.append(m.group(1) if m else "")
    return names


def inclass_body(src, name):
    """(body, parameter names) of a member function defined inside the class: `name(...) {`"""
    for m in re.finditer(r"(?<![\w:>.])%s\s*\(" % re.escape(name), src):
        try:
            args, j = paren_arg(src, m.end() - 1)
        except TranslateError:
            continue
        rest = src[j:j + 40].lstrip()
        if rest.startswith("const"):
            rest = rest[5:].lstrip()
        if rest.startswith("{"):
            return body_after(src, j), param_names(args)
    return "", []


def member_params(src, name):
    """parameter names of the first out-of-class definition `RemoteIndices<T,A>::name(...)`"""
    m = re.search(r"RemoteIndices\s*<\s*T\s*,\s*A\s*>::%s\s*\(" % re.escape(name), src)
    if not m:
        return []
    args, _ = paren_arg(src, m.end() - 1)
    return param_names(args)


def ctor_bodies(src):
    """bodies of the out-of-class constructors `RemoteIndices<T,A>::RemoteIndices(...) : ... {`, keyed by whether
    the constructor takes arguments"""
    res = {}
    for m in re.finditer(r"RemoteIndices\s*<\s*T\s*,\s*A\s*>::RemoteIndices\s*\(", src):
        args, j = paren_arg(src, m.end() - 1)
        k = j
        # skip the member initialiser list: the body is the first `{` that follows a `)` or the parameter list at depth 0
        depth = 0
        while k < len(src):
            c = src[k]
            if c == "(":
                depth += 1
            elif c == ")":
                depth -= 1
            elif c == "{" and depth == 0:
                break
            elif c == ";" and depth == 0:
                k = None
                break
            k += 1
        if k is None or k >= len(src):
            continue
        res["args" if args.strip() else "default"] = (body_after(src, k - 1), param_names(args) if args.strip() else [])
    return res


def assignments(body, names):
    """normalised `lhs=rhs` for simple assignment statements to one of `names`, in source order"""
    res = []
    for st in body.split(";"):
        m = re.fullmatch(r"\s*(\w+)\s*=\s*(.+?)\s*", st)
        if m and m.group(1) in names:
            res.append(m.group(1) + "=" + re.sub(r"\s+", "", m.group(2)))
    return res


def translate(repo):
    src = strip_comments(open(os.path.join(repo, "dune/common/parallel/remoteindices.hh")).read())
    g = Gen()

    def one(name):
        b = member_bodies(src, name)
        return b[0] if b else ""

    build = one("buildRemote")
    ucr = one("unpackCreateRemote")
    rebuild = one("rebuild")
    synced = one("isSynced")
    pack = one("packEntries")
    free = one("free")
    setsets = one("setIndexSets")
    unpacks = member_bodies(src, "unpackIndices")
    unpack1 = next((b for b in unpacks if "fromOurSelf" in b or "oldGlobal" in b), "")

    # ---- buildRemote ---------------------------------------------------------------------------
    conds = if_conditions(build)
    g.piece("nothingToDo", "buildRemote returns at once: `if(procs==1 && !(sendTwo || includeSelf_)) return;`",
            [("procs", "I"), ("sendTwo", "B"), ("includeSelf_", "B")], "procs==1 && !(sendTwo || includeSelf_)",
            first_or_err([c for (c, after) in conds if re.match(r"\s*return\s*;", after)], "early return of buildRemote"),
            where=lambda v: v["procs"] >= 1)
    g.piece("handleSelf", "the own message is unpacked: `if(sendTwo || includeSelf_) unpackCreateRemote(buffer[0], ...)`",
            [("sendTwo", "B"), ("includeSelf_", "B")], "sendTwo || includeSelf_",
            first_or_err([c for (c, after) in conds if re.match(r"\s*unpackCreateRemote\s*\(\s*buffer\s*\[\s*0\s*\]", after)],
                         "self-message test of buildRemote"))
    g.piece("ringMode", "ring algorithm instead of hinted neighbours: `if(neighbourIds.size()==0)`",
            [("nbSize", "I")], "nbSize==0",
            first_or_err([c for (c, _) in conds if "neighbourIds" in c][:1], "ring-mode test"), where=lambda v: v["nbSize"] >= 0,
            table=[(r"neighbourIds\s*\.\s*size\s*\(\s*\)", "nbSize"), (r"neighbourIds\s*\.\s*empty\s*\(\s*\)", "(nbSize==0)")])
    m = re.search(r"for\s*\(\s*int\s+proc\s*=\s*([^;]+);([^;]+);\s*(proc\s*\+\+|\+\+\s*proc)\s*\)", build)
    g.piece("ringFirst", "first ring round: `for(int proc=1; ...`", [], "1", [m.group(1)] if m else [TranslateError("ring loop not found")])
    g.piece("ringCont", "ring loop condition: `proc<procs`", [("proc", "I"), ("procs", "I")], "proc<procs",
            [m.group(2)] if m else [TranslateError("ring loop not found")], where=lambda v: v["proc"] >= 1 and v["procs"] >= 1)
    g.piece("ringOutBuf", "buffer sent in ring round proc: `p_out = buffer[1-(proc%2)]`", [("proc", "I")], "1-(proc%2)",
            first_or_err(find_all(r"p_out\s*=\s*buffer\s*\[([^\]]+)\]", build), "p_out"), where=lambda v: v["proc"] >= 0)
    g.piece("ringInBuf", "buffer received into in ring round proc: `p_in = buffer[proc%2]`", [("proc", "I")], "proc%2",
            first_or_err(find_all(r"p_in\s*=\s*buffer\s*\[([^\]]+)\]", build), "p_in"), where=lambda v: v["proc"] >= 0)
    sends, recvs = [], []
    for mm in re.finditer(r"MPI_Ssend\s*\(", build):
        args, _ = paren_arg(build, mm.end() - 1)
        a = [x.strip() for x in split_args(args)]
        if len(a) >= 4 and a[0] == "p_out":
            sends.append(a[3])
    for mm in re.finditer(r"MPI_Recv\s*\(", build):
        args, _ = paren_arg(build, mm.end() - 1)
        a = [x.strip() for x in split_args(args)]
        if len(a) >= 4 and a[0] == "p_in":
            recvs.append(a[3])
    g.piece("ringSendTo", "destination of a ring message: `MPI_Ssend(p_out, ..., (rank+1)%procs, ...)`",
            [("rank", "I"), ("procs", "I")], "(rank+1)%procs", first_or_err(sends, "ring MPI_Ssend"), expect=2,
            where=lambda v: 0 <= v["rank"] < v["procs"])
    g.piece("ringRecvFrom", "source of a ring message: `MPI_Recv(p_in, ..., (rank+procs-1)%procs, ...)`",
            [("rank", "I"), ("procs", "I")], "(rank+procs-1)%procs", first_or_err(recvs, "ring MPI_Recv"), expect=2,
            where=lambda v: 0 <= v["rank"] < v["procs"])
    g.piece("ringOrigin", "process the message of ring round proc stems from: `remoteProc = (rank+procs-proc)%procs`",
            [("rank", "I"), ("procs", "I"), ("proc", "I")], "(rank+procs-proc)%procs",
            first_or_err(find_all(r"int\s+remoteProc\s*=\s*([^;]+);", build)[:1], "remoteProc of the ring"),
            where=lambda v: 0 <= v["rank"] < v["procs"] and 1 <= v["proc"] < v["procs"])
    g.piece("sendTwo", "two index sets are sent: `char sendTwo = (source_ != target_)`",
            [("sameObject", "B")], "!sameObject",
            first_or_err(find_all(r"sendTwo\s*=\s*([^;]+);", build)[:1], "sendTwo"),
            table=[(r"source_\s*!=\s*target_", "(!sameObject)"), (r"source_\s*==\s*target_", "sameObject"),
                   (r"target_\s*!=\s*source_", "(!sameObject)"), (r"target_\s*==\s*source_", "sameObject")])
    g.piece("destPublishSent", "number of target pairs announced for one index set: `destPublish = 0`", [], "0",
            first_or_err(find_all(r"else\s+destPublish\s*=\s*([^;]+);", build)[:1], "destPublish for one index set"))

    # ---- packEntries ---------------------------------------------------------------------------
    g.piece("publishes", "a pair is packed: `if(ignorePublic || index->local().isPublic())`",
            [("ignorePublic", "B"), ("isPublic", "B")], "ignorePublic || isPublic",
            first_or_err([c for (c, _) in if_conditions(pack) if "isPublic" in c], "packEntries test"),
            table=[(r"index\s*->\s*local\s*\(\s*\)\s*\.\s*isPublic\s*\(\s*\)", "isPublic")])


    # every MPI_Pack call of packEntries packs ONE pair, every MPI_Unpack of unpackIndices takes ONE (the pairs of an
    # index set do not lie in one array: ArrayList keeps them in separately allocated chunks)
    def call_args(body, fn):
        res = []
        for mm in re.finditer(r"\b%s\s*\(" % fn, body):
            try:
                a, _ = paren_arg(body, mm.end() - 1)
                res.append([x.strip() for x in split_args(a)])
            except TranslateError as ex:
                res.append(ex)
        return res
    packs = [a[1] if not isinstance(a, Exception) and len(a) == 7 else TranslateError("MPI_Pack call of packEntries") for a in call_args(pack, "MPI_Pack")]
    g.piece("packCount", "pairs packed by one call: `MPI_Pack(const_cast<PairType*>(&(*index)), 1, type, ...)`",
            [("n", "I")], "1", first_or_err(packs, "MPI_Pack call of packEntries"), where=lambda v: v["n"] >= 0)
    unpacks_n = []
    for ub in unpacks:
        unpacks_n += [a[4] if not isinstance(a, Exception) and len(a) == 7 else TranslateError("MPI_Unpack call of unpackIndices") for a in call_args(ub, "MPI_Unpack")]
    g.piece("unpackCount", "pairs taken by one call: `MPI_Unpack(p_in, bufferSize, position, &index, 1, type, comm_)`",
            [("remoteEntries", "I")], "1", first_or_err(unpacks_n, "MPI_Unpack call of unpackIndices"), expect=5,
            where=lambda v: v["remoteEntries"] >= 0)


    # ---- noPublic: the entry count announced for rebuild<false> ---------------------------------------
    nopub = one("noPublic")
    g.piece("countedPublic", "a pair is counted by noPublic(): `if(index->local().isPublic()) noPublic++;`",
            [("isPublic", "B")], "isPublic",
            first_or_err([c for (c, after) in if_conditions(nopub) if re.match(r"\s*(noPublic\s*\+\+|\+\+\s*noPublic|noPublic\s*\+=\s*1)\s*;", after)],
                         "counting test of noPublic"),
            table=[(r"index\s*->\s*local\s*\(\s*\)\s*\.\s*isPublic\s*\(\s*\)", "isPublic")])
    g.piece("publishCount", "entries announced for an index set: `(ignorePublic) ? source_->size() : noPublic(*source_)`",
            [("ignorePublic", "B"), ("size", "I"), ("noPublic", "I")], "ignorePublic ? size : noPublic",
            first_or_err(find_all(r"sourcePublish\s*=\s*([^;]+);", build)[:1], "sourcePublish") +
            first_or_err(find_all(r"destPublish\s*=\s*(\(\s*ignorePublic[^;]+);", build)[:1], "destPublish"), expect=2,
            table=[(r"(source_|target_)\s*->\s*size\s*\(\s*\)", "size"), (r"noPublic\s*\(\s*\*\s*(source_|target_)\s*\)", "noPublic")])

    # ---- unpackIndices (single list) -----------------------------------------------------------------
    uconds = if_conditions(unpack1)
    g.piece("keepPair", "a remote index is created: `if(!fromOurSelf || index.local().attribute() != local[localIndex]->local().attribute())`",
            [("fromOurSelf", "B"), ("remoteAttr", "I"), ("localAttr", "I")], "!fromOurSelf || remoteAttr != localAttr",
            first_or_err([c for (c, _) in uconds if "fromOurSelf" in c], "fromOurSelf test"),
            table=[(r"index\s*\.\s*local\s*\(\s*\)\s*\.\s*attribute\s*\(\s*\)", "remoteAttr"),
                   (r"local\s*\[\s*localIndex\s*\]\s*->\s*local\s*\(\s*\)\s*\.\s*attribute\s*\(\s*\)", "localAttr")])
    g.piece("rewindTest", "restart at the first local pair of the run: `if(index.global()==oldGlobal) localIndex=oldLocalIndex;`",
            [("newGlobal", "I"), ("oldGlobal", "I")], "newGlobal==oldGlobal",
            first_or_err([c for (c, after) in uconds if re.match(r"\s*localIndex\s*=\s*oldLocalIndex", after)], "rewind test"),
            table=[(r"index\s*\.\s*global\s*\(\s*\)", "newGlobal")])

    # ---- unpackCreateRemote --------------------------------------------------------------------
    m = re.search(r"unpackIndices\s*\(\s*\*\s*receive\s*,\s*noRemoteSource\s*,\s*destPairs\s*,", ucr)
    occ = [TranslateError("two-set receive call not found")]
    if m:
        args, _ = paren_arg(ucr, ucr.rfind("(", 0, m.end()))
        a = [x.strip() for x in split_args(args)]
        if len(a) >= 4:
            occ = [a[3]]
    g.piece("destEntries", "number of local target pairs when two sets were received: `sendTwo ? destPublish : sourcePublish`",
            [("sendTwo", "B"), ("destPublish", "I"), ("sourcePublish", "I")], "sendTwo ? destPublish : sourcePublish", occ,
            where=lambda v: v["destPublish"] >= 0 and v["sourcePublish"] >= 0)
    g.piece("dropEntry", "nothing is inserted: `if(receive->empty() && send->empty())`",
            [("receiveEmpty", "B"), ("sendEmpty", "B")], "receiveEmpty && sendEmpty",
            first_or_err([c for (c, _) in if_conditions(ucr) if "empty" in c], "emptiness test"),
            table=[(r"receive\s*->\s*empty\s*\(\s*\)", "receiveEmpty"), (r"send\s*->\s*empty\s*\(\s*\)", "sendEmpty")])
    g.piece("oneSetReceived", "the message holds one index set: `if(!twoIndexSets)`", [("twoIndexSets", "B")], "!twoIndexSets",
            first_or_err([c for (c, _) in if_conditions(ucr) if "twoIndexSets" in c][:1], "twoIndexSets test"))

    # ---- rebuild / isSynced / free / setIndexSets ------------------------------------------------------
    g.piece("needRebuild", "rebuild really rebuilds: `if(firstBuild || ignorePublic!=publicIgnored || !isSynced())`",
            [("firstBuild", "B"), ("ignorePublic", "B"), ("publicIgnored", "B"), ("isSynced", "B")],
            "firstBuild || ignorePublic != publicIgnored || !isSynced",
            first_or_err([c for (c, _) in if_conditions(rebuild)][:1], "rebuild condition"),
            table=[(r"isSynced\s*\(\s*\)", "isSynced")])
    g.piece("isSynced", "`return sourceSeqNo_==source_->seqNo() && destSeqNo_==target_->seqNo();`",
            [("sourceSeqNo_", "I"), ("srcSeq", "I"), ("destSeqNo_", "I"), ("dstSeq", "I")],
            "sourceSeqNo_==srcSeq && destSeqNo_==dstSeq",
            first_or_err(find_all(r"return\s+([^;]+);", synced)[:1], "isSynced"),
            table=[(r"source_\s*->\s*seqNo\s*\(\s*\)", "srcSeq"), (r"target_\s*->\s*seqNo\s*\(\s*\)", "dstSeq")])
    m = re.search(r"buildRemote\s*<\s*ignorePublic\s*>\s*\(\s*includeSelf\s*\)\s*;", rebuild)
    names = ("sourceSeqNo_", "destSeqNo_", "firstBuild", "publicIgnored")
    g.strlist("rebuildAssigns", "bookkeeping after buildRemote in rebuild (sorted)",
              sorted(["sourceSeqNo_=source_->seqNo()", "destSeqNo_=target_->seqNo()", "firstBuild=false",
                      "publicIgnored=ignorePublic"]),
              sorted(assignments(rebuild[m.end():], names)) if m else None)
    g.strlist("rebuildBefore", "statements of rebuild between the test and buildRemote",
              ["free()"], [s.strip().replace(" ", "") for s in rebuild[:m.start()].split("{")[-1].split(";") if s.strip()] if m else None)
    # free() / setIndexSets(): what matters is that the lists are dropped and that the next rebuild really rebuilds;
    # emitted as facts, so that e.g. removing the (redundant) `firstBuild = true` of setIndexSets changes nothing
    g.flag("freeClears", "free() empties the map: `remoteIndices_.clear()`",
           bool(re.search(r"remoteIndices_\s*\.\s*clear\s*\(\s*\)", free)) if free else None)
    g.flag("freeMarksFirstBuild", "free() sets `firstBuild=true`",
           ("firstBuild=true" in assignments(free, names)) if free else None)
    g.flag("setIndexSetsFrees", "setIndexSets() calls free()",
           bool(re.search(r"(?<![\w.>])free\s*\(\s*\)\s*;", setsets)) if setsets else None)
    g.flag("setIndexSetsMarksFirstBuild", "setIndexSets() sets `firstBuild=true` itself",
           ("firstBuild=true" in assignments(setsets, names)) if setsets else None)
    # ---- configuration calls: which hints / index sets / includeSelf value are in force afterwards -------------
    # Facts about *unconditional top-level statements*: a call that has been put under a condition (or dropped) makes
    # the fact false.  Forms the reader does not know leave the fact open (`none`, differential run only).
    setnb, setnb_params = inclass_body(src, "setNeighbours")
    ctors = ctor_bodies(src)
    ss_params = member_params(src, "setIndexSets")

    def replaces_hints(body, nbparam, allow_call):
        """the function leaves exactly the hints of its neighbours argument `nbparam` in neighbourIds"""
        if not body or not nbparam:
            return None
        nb = re.escape(nbparam)
        if allow_call and unconditional(body, r"(this->)?setNeighbours\(%s\)" % nb):
            return True
        if unconditional(body, r"neighbourIds=.*\b%s\b.*" % nb):
            return True
        if unconditional(body, r"neighbourIds\.insert\(%s\.begin\(\),%s\.end\(\)\)" % (nb, nb)):
            return unconditional(body, r"neighbourIds\.clear\(\)")
        if "setNeighbours" in body or "neighbourIds" in body:
            return False    # mentioned, but not as an unconditional statement: conditional / partial update
        return None

    g.flag("setNeighboursReplaces", "setNeighbours() first clears neighbourIds, then inserts the whole argument, unconditionally",
           replaces_hints(setnb, setnb_params[0] if len(setnb_params) == 1 else "", False))
    g.flag("setIndexSetsReplacesHints", "setIndexSets() hands its neighbours argument (also an empty one) to setNeighbours, unconditionally",
           replaces_hints(setsets, ss_params[3] if len(ss_params) == 4 else "", True))
    cb, cp = ctors.get("args", ("", []))
    g.flag("ctorSetsHints", "the five-argument constructor hands its neighbours argument to setNeighbours, unconditionally",
           replaces_hints(cb, cp[3] if len(cp) == 5 else "", True))
    if setsets and len(ss_params) == 4:
        both = (unconditional(setsets, r"source_=&%s" % re.escape(ss_params[0])) and
                unconditional(setsets, r"target_=&%s" % re.escape(ss_params[1])))
        commset = unconditional(setsets, r"comm_=%s" % re.escape(ss_params[2]))
    else:
        both = commset = None
    g.flag("setIndexSetsSetsBothSets", "setIndexSets() stores both index sets: `source_ = &source; target_ = &destination;`", both)
    g.flag("setIndexSetsSetsComm", "setIndexSets() stores the communicator: `comm_ = comm;`", commset)
    setincl = one("setIncludeSelf")
    si_params = member_params(src, "setIncludeSelf")
    g.flag("setIncludeSelfAssigns", "setIncludeSelf(b) stores its argument: `includeSelf=b;`",
           unconditional(setincl, r"(this->)?includeSelf=%s" % re.escape(si_params[0])) if (setincl and len(si_params) == 1 and si_params[0]) else None)
    return [("DuneVerif/Gen/C04.lean", g.text()), translate_localindex(repo)]


# =====================================================================================================================
# round four: plocalindex.hh / indexset.hh — the ways a local index / an index pair comes into being
# =====================================================================================================================
LI_FIELDS = [("localIndex_", "L"), ("attribute_", "A"), ("public_", "B"), ("state_", "S")]
LI_LEAN = {"localIndex_": "localIndex_", "attribute_": "attribute_", "public_": "public_", "state_": "valid"}
LI_ZERO = {"L": "0", "A": "0", "B": "false", "S": None}
CAST_SORT = {"size_t": "L", "std::size_t": "L", "char": None, "bool": "B", "int": "L", "Attribute": "A", "T": "A",
             "uint32_t": "L", "unsigned": "L", "unsignedint": "L"}


def li_param_types(args):
    """[(name, sort, default text or None)] of a ParallelLocalIndex constructor parameter list"""
    res = []
    if not args.strip():
        return res
    for a in split_args(args):
        dflt = None
        if "=" in a:
            a, dflt = a.split("=", 1)
            dflt = dflt.strip()
        a = a.strip()
        m = re.search(r"(\w+)\s*$", a)
        if not m:
            raise TranslateError("parameter without a name: %r" % a)
        ty = re.sub(r"\s+", "", a[:m.start()])
        ty = re.sub(r"^const", "", ty).rstrip("&")
        if ty in ("size_t", "std::size_t"):
            so = "L"
        elif ty in ("T", "Attribute"):
            so = "A"
        elif ty == "bool":
            so = "B"
        else:
            raise TranslateError("parameter of unknown type %r" % ty)
        res.append((m.group(1), so, dflt))
    return res


def li_value(text, env, want):
    """(lean term, sort) of a member-initialiser / argument expression.  env: C++ name -> (lean term, sort).
    `want` = sort of the member that is initialised (decides what an empty / value initialisation means)."""
    t = re.sub(r"\s+", "", text)
    while t.startswith("(") and t.endswith(")") and paren_arg(t, 0)[1] == len(t):
        t = t[1:-1]
    if t == "":
        if want is None or LI_ZERO.get(want) is None:
            raise TranslateError("value-initialised state")
        return LI_ZERO[want], want
    m = re.fullmatch(r"static_cast<([\w:]+)>\((.*)\)", t)
    if m and paren_arg(t, t.index("(", len("static_cast")))[1] == len(t):
        inner, so = li_value(m.group(2), env, CAST_SORT.get(m.group(1)) or want)
        return inner, (CAST_SORT.get(m.group(1)) or so)
    m = re.fullmatch(r"([\w:]+)\((.*)\)", t)
    if m and m.group(1) in CAST_SORT and paren_arg(t, len(m.group(1)))[1] == len(t):
        so = CAST_SORT[m.group(1)] or want
        inner, so2 = li_value(m.group(2), env, so)
        return inner, so
    if t in env:
        return env[t]
    if re.fullmatch(r"\d+", t):
        if want == "B":
            return ("true" if int(t) else "false"), "B"
        return t, ("A" if want == "A" else "L")
    if t in ("true", "false"):
        if want in ("L", "A"):
            return ("1" if t == "true" else "0"), want
        return t, "B"
    if t == "VALID":
        return "true", "S"
    if t == "DELETED":
        return "false", "S"
    raise TranslateError("expression outside the grammar: %r" % text)


def li_ctors(src):
    """[(params, init items, body)] of the out-of-class constructors of ParallelLocalIndex"""
    res = []
    for m in re.finditer(r"ParallelLocalIndex\s*<\s*T\s*>::ParallelLocalIndex\s*\(", src):
        args, j = paren_arg(src, m.end() - 1)
        k, depth = j, 0
        while k < len(src):
            c = src[k]
            if c in "(":
                depth += 1
            elif c == ")":
                depth -= 1
            elif c == "{" and depth == 0:
                # `member_{expr}` is a brace initialiser, the body's brace follows `)`, `}` or the parameter list
                if re.search(r"\w\s*$", src[j:k]) and src[j:k].strip():
                    depth += 1
                else:
                    break
            elif c == "}" and depth > 0 and src[j:k].count("{") > src[j:k].count("}"):
                depth -= 1
            elif c == ";" and depth == 0:
                k = None
                break
            k += 1
        if k is None or k >= len(src):
            continue
        init = src[j:k].strip()
        items = []
        if init.startswith(":"):
            for it in split_args(init[1:].replace("{", "(").replace("}", ")")):
                it = it.strip()
                mm = re.match(r"([\w:<>]+?)\s*[({]", it)
                if not mm:
                    raise TranslateError("member initialiser %r" % it)
                items.append((re.sub(r"<\s*T\s*>", "", mm.group(1)), it[mm.end():-1]))
        elif init:
            raise TranslateError("text between parameter list and body: %r" % init[:40])
        res.append((args, items, body_after(src, k - 1).strip()))
    return res


def li_eval_ctor(ctors, idx, argvals, depth=0):
    """field values {member: lean term} of constructor idx called with argument values [(term, sort)]"""
    if depth > 3:
        raise TranslateError("delegation cycle")
    params, items, body = ctors[idx]
    if body:
        raise TranslateError("constructor with a non-empty body: %r" % body[:40])
    env = {}
    for (name, so, dflt), v in zip(params, argvals):
        env[name] = v
    if len(items) == 1 and items[0][0] == "ParallelLocalIndex":
        args = [a for a in split_args(items[0][1])] if items[0][1].strip() else []
        # sort of every argument as written
        vals = []
        for a in args:
            a0 = re.sub(r"\s+", "", a)
            try:
                want = li_value(a0, env, None)[1]     # the sort the expression has by itself
            except TranslateError:
                want = None
            if want not in ("L", "A", "B"):
                raise TranslateError("argument of the delegated constructor: %r" % a)
            vals.append(li_value(a0, env, want))
        cands = []
        for k, (ps, _, _) in enumerate(ctors):
            if len(ps) < len(vals) or k == idx:
                continue
            if any(ps[i][1] != vals[i][1] for i in range(len(vals))):
                continue
            if any(ps[i][2] is None for i in range(len(vals), len(ps))):
                continue
            cands.append(k)
        if len(cands) != 1:
            raise TranslateError("delegating constructor: %d candidate targets" % len(cands))
        ps = ctors[cands[0]][0]
        full = list(vals) + [li_value(ps[i][2], {}, ps[i][1]) for i in range(len(vals), len(ps))]
        return li_eval_ctor(ctors, cands[0], full, depth + 1)
    fields = {}
    for member, expr in items:
        so = dict(LI_FIELDS).get(member)
        if so is None:
            raise TranslateError("unknown member %r" % member)
        fields[member] = li_value(expr, env, so)[0]
    for member, so in LI_FIELDS:
        if member not in fields:
            raise TranslateError("member %s not initialised" % member)
    return fields


def li_record(fields):
    return "{ " + ", ".join("%s := %s" % (LI_LEAN[m], fields[m]) for m, _ in LI_FIELDS) + " }"


def li_out_of_class(src, name_rx):
    """(parameter text, body) of `ParallelLocalIndex<T>::<name>(...)`"""
    m = re.search(r"ParallelLocalIndex\s*<\s*T\s*>::%s\s*\(" % name_rx, src)
    if not m:
        raise TranslateError("%s not located" % name_rx)
    args, j = paren_arg(src, m.end() - 1)
    k = src.index("{", j)
    if src[j:k].strip() not in ("", "const"):
        raise TranslateError("text before the body of %s" % name_rx)
    return args, body_after(src, k - 1)


def translate_localindex(repo):
    out = ["-- GENERATED by tools/translators/tr_c04.py from dune/common/parallel/plocalindex.hh and indexset.hh -- do not edit",
           "namespace DV.C04.GenL", "",
           "/-- the data members of `ParallelLocalIndex<T>` (`state_` reduced to `== VALID`) -/",
           "structure LI where",
           "  localIndex_ : Nat",
           "  attribute_ : Nat",
           "  public_ : Bool",
           "  valid : Bool",
           "  deriving DecidableEq, Repr, Inhabited", ""]
    unparsed = []
    src = strip_comments(open(os.path.join(repo, "dune/common/parallel/plocalindex.hh")).read())
    canon = {
        "ctorAP": ("(attr : Nat) (isPublic : Bool)", {"localIndex_": "0", "attribute_": "attr", "public_": "isPublic", "state_": "true"}),
        "ctorLAP": ("(localIndex : Nat) (attr : Nat) (isPublic : Bool)", {"localIndex_": "localIndex", "attribute_": "attr", "public_": "isPublic", "state_": "true"}),
        "ctorDefault": ("", {"localIndex_": "0", "attribute_": "0", "public_": "false", "state_": "true"}),
    }
    docs = {"ctorAP": "`ParallelLocalIndex(const Attribute& attribute, bool isPublic)`",
            "ctorLAP": "`ParallelLocalIndex(size_t localIndex, const Attribute& attribute, bool isPublic=true)`",
            "ctorDefault": "`ParallelLocalIndex()`"}
    found = {}
    dflt_public = None
    try:
        ctors = [(li_param_types(a), items, body) for (a, items, body) in li_ctors(src)]
        # default arguments live in the declaration inside the class
        for m in re.finditer(r"(?<![:\w>])ParallelLocalIndex\s*\(([^()]*(?:\([^()]*\)[^()]*)*)\)\s*;", src):
            try:
                ps = li_param_types(m.group(1))
            except TranslateError:
                continue
            for k, (cps, items, body) in enumerate(ctors):
                if [p[1] for p in cps] == [p[1] for p in ps]:
                    ctors[k] = ([(cp[0], cp[1], cp[2] if cp[2] is not None else p[2]) for cp, p in zip(cps, ps)], items, body)
        for k, (ps, items, body) in enumerate(ctors):
            sorts = "".join(p[1] for p in ps)
            name = {"AB": "ctorAP", "LAB": "ctorLAP", "": "ctorDefault"}.get(sorts)
            if name is None:
                unparsed.append("constructor with parameter sorts %s" % sorts)
                continue
            lean_names = {"ctorAP": ["attr", "isPublic"], "ctorLAP": ["localIndex", "attr", "isPublic"], "ctorDefault": []}[name]
            try:
                found[name] = li_eval_ctor(ctors, k, [(ln, p[1]) for ln, p in zip(lean_names, ps)])
                if name == "ctorLAP":
                    d = ps[2][2]
                    dflt_public = None if d is None else li_value(d, {}, "B")[0]
                    if d is None:
                        dflt_public = "none"
            except TranslateError as ex:
                unparsed.append("%s: %s" % (name, str(ex)[:160]))
    except (TranslateError, ValueError) as ex:
        unparsed.append("constructors: %s" % str(ex)[:160])
    for name in ("ctorAP", "ctorLAP", "ctorDefault"):
        params, cf = canon[name]
        f = found.get(name)
        if f is None and not any(u.startswith(name) for u in unparsed):
            unparsed.append("%s: not located" % name)
        status = "canonical" if (f is None or f == cf) else "as written in the source"
        out.append("/-- %s  [%s] -/" % (docs[name], status if f is not None else "not read: canonical"))
        out.append("def %s %s : LI := %s" % (name, params, li_record(f or cf)))
    out.append("/-- default argument `isPublic=true` of the three-argument constructor (`none`: no default / not read) -/")
    if dflt_public is None:     # declaration / constructor not read: canonical
        dflt_public = "true"
        if not any(u.startswith(("ctorLAP", "constructors")) for u in unparsed):
            unparsed.append("ctorLAPDefaultIsPublic: not read")
    out.append("def ctorLAPDefaultIsPublic : Option Bool := %s" % ("none" if dflt_public == "none" else "some " + dflt_public))

    # mutators / getters: straight-line bodies
    def mutator(name, rx, param_sort, canon_field):
        try:
            args, body = li_out_of_class(src, rx)
            ps = [re.search(r"(\w+)\s*$", a.strip()).group(1) for a in split_args(args)] if args.strip() else []
            if len(ps) != 1:
                raise TranslateError("%s: parameter list" % name)
            upd = {}
            for st in body.split(";"):
                st = re.sub(r"\s+", "", st)
                if st in ("", "return*this"):
                    continue
                mm = re.fullmatch(r"(?:this->)?(\w+)=(.+)", st)
                if not mm or mm.group(1) not in dict(LI_FIELDS):
                    raise TranslateError("%s: statement %r" % (name, st))
                so = dict(LI_FIELDS)[mm.group(1)]
                upd[mm.group(1)] = li_value(mm.group(2), {ps[0]: ("v", param_sort)}, so)[0]
            return upd
        except (TranslateError, ValueError, AttributeError) as ex:
            unparsed.append("%s: %s" % (name, str(ex)[:160]))
            return {canon_field: "v"}

    for name, rx, so, cfield, doc in (("assignLocal", r"operator\s*=", "L", "localIndex_", "`operator=(size_t index)`"),
                                      ("setAttribute", r"setAttribute", "A", "attribute_", "`setAttribute(const Attribute& attribute)`")):
        upd = mutator(name, rx, so, cfield)
        out.append("/-- %s  [%s] -/" % (doc, "canonical" if upd == {cfield: "v"} else "as written in the source"))
        out.append("def %s (x : LI) (v : Nat) : LI := { x with %s }" % (name, ", ".join("%s := %s" % (LI_LEAN[k], t) for k, t in sorted(upd.items())))
                   if upd else "def %s (x : LI) (v : Nat) : LI := x" % name)

    def getter(name, rx, so, cfield, lean_ty):
        try:
            args, body = li_out_of_class(src, rx)
            st = re.sub(r"\s+", "", body).rstrip(";")
            mm = re.fullmatch(r"return(.+)", st)
            if args.strip() or not mm:
                raise TranslateError("%s: body %r" % (name, st[:60]))
            env = {m: ("x." + LI_LEAN[m], s_) for m, s_ in LI_FIELDS}
            term = li_value(mm.group(1), env, so)[0]
        except (TranslateError, ValueError) as ex:
            unparsed.append("%s: %s" % (name, str(ex)[:160]))
            term = "x." + LI_LEAN[cfield]
        out.append("/-- `%s() const`  [%s] -/" % (rx, "canonical" if term == "x." + LI_LEAN[cfield] else "as written in the source"))
        out.append("def %s (x : LI) : %s := %s" % (name, lean_ty, term))

    getter("getLocal", "local", "L", "localIndex_", "Nat")
    getter("getAttribute", "attribute", "A", "attribute_", "Nat")
    getter("isPublic", "isPublic", "B", "public_", "Bool")

    # indexset.hh: IndexPair constructors, setLocal, the two add overloads
    # preprocessor lines (`#ifndef NDEBUG` ... `#endif` around the state checks) are dropped before the text is flattened
    isrc = strip_comments(re.sub(r"(?m)^[ \t]*#.*$", "", open(os.path.join(repo, "dune/common/parallel/indexset.hh")).read()))
    flags = []

    def pair_ctor(nparams):
        for m in re.finditer(r"IndexPair\s*<\s*TG\s*,\s*TL\s*>::IndexPair\s*\(", isrc):
            args, j = paren_arg(isrc, m.end() - 1)
            ps = param_names(args) if args.strip() else []
            if len(ps) != nparams:
                continue
            k = isrc.index("{", j)
            init = re.sub(r"\s+", "", isrc[j:k])
            body = body_after(isrc, k - 1).strip()
            return ps, init, body
        return None

    # A fact is `some true` for the forms the reader knows, `some false` only if a parameter is not used at all (its
    # value is dropped) or the statement sits under a condition, and left open (`none`: differential run only) otherwise.
    def uses(text, name):
        return re.search(r"(?<![\w.])%s(?!\w)" % re.escape(name), text) is not None

    def fact(known_ok, text, params):
        if known_ok:
            return True
        if any(not uses(text, p_) for p_ in params):
            return False
        return None

    c2 = pair_ctor(2)
    flags.append(("pairCtorCopiesBoth", "`IndexPair(global, local)` stores both arguments",
                  None if c2 is None else fact(not c2[2] and c2[1] in (":global_(%s),local_(%s)" % tuple(c2[0]), ":local_(%s),global_(%s)" % (c2[0][1], c2[0][0]),
                                                                         ":global_{%s},local_{%s}" % tuple(c2[0])), c2[1] + c2[2], c2[0])))
    c1 = pair_ctor(1)
    c1ok = c1 is not None and not c1[2] and c1[1] in (":global_(%s),local_()" % c1[0][0], ":global_(%s)" % c1[0][0], ":global_{%s},local_{}" % c1[0][0],
                                                      ":global_(%s),local_(TL())" % c1[0][0], ":global_(%s),local_(LocalIndex())" % c1[0][0])
    flags.append(("pairCtorGlobalDefaultLocal", "`IndexPair(global)` stores the global index and a default-constructed local index",
                  None if c1 is None else fact(c1ok, c1[1] + c1[2], c1[0])))
    m = re.search(r"IndexPair\s*<\s*TG\s*,\s*TL\s*>::setLocal\s*\(", isrc)
    if m:
        args, j = paren_arg(isrc, m.end() - 1)
        ps = param_names(args)
        st = re.sub(r"\s+", "", body_after(isrc, isrc.index("{", j) - 1))
        ok = len(ps) == 1 and st in ("local_=%s;" % ps[0], "local_=static_cast<size_t>(%s);" % ps[0], "local_=size_t(%s);" % ps[0],
                                     "local_=static_cast<std::size_t>(%s);" % ps[0])
        # anything that constructs a new local index instead of assigning to the old one may lose attribute / flags
        rebuilt = len(ps) == 1 and re.search(r"local_=(TL|LocalIndex)\(", st) is not None
        flags.append(("setLocalAssigns", "`IndexPair::setLocal(int index)` assigns to the local index (`operator=(size_t)`)",
                      False if rebuilt else fact(ok, st, ps)))
    else:
        flags.append(("setLocalAssigns", "`IndexPair::setLocal(int index)` assigns to the local index", None))
    adds = {}
    for m in re.finditer(r"ParallelIndexSet\s*<\s*TG\s*,\s*TL\s*,\s*N\s*>::add\s*\(", isrc):
        args, j = paren_arg(isrc, m.end() - 1)
        ps = param_names(args)
        body = body_after(isrc, isrc.index("{", j) - 1)
        adds[len(ps)] = (ps, top_statements(body), body)

    def add_fact(a, call):
        if a is None:
            return None
        ps, sts, body = a
        if (call, False) in sts:
            return True
        if any(t == call and g_ for (t, g_) in sts) or any("newIndices_" in t and g_ for (t, g_) in sts):
            return False      # the append sits under a condition
        return fact(False, re.sub(r'"[^"]*"', "", body), ps)
    a1, a2 = adds.get(1), adds.get(2)
    flags.append(("addGlobalPushesPair", "`add(global)` appends `IndexPair(global)` to the new indices, unconditionally",
                  add_fact(a1, "newIndices_.push_back(IndexPair(%s))" % (a1[0][0] if a1 else ""))))
    flags.append(("addPairPushesPair", "`add(global, local)` appends `IndexPair(global, local)` to the new indices, unconditionally",
                  add_fact(a2, "newIndices_.push_back(IndexPair(%s,%s))" % (tuple(a2[0]) if a2 else ("", "")))))
    for name, doc, val in flags:
        if val is None:
            unparsed.append("%s: not located / form not known" % name)
        out.append("/-- %s  [%s] -/" % (doc, "not located / form not known" if val is None else "as found in the source"))
        out.append("def %s : Option Bool := %s" % (name, "none" if val is None else ("some true" if val else "some false")))
    out.append("")
    out.append("/-- pieces the translator could not locate or parse (emitted in canonical form above) -/")
    out.append("def unparsed : List String := [%s]" % ", ".join('"%s"' % u.replace("\\", "/").replace('"', "'") for u in unparsed))
    out.append("")
    out.append("end DV.C04.GenL")
    return ("DuneVerif/Gen/C04L.lean", "\n".join(out) + "\n")


def split_args(s):
    out, depth, cur = [], 0, ""
    for ch in s:
        if ch in "([":
            depth += 1
        elif ch in ")]":
            depth -= 1
        if ch == "," and depth == 0:
            out.append(cur)
            cur = ""
        else:
            cur += ch
    out.append(cur)
    return out


if __name__ == "__main__":
    import sys
    for path, content in translate(sys.argv[1] if len(sys.argv) > 1 else "/repo"):
        print("-- " + path)
        print(content)
