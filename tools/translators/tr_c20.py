"""Translator for C20: the data and the straight-line parts of dune-common's dense-vector bindings are re-read from the
source on every run and emitted as lean/DuneVerif/Gen/C20.lean (namespace DV.C20.Gen):

* the index normalisation both `__getitem__(ssize_t)` and `__setitem__(ssize_t, x)` go through (densevector.hh), found by its
  USE: the accessors' bodies must end in `return self[E]` / `self[E] = x`; `E` is either a call of one helper -- a local closure
  or a function (template) of the header, whatever its name -- whose body is compiled, or the statements written out in the
  accessor; both accessors must yield the same function.  Statement order, branch conditions and the arithmetic become a Lean
  function `Int -> Int -> Option Int`;
* the bodies of the `pybind11::int_` overloads of `__getitem__` / `__setitem__` (must be a bare `throw index_error`);
* the four copy loops of `registerFieldVector` (tuple / list / args constructors, `copy(*args)`), the buffer constructor
  (checks, stride computation, loop bound, source index) and `registerDynamicVector`'s list constructor: initial value,
  first index, loop bound, destination and source index as Lean functions;
* the string constants of `to_string(FieldVector)`, `__repr__` (FieldVector, DynamicVector);
* the ordered list of everything the registration functions bind (name + canonical parameter types; order is kept among
  overloads of one name because pybind11 tries them in registration order) for densevector.hh, vector.hh
  (`registerOneTensorInterface`), fvector.hh, dynvector.hh, tuplevector.hh.

`Props/C20.lean` proves (theorems `gen_*`) that these generated definitions coincide with the hand-written model for all
sizes / indices / lengths, so an edit of a bound, a condition, a constant or the set of bound operations changes what Lean
has to prove.

Tolerance (round five).  Bodies are NORMALISED before they are matched, and terms are emitted in a canonical spelling, so that
equivalent source texts give the byte-identical Lean file: locals are named by position; operands of `+ * min max == !=` are
ordered, `b > a` is `a < b`, `!(a < b)` is `b <= a`; `c ? a : b`, `if (c) n = e;` and `std::min/max` spellings of a minimum
become `min`; value-preserving integral casts in all three syntaxes, `this->`, `x.empty()`; `const`/`auto` locals with
side-effect-free initialisers (hoisted `static_cast<K *>(info.ptr)`, a named position, named strings, `s += e` steps) are
substituted; guard clause = `if/else` = inverted test; `while` loop with a trailing `++i` = `for`; helper closure = helper
function = code written out; `DV(n, K(0))`'s own `size()` is `n`; `cls.def(..).def(..)` chains; renamed parameters and
captures.  Whatever remains different reaches Lean, whose proofs (`omega`, case splits) are insensitive to the order and
spelling of tests, e.g. one combined range test followed by a conditional shift.  Anything outside the grammar -- a loop that
is no counting loop, `FV v{K(0)}` (initializer list!), a pointer that is advanced, an unsigned index parameter, another
exception type, an unknown `cls.def` form -- raises TranslateError: never guessed.  Arithmetic is translated in exact
integers (values far inside the ranges) except the stride of the buffer constructor, where the signed / unsigned conversions
are kept (`tr_stride`): the unsigned division repaired by 5a41cb5 gives a term `gen_buffer_ctor` refutes.  `--selftest` replays respellings that must
stay quiet and edits that must not."""
import os
import re


class TranslateError(Exception):
    pass


def strip_comments(src):
    src = re.sub(r"/\*.*?\*/", " ", src, flags=re.S)
    src = re.sub(r"//[^\n]*", " ", src)
    src = re.sub(r"^\s*#.*$", " ", src, flags=re.M)
    return src


def read(repo, rel):
    p = os.path.join(repo, rel)
    try:
        with open(p, encoding="utf-8") as f:
            return strip_comments(f.read())
    except OSError as ex:
        raise TranslateError("cannot read %s: %s" % (rel, ex))


def balanced(src, pos, open_ch="{", close_ch="}"):
    """src[pos] == open_ch; returns (inner text, index after the closing character); string literals are skipped"""
    if src[pos] != open_ch:
        raise TranslateError("expected %r at %r" % (open_ch, src[pos:pos + 30]))
    depth, i, n = 0, pos, len(src)
    while i < n:
        c = src[i]
        if c == '"':
            i += 1
            while i < n and src[i] != '"':
                i += 2 if src[i] == "\\" else 1
        elif c == "'":
            i += 1
            while i < n and src[i] != "'":
                i += 2 if src[i] == "\\" else 1
        elif c == open_ch:
            depth += 1
        elif c == close_ch:
            depth -= 1
            if depth == 0:
                return src[pos + 1:i], i + 1
        i += 1
    raise TranslateError("unbalanced %r" % open_ch)


# ------------------------------------------------------------------------------------------------------------------
# expressions:  or := and ('||' and)* ; and := cmp ('&&' cmp)* ; cmp := add (relop add)? ; add := mul (('+'|'-') mul)* ;
# mul := un (('*'|'/'|'%') un)* ; un := '!' un | '-' un | prim ; prim := INT | NAME | '(' or ')' | min '(' or ',' or ')'
# Before tokenising, the C++ noise that has no arithmetic meaning here is rewritten (see `normalise`).
# ------------------------------------------------------------------------------------------------------------------
TOK = re.compile(r"\s*(<=|>=|==|!=|&&|\|\||[A-Za-z_][A-Za-z_0-9]*|\d+|[-+*/%!<>(),?:])")


def tokenize(e, what):
    pos, out = 0, []
    e = e.strip()
    while pos < len(e):
        m = TOK.match(e, pos)
        if not m:
            raise TranslateError("%s: cannot tokenise %r at %r" % (what, e, e[pos:pos + 20]))
        out.append(m.group(1))
        pos = m.end()
        while pos < len(e) and e[pos].isspace():
            pos += 1
    return out


def unparen(e):
    """a Lean term without redundant outer parentheses (for comparing operands)"""
    e = e.strip()
    while e.startswith("(") and e.endswith(")"):
        depth = 0
        for k, c in enumerate(e):
            depth += (c == "(") - (c == ")")
            if depth == 0 and k < len(e) - 1:
                return e
        e = e[1:-1].strip()
    return e


def atom(e):
    """parenthesise unless it is a name / literal or already parenthesised"""
    u = unparen(e)
    return u if re.fullmatch(r"[\w']+", u) else "(" + u + ")"


def comm(op, a, b):
    """commutative operation with its operands in a fixed (lexicographic) order: `n + idx` / `idx + n`, `min(len, size)` /
    `min(size, len)`, `stride*i` / `i*stride` give the same term"""
    a, b = sorted((atom(a), atom(b)))
    return "(%s %s %s)" % ((op, a, b) if op in ("min", "max") else (a, op, b))


class Expr:
    """mode 'Int' (C++ ssize_t arithmetic, truncating / and %) or 'Nat' (std::size_t, values far below 2^64)"""

    def __init__(self, text, what, env, mode):
        self.t, self.i, self.what, self.env, self.mode = tokenize(text, what), 0, what, env, mode
        self.cmps = {}

    def peek(self):
        return self.t[self.i] if self.i < len(self.t) else None

    def eat(self, x=None):
        tok = self.peek()
        if tok is None or (x is not None and tok != x):
            raise TranslateError("%s: expected %r, found %r" % (self.what, x, tok))
        self.i += 1
        return tok

    def need(self, k, want, ctx):
        if k != want:
            raise TranslateError("%s: %s has kind %s, expected %s" % (self.what, ctx, k, want))

    def parse(self, want):
        e, k = self.p_cond()
        if self.peek() is not None:
            raise TranslateError("%s: trailing tokens %r" % (self.what, self.t[self.i:]))
        self.need(k, want, "expression")
        return e

    def p_cond(self):
        """`c ? a : b`; the spellings of min / max (`a < b ? a : b`, `b > a ? a : b`, `a < b ? b : a`, ...) become min / max"""
        c, k = self.p_or()
        if self.peek() != "?":
            return c, k
        self.need(k, "B", "condition of ?:")
        self.eat("?")
        a, ka = self.p_cond()
        self.eat(":")
        b, kb = self.p_cond()
        if ka != kb:
            raise TranslateError("%s: branches of ?: have different kinds" % self.what)
        if ka == "N" and c in self.cmps:
            l, op, r = self.cmps[c]
            if op in ("<", "<=", ">", ">=") and {unparen(a), unparen(b)} == {unparen(l), unparen(r)} and unparen(l) != unparen(r):
                then_is_left = unparen(a) == unparen(l)
                smaller = (op in ("<", "<=")) == then_is_left     # the then-branch is the smaller operand
                return comm("min" if smaller else "max", a, b), "N"
        return "(if %s then %s else %s)" % (c, a, b), ka

    def p_or(self):
        l, k = self.p_and()
        while self.peek() == "||":
            self.eat()
            r, kr = self.p_and()
            self.need(k, "B", "operand of ||")
            self.need(kr, "B", "operand of ||")
            l = "(%s || %s)" % (l, r)
        return l, k

    def p_and(self):
        l, k = self.p_cmp()
        while self.peek() == "&&":
            self.eat()
            r, kr = self.p_cmp()
            self.need(k, "B", "operand of &&")
            self.need(kr, "B", "operand of &&")
            l = "(%s && %s)" % (l, r)
        return l, k

    def p_cmp(self):
        l, k = self.p_add()
        if self.peek() in ("<", "<=", ">", ">=", "==", "!="):
            op = self.eat()
            r, kr = self.p_add()
            self.need(k, "N", "operand of " + op)
            self.need(kr, "N", "operand of " + op)
            return self.cmp(l, op, r), "B"
        return l, k

    def cmp(self, l, op, r):
        """one spelling per comparison: `b > a` is `a < b`, `b >= a` is `a <= b`, operands of == / != in a fixed order"""
        if op in (">", ">="):
            l, op, r = r, {">": "<", ">=": "<="}[op], l
        elif op in ("==", "!=") and (atom(r).isdigit(), atom(r)) < (atom(l).isdigit(), atom(l)):
            l, r = r, l
        res = "decide (%s %s %s)" % (l, {"<": "<", "<=": "≤", "==": "=", "!=": "≠"}[op], r)
        self.cmps[res] = (l, op, r)
        return res

    def p_add(self):
        l, k = self.p_mul()
        while self.peek() in ("+", "-"):
            op = self.eat()
            r, kr = self.p_mul()
            self.need(k, "N", "operand of " + op)
            self.need(kr, "N", "operand of " + op)
            l = comm("+", l, r) if op == "+" else "(%s - %s)" % (l, r)
        return l, k

    def p_mul(self):
        l, k = self.p_un()
        while self.peek() in ("*", "/", "%"):
            op = self.eat()
            r, kr = self.p_un()
            self.need(k, "N", "operand of " + op)
            self.need(kr, "N", "operand of " + op)
            if op == "*":
                l = comm("*", l, r)
            elif self.mode == "Int":
                l = "(%s %s %s)" % ("Int.tdiv" if op == "/" else "Int.tmod", l, r)
            else:
                l = "(%s %s %s)" % (l, op, r)
        return l, k

    def p_un(self):
        if self.peek() == "!":
            self.eat()
            e, k = self.p_un()
            self.need(k, "B", "operand of !")
            if e in self.cmps:      # integers: !(a < b) is b <= a, !(a == b) is a != b
                l, op, r = self.cmps[e]
                l, op, r = {"<": (r, "<=", l), "<=": (r, "<", l), "==": (l, "!=", r), "!=": (l, "==", r)}[op]
                return self.cmp(l, op, r), "B"
            return "(!%s)" % e, "B"
        if self.peek() == "-":
            if self.mode != "Int":
                raise TranslateError("%s: unary minus in unsigned arithmetic" % self.what)
            self.eat()
            e, k = self.p_un()
            self.need(k, "N", "operand of unary -")
            return "(-%s)" % e, "N"
        return self.p_prim()

    def p_prim(self):
        tok = self.eat()
        if tok == "(":
            e, k = self.p_cond()
            self.eat(")")
            return e, k
        if tok.isdigit():
            return tok, "N"
        if tok in ("MIN", "MAX"):
            self.eat("(")
            a, ka = self.p_cond()
            self.eat(",")
            b, kb = self.p_cond()
            self.eat(")")
            self.need(ka, "N", "argument of min/max")
            self.need(kb, "N", "argument of min/max")
            return comm("min" if tok == "MIN" else "max", a, b), "N"
        if tok in self.env:
            return self.env[tok], "N"
        raise TranslateError("%s: unknown name %r" % (self.what, tok))


INTEGRAL = r"(?:pybind11::ssize_t|std::size_t|ssize_t|size_t|std::ptrdiff_t)"
# type of a local whose initialiser the expression grammar has to accept anyway (`auto` = the type of that integral expression)
DECL = r"(?:(?:const\s+)?(?:" + INTEGRAL + r"|auto)(?:\s+const)?)"


def normalise(e, sizes):
    """C++ -> grammar: `X.size()` for the listed objects, value-preserving casts between the integral types (all values
    are far inside both ranges at the places the translator accepts them), std::min/max with explicit template argument"""
    for pat, name in sizes:
        e = re.sub(pat, " " + name + " ", e)
    e = re.sub(r"static_cast\s*<\s*" + INTEGRAL + r"\s*>", " ", e)
    e = re.sub(r"std::min\s*(?:<\s*" + INTEGRAL + r"\s*>)?", " MIN", e)
    e = re.sub(r"std::max\s*(?:<\s*" + INTEGRAL + r"\s*>)?", " MAX", e)
    e = re.sub(r"\(\s*" + INTEGRAL + r"\s*\)", " ", e)                       # C-style cast
    e = re.sub(r"(?<![\w:])" + INTEGRAL + r"\s*(?=\()", " ", e)              # function-style cast
    e = re.sub(r"\bthis\s*->\s*", " ", e)
    return e


# ------------------------------------------------------------------------------------------------------------------
# statements
# ------------------------------------------------------------------------------------------------------------------
def split_statements(body, what):
    """top-level statements of a block: `if (c) S [else S]`, `for (...) S`, `{...}`, and `...;`"""
    out, i, n = [], 0, len(body)
    while True:
        while i < n and body[i].isspace():
            i += 1
        if i >= n:
            return out
        st, i = one_statement(body, i, what)
        out.append(st)


def one_statement(body, i, what):
    n = len(body)
    while i < n and body[i].isspace():
        i += 1
    m = re.compile(r"(if|for|while)\s*\(").match(body, i)
    if m:
        head, j = balanced(body, m.end() - 1, "(", ")")
        inner, j = one_statement(body, j, what)
        if m.group(1) == "for":
            return ("for", head, inner), j
        if m.group(1) == "while":
            return ("while", head, inner), j
        k = j
        while k < n and body[k].isspace():
            k += 1
        if body.startswith("else", k) and not (body[k + 4:k + 5].isalnum() or body[k + 4:k + 5] == "_"):
            other, j = one_statement(body, k + 4, what)
            return ("if", head, inner, other), j
        return ("if", head, inner, None), j
    if body[i] == "{":
        inner, j = balanced(body, i)
        return ("block", split_statements(inner, what)), j
    j = i
    depth = 0
    while j < n:
        c = body[j]
        if c == '"':
            j += 1
            while j < n and body[j] != '"':
                j += 2 if body[j] == "\\" else 1
        elif c in "([{":
            depth += 1
        elif c in ")]}":
            depth -= 1
        elif c == ";" and depth == 0:
            return ("simple", " ".join(body[i:j].split())), j + 1
        j += 1
    raise TranslateError("%s: statement without ';': %r" % (what, body[i:i + 60]))


def flat(st):
    return st[1] if st[0] == "block" else [st]


def ser(st):
    """statement tree -> text"""
    if st[0] == "simple":
        return st[1] + ";"
    if st[0] == "for":
        return "for(%s) %s" % (st[1], ser(st[2]))
    if st[0] == "while":
        return "while(%s) %s" % (st[1], ser(st[2]))
    if st[0] == "if":
        return "if(%s) %s%s" % (st[1], ser(st[2]), (" else " + ser(st[3])) if st[3] is not None else "")
    return "{" + " ".join(ser(x) for x in st[1]) + "}"


def modifies(text, name):
    """does `text` (possibly) change the variable `name` or let its address escape?"""
    n = re.escape(name)
    return bool(re.search(r"\b%s\s*(?:=(?!=)|\+=|-=|\*=|/=|%%=|<<=|>>=|&=|\|=|\^=|\+\+|--)" % n, text) or
                re.search(r"(?:\+\+|--)\s*%s\b" % n, text) or re.search(r"(?<!&)&\s*%s\b" % n, text))


def subst(st, name, repl):
    pat = r"(?<![\w.>])%s\b" % re.escape(name)
    if st[0] == "simple":
        return ("simple", re.sub(pat, lambda m: repl, st[1]))
    if st[0] in ("for", "while"):
        return (st[0], re.sub(pat, lambda m: repl, st[1]), subst(st[2], name, repl))
    if st[0] == "if":
        return ("if", re.sub(pat, lambda m: repl, st[1]), subst(st[2], name, repl), subst(st[3], name, repl) if st[3] is not None else None)
    return ("block", [subst(x, name, repl) for x in st[1]])


def inline_locals(stmts, type_pat, pure, what, brackets=("(", ")")):
    """`[const] <type> name = <init>;` with a side-effect-free initialiser (`pure(init)`) and a name that is never modified
    afterwards is removed and its uses are replaced by `(<init>)` -- hoisting a loop invariant or naming an intermediate value
    does not change the statement list the grammar sees.  Names the initialiser reads must not be modified afterwards either."""
    out = list(stmts)
    k = 0
    while k < len(out):
        st = out[k]
        m = st[0] == "simple" and re.fullmatch(r"(?:const\s+)?(?:%s)\s*(?:const\s+)?(\w+)\s*=\s*(.*)" % type_pat, st[1])
        if m and pure(m.group(2)):
            name, init = m.group(1), m.group(2)
            rest = " ".join(ser(x) for x in out[k + 1:])
            reads = set(re.findall(r"[A-Za-z_]\w*", init))
            if not modifies(rest, name) and not any(modifies(rest, r) for r in reads) and \
                    not re.search(r"\b(?:%s)\s*[*&]?\s*(?:const\s+)?%s\b" % (type_pat, re.escape(name)), rest):
                out = out[:k] + [subst(x, name, brackets[0] + init + brackets[1]) for x in out[k + 1:]]
                continue
        k += 1
    return out


def leaves(st):
    """does control never continue after this statement (throw / return at its end)?"""
    inner = flat(st)
    if not inner:
        return False
    last = inner[-1]
    if last[0] == "simple":
        return re.match(r"(?:throw|return)\b", last[1]) is not None
    if last[0] == "if":
        return last[3] is not None and leaves(last[2]) and leaves(last[3])
    return last[0] == "block" and leaves(last)


def unnest_else(stmts):
    """`if (c) <leaves> else S`  ->  `if (c) <leaves>` S   (guard clause and if/else are the same control flow)"""
    out = []
    for st in stmts:
        if st[0] == "block":
            out.append(("block", unnest_else(st[1])))
        elif st[0] == "if" and st[3] is not None and leaves(st[2]):
            out.append(("if", st[1], st[2], None))
            out += unnest_else(flat(st[3]))
        else:
            out.append(st)
    return out


STRTYPE = r"std::string|auto"


def string_body(body, what):
    """body of a function that builds one string: named intermediate strings and `s += e;` steps are folded into the single
    `return <concatenation>;` the constant extraction looks at (concatenation is associative)"""
    stmts = split_statements(body, what)
    merged = []
    for st in stmts:
        m = st[0] == "simple" and re.fullmatch(r"(\w+)\s*\+=\s*(.*)", st[1])
        if m and merged and merged[-1][0] == "simple":
            d = re.fullmatch(r"((?:const\s+)?(?:%s)\s+%s\s*=\s*)(.*)" % (STRTYPE, re.escape(m.group(1))), merged[-1][1])
            if d and not re.search(r"\b%s\b" % re.escape(m.group(1)), m.group(2)):
                merged[-1] = ("simple", "%s%s + %s" % (d.group(1), d.group(2), m.group(2)))
                continue
        merged.append(st)
    pure = lambda e: not re.search(r"\+\+|--|(?<![=!<>+])=(?!=)", e)
    stmts = inline_locals(merged, STRTYPE, pure, what, brackets=("\u27e6", "\u27e7"))
    if len(stmts) != 1 or stmts[0][0] != "simple":
        return body
    return " " + stmts[0][1].replace("\u27e6", " ").replace("\u27e7", " ") + "; "


def while_to_for(stmts):
    """`T i = a; while (c) { body; ++i; }`  ->  `for (T i = a; c; ++i) { body }`  (i must not be changed in body; no continue)"""
    out = []
    k = 0
    while k < len(stmts):
        st = stmts[k]
        if st[0] == "while" and out and out[-1][0] == "simple":
            m = re.fullmatch(r"(" + INTEGRAL + r")\s+(\w+)\s*=\s*(.*)", out[-1][1])
            inner = flat(st[2])
            if m and inner and inner[-1][0] == "simple":
                iv = m.group(2)
                body = " ".join(ser(x) for x in inner[:-1])
                after = " ".join(ser(x) for x in stmts[k + 1:])
                if re.fullmatch(r"\+\+\s*%s|%s\s*\+\+|%s\s*\+=\s*1" % (iv, iv, iv), inner[-1][1]) and not modifies(body, iv) \
                        and not re.search(r"\bcontinue\b", body) and not re.search(r"\b%s\b" % iv, after):
                    out[-1] = ("for", "%s; %s; ++%s" % (out[-1][1], st[1], iv), ("block", inner[:-1]))
                    k += 1
                    continue
        out.append(st)
        k += 1
    return out


# ------------------------------------------------------------------------------------------------------------------
# normalizeIndex
# ------------------------------------------------------------------------------------------------------------------
def compile_index(stmts, env, sizes, what, depth=0):
    """statement list -> Lean expression of type Option Int (continuation style; `if` duplicates the rest).  Locals are named
    by position (`v1`, `v2`, ... along each path), so renaming a variable does not change the output."""
    ind = "  " * (depth + 1)
    if not stmts:
        raise TranslateError("%s: control reaches the end without return / throw" % what)
    st, rest = stmts[0], stmts[1:]
    if st[0] == "block":
        return compile_index(st[1] + rest, env, sizes, what, depth)
    if st[0] == "if":
        c = Expr(normalise(st[1], sizes), what, env, "Int").parse("B")
        a = compile_index(flat(st[2]) + rest, dict(env), sizes, what, depth + 1)
        b = compile_index((flat(st[3]) if st[3] is not None else []) + rest, dict(env), sizes, what, depth + 1)
        return "if %s then\n%s  %s\n%selse\n%s  %s" % (c, ind, a, ind, ind, b)
    if st[0] != "simple":
        raise TranslateError("%s: unsupported statement %r" % (what, st[0]))
    s = st[1]
    if re.fullmatch(r"throw\s+pybind11::index_error\s*\(\s*\)", s):
        return "none"
    m = re.fullmatch(r"throw\b.*", s)
    if m:
        raise TranslateError("%s: throws something other than pybind11::index_error: %r" % (what, s))
    m = re.fullmatch(r"return\s+(.*)", s)
    if m:
        return "some (%s)" % Expr(normalise(m.group(1), sizes), what, env, "Int").parse("N")
    env2 = dict(env)
    env2["#"] = env.get("#", 0) + 1
    new = "v%d" % env2["#"]
    m = re.fullmatch(DECL + r"\s+(\w+)\s*=\s*(.*)", s)
    if m:
        e = Expr(normalise(m.group(2), sizes), what, env, "Int").parse("N")
        env2[m.group(1)] = new
        return "let %s : Int := %s\n%s%s" % (new, e, ind, compile_index(rest, env2, sizes, what, depth))
    m = re.fullmatch(r"(\w+)\s*(\+=|-=|=)\s*(.*)", s)
    if m and m.group(1) in env and m.group(1) not in ("SIZE", "#"):
        e = Expr(normalise(m.group(3), sizes), what, env, "Int").parse("N")
        cur = env[m.group(1)]
        val = {"=": e, "+=": "(%s + %s)" % (cur, e), "-=": "(%s - %s)" % (cur, e)}[m.group(2)]
        env2[m.group(1)] = new
        return "let %s : Int := %s\n%s%s" % (new, val, ind, compile_index(rest, env2, sizes, what, depth))
    raise TranslateError("%s: statement outside the grammar: %r" % (what, s))


SIGNED = r"(?:pybind11::ssize_t|ssize_t|std::ptrdiff_t)"


def split_params(params):
    out, depth, cur = [], 0, ""
    for c in params:
        if c in "<([":
            depth += 1
        elif c in ">)]":
            depth -= 1
        if c == "," and depth == 0:
            out.append(" ".join(cur.split()))
            cur = ""
        else:
            cur += c
    if cur.strip():
        out.append(" ".join(cur.split()))
    return out


def lambda_at(src, pos, what):
    """src[pos] == '[' of a lambda expression -> (captures, [parameters], trailing return type or None, body, end)"""
    caps, j = balanced(src, pos, "[", "]")
    m = re.compile(r"\s*(?=\()").match(src, j)
    if not m:
        raise TranslateError("%s: lambda without parameter list" % what)
    params, j = balanced(src, m.end(), "(", ")")
    m = re.compile(r"\s*(?:->\s*([\w:<>, ]+?)\s*)?(?=\{)").match(src, j)
    if not m:
        raise TranslateError("%s: lambda outside the grammar at %r" % (what, src[j:j + 40]))
    body, end = balanced(src, m.end())
    return caps, split_params(params), m.group(1), body, end


def find_index_helper(src, name, what):
    """the function the item accessors delegate to: a local closure `auto name = [...] (const T &s, ssize_t i) [-> R] {...}` or a
    function (template) `R name (const T &s, ssize_t i) {...}` of the same header -> (self name, index name, body)"""
    cands = []
    for m in re.finditer(r"\b(?:const\s+)?auto\s+(?:const\s+)?%s\s*=\s*(?=\[)" % re.escape(name), src):
        _, params, ret, body, _ = lambda_at(src, m.end(), what)
        cands.append((params, ret, body))
    for m in re.finditer(r"(?<![\w:.>])(" + INTEGRAL + r"|auto)\s+%s\s*(?=\()" % re.escape(name), src):
        params, j = balanced(src, m.end(), "(", ")")
        mm = re.compile(r"\s*(?:noexcept\s*)?(?:->\s*([\w:<>, ]+?)\s*)?(?=\{)").match(src, j)
        if not mm:
            continue    # a declaration or a call
        body, _ = balanced(src, mm.end())
        cands.append((split_params(params), mm.group(1) or m.group(1), body))
    if len(cands) != 1:
        raise TranslateError("%s: %d definitions of the index helper %r found" % (what, len(cands), name))
    params, ret, body = cands[0]
    if ret is not None and not re.fullmatch(INTEGRAL + r"|auto", ret.strip()):
        raise TranslateError("%s: index helper %r returns %r" % (what, name, ret))
    if len(params) != 2:
        raise TranslateError("%s: index helper %r does not take (vector, index)" % (what, name))
    m0 = re.fullmatch(r"(?:const\s+(?:T|auto)|(?:T|auto)\s+const)\s*&\s*(\w+)", params[0])
    m1 = re.fullmatch(r"(?:const\s+)?" + SIGNED + r"(?:\s+const)?\s+(\w+)", params[1])
    if not m0 or not m1:
        raise TranslateError("%s: index helper %r has parameters %r" % (what, name, params))
    return m0.group(1), m1.group(1), body


def tr_normalize_index(src):
    """both item accessors with a signed index must normalise it in the same way: through one helper (closure or function of
    the header), or in place; the Lean function is compiled from whatever statements lead to the index expression"""
    results = {}
    for name in ("__getitem__", "__setitem__"):
        what = "densevector.hh %s" % name
        idx_seen = big_seen = 0
        for m in re.finditer(r'"%s"\s*,\s*(?=\[)' % name, src):
            caps, params, ret, body, _ = lambda_at(src, m.end(), what)
            want_n = 2 if name == "__getitem__" else 3
            if len(params) != want_n:
                raise TranslateError("%s: %d parameters" % (what, len(params)))
            selfpat = r"(?:const\s+(?:T|auto)|(?:T|auto)\s+const)\s*&\s*(\w*)" if name == "__getitem__" else r"(?:T|auto)\s*&\s*(\w*)"
            m0 = re.fullmatch(selfpat, params[0])
            if not m0:
                raise TranslateError("%s: first parameter %r" % (what, params[0]))
            if name == "__getitem__" and (ret is None or ret.strip() != "ValueType"):
                raise TranslateError("%s: return type %r is not ValueType" % (what, ret))
            if re.fullmatch(r"(?:const\s+)?pybind11::int_(?:\s+const)?\s*&?\s*\w*", params[1]):
                # the overload for Python integers beyond ssize_t
                big_seen += 1
                if not re.fullmatch(r"\s*throw\s+pybind11::index_error\s*\(\s*\)\s*;\s*", body):
                    raise TranslateError("densevector.hh: %s(pybind11::int_) does more than throw index_error: %r" % (name, body))
                continue
            m1 = re.fullmatch(r"(?:const\s+)?" + SIGNED + r"(?:\s+const)?\s+(\w+)", params[1])
            if not m1 or not m0.group(1):
                raise TranslateError("%s: overload with parameters %r is outside the grammar" % (what, params))
            idx_seen += 1
            s, i = m0.group(1), m1.group(1)
            xv = None
            if name == "__setitem__":
                m2 = re.fullmatch(r"(?:const\s+)?ValueType(?:\s+const)?\s*&?\s*(\w+)", params[2])
                if not m2:
                    raise TranslateError("%s: value parameter %r" % (what, params[2]))
                xv = m2.group(1)
            call = r"(?:(?:\w+::)*)(\w+)\s*\(\s*%s\s*,\s*%s\s*\)" % (re.escape(s), re.escape(i))
            stmts = split_statements(body, what)
            stmts = inline_locals(stmts, INTEGRAL + r"|auto", lambda e: re.fullmatch(call, e.strip()) is not None, what)
            if not stmts or stmts[-1][0] != "simple":
                raise TranslateError("%s: body does not end with the access" % what)
            last = stmts[-1][1]
            if name == "__getitem__":
                ma = re.fullmatch(r"return\s+%s\s*\[(.*)\]" % re.escape(s), last)
            else:
                ma = re.fullmatch(r"%s\s*\[(.*)\]\s*=\s*%s" % (re.escape(s), re.escape(xv)), last)
            if not ma or ma.group(1).count("[") != ma.group(1).count("]"):
                raise TranslateError("densevector.hh: body of %s(ssize_t) is not the plain access: %r" % (name, last))
            e = unparen_src(ma.group(1))
            mc = re.fullmatch(call, e)
            if mc and len(stmts) == 1:
                hs, hi, hbody = find_index_helper(src, mc.group(1), what)
                sizes = [(r"\b%s\s*\.\s*size\s*\(\s*\)" % re.escape(hs), "SIZE")]
                lean = compile_index(split_statements(hbody, what), {hi: "i", "SIZE": "size"}, sizes, "normalizeIndex")
            else:
                sizes = [(r"\b%s\s*\.\s*size\s*\(\s*\)" % re.escape(s), "SIZE")]
                lean = compile_index(stmts[:-1] + [("simple", "return " + e)], {i: "i", "SIZE": "size"}, sizes, what)
            results[name] = lean
        if idx_seen != 1:
            raise TranslateError("densevector.hh: %d overloads %s(ssize_t) found, expected 1" % (idx_seen, name))
        if big_seen != 1:
            raise TranslateError("densevector.hh: %s(pybind11::int_) overload not found" % name)
    if results["__getitem__"] != results["__setitem__"]:
        raise TranslateError("densevector.hh: __getitem__ and __setitem__ normalise the index differently")
    return results["__getitem__"]


def unparen_src(e):
    e = e.strip()
    while e.startswith("(") and e.endswith(")"):
        try:
            inner, end = balanced(e, 0, "(", ")")
        except TranslateError:
            return e
        if end != len(e):
            return e
        e = inner.strip()
    return e


# ------------------------------------------------------------------------------------------------------------------
# copy loops
# ------------------------------------------------------------------------------------------------------------------
ALLOC_PTR = [r"(?:FV|DV|auto)\s*\*\s*(?:const\s+)?(\w+)\s*=\s*new\s+(?:FV|DV)\s*\((.*)\)",
             r"auto\s+(?:const\s+)?(\w+)\s*=\s*new\s+(?:FV|DV)\s*\((.*)\)"]
ALLOC_VAL = [r"(?:FV|DV)\s+(\w+)\s*\((.*)\)", r"(?:FV|DV|auto)\s+(\w+)\s*=\s*(?:FV|DV)\s*\((.*)\)"]
# note: `FV v{ K(0) }` is NOT the same (initializer-list constructor), braces stay outside the grammar


def tr_loop(body, what, sizes, src_name, allow_prefix=False, selfname=None, extra=None):
    """`<zero-initialised vector>; [const] size_t sz = E; for (size_t i = E0; i < E1; ++i) dst[Ed] = src[Es].cast<K>(); return`
    -> dict(init, first, bound, dst, src) of Lean terms over (size len : Nat) / (i : Nat).
    Accepted respellings: declarations of integral locals anywhere (they are substituted), `if (c) n = e;` on such a local,
    `while` loop with a trailing `++i`, the early exit of `copy` as guard clause / with `else` / inverted, `auto`, pointer or
    value vector, commuted loop test, `i++` / `i += 1`, `.cast<K>()` / `.template cast<K>()` / `pybind11::cast<K>(..)`.
    `extra` (buffer constructor): names the source index may use besides the loop counter; it is signed arithmetic then."""
    stmts = body if isinstance(body, list) else split_statements(body, what)
    stmts = while_to_for(stmts)
    # the vector that is filled: its `.size()` is the template parameter
    dstvar, is_ptr = None, False
    for st in stmts + [x for st in stmts if st[0] == "if" for br in st[2:] if br is not None for x in flat(br)]:
        if st[0] == "simple":
            for pats, ptr in ((ALLOC_PTR, True), (ALLOC_VAL, False)):
                for pat in pats:
                    m = re.fullmatch(pat, st[1])
                    if m and dstvar is None:
                        dstvar, is_ptr = m.group(1), ptr
    if dstvar is None:
        raise TranslateError("%s: the vector that is filled is not declared in the grammar's forms" % what)
    d = re.escape(dstvar)
    own_size = "SIZE"
    for st in stmts:
        for pat in (ALLOC_PTR + ALLOC_VAL) if st[0] == "simple" else ():
            m = re.fullmatch(pat, st[1])
            if m and len(split_params(m.group(2))) == 2:
                own_size = "(" + split_params(m.group(2))[0] + ")"     # DV(n, K(0)): its size() is n
    sizes = [(r"\(\s*\*\s*%s\s*\)\s*\.\s*size\s*\(\s*\)|\b%s\s*->\s*size\s*\(\s*\)" % (d, d) if is_ptr
              else r"\b%s\s*\.\s*size\s*\(\s*\)" % d, own_size)] + list(sizes)
    env = {"SIZE": "size", "LEN": "len"}
    res = {"prefix": None}
    state = 0

    def selfcopy(st):
        inner = flat(st)
        return len(inner) == 1 and inner[0][0] == "simple" and selfname is not None and \
            re.fullmatch(r"return\s+(?:FV\s*\(\s*%s\s*\)|%s)" % (selfname, selfname), inner[0][1]) is not None

    # early exit of `copy`: normalise to the guard clause `if (c) return FV(self);` followed by the rest
    if allow_prefix:
        for k, st in enumerate(stmts):
            if st[0] != "if":
                continue
            if selfcopy(st[2]):
                stmts = stmts[:k] + [("if", st[1], st[2], None)] + (flat(st[3]) if st[3] is not None else []) + stmts[k + 1:]
            elif st[3] is None and k + 2 == len(stmts) and selfcopy(stmts[k + 1]):
                stmts = stmts[:k] + [("if", "!(" + st[1] + ")", stmts[k + 1], None)] + flat(st[2])
            elif st[3] is not None and selfcopy(st[3]):
                stmts = stmts[:k] + [("if", "!(" + st[1] + ")", st[3], None)] + flat(st[2]) + stmts[k + 1:]
            break
    for st in stmts:
        if st[0] == "if" and allow_prefix and state == 0 and res["prefix"] is None and st[3] is None and selfcopy(st[2]):
            res["prefix"] = Expr(normalise(st[1], sizes), what, env, "Nat").parse("B")
            continue
        if st[0] == "if" and st[3] is None:
            # `if (c) n = e;` on an integral local
            inner = flat(st[2])
            m = len(inner) == 1 and inner[0][0] == "simple" and re.fullmatch(r"(\w+)\s*=\s*(.*)", inner[0][1])
            if m and m.group(1) in env and m.group(1) not in ("SIZE", "LEN") and state < 2:
                env[m.group(1)] = atom(Expr(normalise("(%s) ? (%s) : %s" % (st[1], m.group(2), m.group(1)), sizes),
                                            what, env, "Nat").parse("N"))
                continue
            raise TranslateError("%s: unexpected conditional %r" % (what, ser(st)))
        if st[0] == "simple":
            s = st[1]
            m = None
            for pat in (ALLOC_PTR if is_ptr else ALLOC_VAL):
                m = m or re.fullmatch(pat, s)
            if m and state == 0 and m.group(1) == dstvar:
                args = split_params(m.group(2))
                mm = re.fullmatch(r"K\s*\(\s*(\d+)\s*\)", args[-1]) if args else None
                if not mm:
                    raise TranslateError("%s: vector is not initialised with K(<literal>): %r" % (what, s))
                res["init"] = mm.group(1)
                if len(args) == 2:
                    res["alloc"] = Expr(normalise(args[0], sizes), what, env, "Nat").parse("N")
                elif len(args) != 1:
                    raise TranslateError("%s: unexpected constructor arguments %r" % (what, s))
                state = 1
                continue
            m = re.fullmatch(DECL + r"\s+(\w+)\s*=\s*(.*)", s)
            if m and state < 2:
                env[m.group(1)] = atom(Expr(normalise(m.group(2), sizes), what, env, "Nat").parse("N"))
                continue
            m = re.fullmatch(r"(\w+)\s*=\s*(.*)", s)
            if m and m.group(1) in env and m.group(1) not in ("SIZE", "LEN") and state < 2:
                env[m.group(1)] = atom(Expr(normalise(m.group(2), sizes), what, env, "Nat").parse("N"))
                continue
            if re.fullmatch(r"(?:const\s+)?(?:pybind11::buffer_info|auto)\s+(?:const\s+)?\w+\s*=\s*\w+\s*\.\s*request\s*\(\s*\)", s) \
                    and extra is not None and state == 0:
                continue
            m = re.fullmatch(r"return\s+(\w+)", s)
            if m and state == 2 and m.group(1) == dstvar:
                state = 3
                continue
            raise TranslateError("%s: statement outside the grammar: %r" % (what, s))
        if st[0] == "for" and state == 1:
            head = [h.strip() for h in st[1].split(";")]
            if len(head) != 3:
                raise TranslateError("%s: for header %r" % (what, st[1]))
            m = re.fullmatch(INTEGRAL + r"\s+(\w+)\s*=\s*(.*)", head[0])
            if not m:
                raise TranslateError("%s: for initialisation %r" % (what, head[0]))
            iv = m.group(1)
            res["first"] = Expr(normalise(m.group(2), sizes), what, env, "Nat").parse("N")
            if not re.fullmatch(r"\+\+\s*%s|%s\s*\+\+|%s\s*\+=\s*1" % (iv, iv, iv), head[2]):
                raise TranslateError("%s: loop increment %r" % (what, head[2]))
            m = re.fullmatch(r"%s\s*(<|!=|<=)\s*(.*)" % iv, head[1])
            if m:
                op, be = m.group(1), m.group(2)
            else:
                m = re.fullmatch(r"(.*?)\s*(>|!=|>=)\s*%s" % iv, head[1])
                if not m:
                    raise TranslateError("%s: loop condition %r" % (what, head[1]))
                op, be = {">": "<", "!=": "!=", ">=": "<="}[m.group(2)], m.group(1)
            b = Expr(normalise(be, sizes), what, env, "Nat").parse("N")
            res["bound"] = "(%s + 1)" % b if op == "<=" else b
            inner = flat(st[2])
            if len(inner) != 1 or inner[0][0] != "simple":
                raise TranslateError("%s: loop body is not one assignment" % what)
            s = inner[0][1]
            if modifies(s, iv):
                raise TranslateError("%s: loop body changes the counter: %r" % (what, s))
            ienv = dict(env)
            ienv[iv] = "i"
            dpat = (r"\(\s*\*\s*%s\s*\)" % d) if is_ptr else d
            if extra is not None:
                m = re.fullmatch(r"%s\s*\[(.*?)\]\s*=\s*%s\s*\[(.*)\]" % (dpat, src_name), s)
            else:
                m = re.fullmatch(r"%s\s*\[(.*?)\]\s*=\s*%s\s*\[(.*)\]\s*\.\s*(?:template\s+)?cast\s*<\s*K\s*>\s*\(\s*\)" % (dpat, src_name), s) or \
                    re.fullmatch(r"%s\s*\[(.*?)\]\s*=\s*pybind11::cast\s*<\s*K\s*>\s*\(\s*%s\s*\[(.*)\]\s*\)" % (dpat, src_name), s)
            if not m:
                raise TranslateError("%s: loop body outside the grammar: %r" % (what, s))
            res["dst"] = Expr(normalise(m.group(1), sizes), what, ienv, "Nat").parse("N")
            if extra is not None:
                senv = {iv: "i"}
                senv.update(extra)
                res["src"] = Expr(normalise(m.group(2), sizes), what, senv, "Int").parse("N")
            else:
                res["src"] = Expr(normalise(m.group(2), sizes), what, ienv, "Nat").parse("N")
            state = 2
            continue
        raise TranslateError("%s: unexpected statement %r in state %d" % (what, st[0], state))
    if state != 3:
        raise TranslateError("%s: constructor does not end with `return <the vector>`" % what)
    return res, env


def lean_loop(name, r, doc):
    return ("/-- %s -/\ndef %s : CopyLoop :=\n  { init := %s\n    first := fun size len => %s\n    bound := fun size len => %s\n"
            "    dst := fun i => %s\n    src := fun i => %s }\n"
            % (doc, name, r["init"], r["first"], r["bound"], r["dst"], r["src"]))


def tr_stride(text, sizes):
    """the element stride.  This is the one place where the translation is NOT done in exact integers: `strides[0]` is signed
    and may be negative (reversed view), `sizeof(K)` is a std::size_t.  Written `strides[0] / sizeof(K)` the usual arithmetic
    conversions make the division unsigned (-8 / 8 = 2^61 - 1; `i*stride` then overflows: fixed by 5a41cb5); the generated
    term says so (`wrapS64 (Int.tdiv (stride0 % 2^64) w)`), and `gen_buffer_ctor` does not hold for it.  With the item size
    converted to a signed type first (cast in any syntax) it is the signed division the theorem is about."""
    what = "fvector.hh Buffer stride"
    t = text
    for pat in (r"static_cast\s*<\s*" + SIGNED + r"\s*>\s*\(\s*sizeof\s*\(\s*K\s*\)\s*\)", SIGNED + r"\s*\(\s*sizeof\s*\(\s*K\s*\)\s*\)",
                r"\(\s*" + SIGNED + r"\s*\)\s*sizeof\s*\(\s*K\s*\)"):
        t = re.sub(pat, " W ", t)
    t = re.sub(r"sizeof\s*\(\s*K\s*\)", " UW ", t)
    if re.search(r"\b(?:std::size_t|size_t|unsigned|uint\w*)\b", t):
        raise TranslateError("%s: conversion to an unsigned type in %r" % (what, text))
    env = {"STRIDE0": "stride0", "W": "w", "UW": "w"}
    e = Expr(normalise(t, [p for p in sizes if p[1] != "W"]), what, env, "Int")
    toks = [x for x in e.t if x not in ("(", ")")]
    if "UW" not in toks:
        return e.parse("N")
    if toks == ["STRIDE0", "/", "UW"]:
        e.parse("N")
        return "wrapS64 (Int.tdiv (stride0 % 18446744073709551616) w)"
    raise TranslateError("%s: unsigned item size in %r: outside the grammar" % (what, text))


def tr_fvector(src):
    out = []
    found = {}
    for kind, pat in (("Tuple", r"pybind11::init\s*\(\s*(?=\[)"), ("List", r"pybind11::init\s*\(\s*(?=\[)"),
                      ("Args", r"pybind11::init\s*\(\s*(?=\[)"), ("Copy", r'"copy"\s*,\s*(?=\[)')):
        ptype = "pybind11::" + ("args" if kind == "Copy" else kind.lower())
        hits = []
        for m in re.finditer(pat, src):
            _, params, ret, body, _ = lambda_at(src, m.end(), "fvector.hh " + kind)
            if kind == "Copy":
                m0 = len(params) == 2 and re.fullmatch(r"(?:const\s+FV|FV(?:\s+const)?)\s*&\s*(\w+)", params[0])
                mx = m0 and re.fullmatch(r"(?:const\s+)?%s(?:\s+const)?\s*&?\s*(\w+)" % ptype, params[1])
                if mx:
                    hits.append((mx.group(1), m0.group(1), body))
            else:
                mx = len(params) == 1 and re.fullmatch(r"(?:const\s+)?%s(?:\s+const)?\s*&?\s*(\w+)" % ptype, params[0])
                if mx:
                    hits.append((mx.group(1), None, body))
        if len(hits) != 1:
            raise TranslateError("fvector.hh: %s constructor / copy not found" % kind)
        x, selfname, body = hits[0]
        sizes = [(r"\b%s\s*\.\s*size\s*\(\s*\)" % re.escape(x), "LEN"), (r"\b%s\s*\.\s*empty\s*\(\s*\)" % re.escape(x), "(LEN == 0)")]
        if selfname:
            sizes.append((r"\b%s\s*\.\s*size\s*\(\s*\)" % re.escape(selfname), "SIZE"))
        sizes.append((r"\bsize\b", "SIZE"))
        r, _ = tr_loop(body, "fvector.hh " + kind, sizes, re.escape(x), allow_prefix=(kind == "Copy"), selfname=selfname)
        found[kind] = r
        out.append(lean_loop("loop" + kind, r, "fvector.hh: copy loop of the %s" %
                             ("`copy(*args)` method" if kind == "Copy" else kind.lower() + " constructor")))
    if found["Copy"]["prefix"] is None:
        raise TranslateError("fvector.hh copy: the `no arguments -> copy of self` exit is missing")
    out.append("/-- fvector.hh `copy(*args)`: when the copy of `self` is returned instead of running the loop -/\n"
               "def copyReturnsSelf (size len : Nat) : Bool := %s\n" % found["Copy"]["prefix"])
    # buffer constructor
    m = re.search(r"pybind11::init\s*\(\s*\[\s*\]\s*\(\s*(?:const\s+)?pybind11::buffer(?:\s+const)?\s*&?\s*(\w+)\s*\)\s*", src)
    if not m:
        raise TranslateError("fvector.hh: buffer constructor not found")
    body, _ = balanced(src, m.end())
    mi = re.search(r"(?:pybind11::buffer_info|auto)\s+(?:const\s+)?(\w+)\s*=\s*%s\s*\.\s*request\s*\(\s*\)" % m.group(1), body)
    if not mi:
        raise TranslateError("fvector.hh buffer constructor: no buffer_info")
    info = mi.group(1)
    # the two checks, in any order, each `if (cond) throw pybind11::value_error(...)`
    checks = []
    stmts = unnest_else(split_statements(body, "fvector.hh Buffer"))
    rest = []
    for st in stmts:
        if st[0] == "if":
            inner = flat(st[2])
            if st[3] is not None or len(inner) != 1 or inner[0][0] != "simple" or \
                    not re.fullmatch(r"throw\s+pybind11::value_error\s*\(.*\)", inner[0][1]):
                raise TranslateError("fvector.hh buffer constructor: unexpected conditional %r" % (st,))
            c = "".join(st[1].split())
            if c in ("%s.format!=pybind11::format_descriptor<K>::format()" % info,
                     "pybind11::format_descriptor<K>::format()!=%s.format" % info,
                     "!(%s.format==pybind11::format_descriptor<K>::format())" % info):
                checks.append("format")
            elif c in ("%s.ndim!=1" % info, "1!=%s.ndim" % info, "!(%s.ndim==1)" % info):
                checks.append("ndim")
            else:
                raise TranslateError("fvector.hh buffer constructor: check outside the grammar: %r" % c)
        else:
            rest.append(st)
    if sorted(checks) != ["format", "ndim"]:
        raise TranslateError("fvector.hh buffer constructor: expected the format and the ndim check, found %r" % checks)
    # re-serialise the remaining statements for tr_loop
    sizes = [(r"\b%s\s*\.\s*shape\s*\[\s*0\s*\]" % info, "LEN"), (r"\b%s\s*\.\s*strides\s*\[\s*0\s*\]" % info, "STRIDE0"),
             (r"sizeof\s*\(\s*K\s*\)", "W"), (r"\bsize\b", "SIZE")]
    # the stride declaration is signed arithmetic: translate it separately
    stride_expr, stride_name, body2 = None, None, []
    for st in rest:
        if st[0] == "simple":
            mm = re.fullmatch(DECL + r"\s+(\w+)\s*=\s*(.*)", st[1])
            if mm and re.search(r"\bstrides\b", mm.group(2)):
                stride_name = mm.group(1)
                stride_expr = tr_stride(mm.group(2), sizes)
                continue
        body2.append(st)
    if stride_expr is None:
        raise TranslateError("fvector.hh buffer constructor: stride computation not found")

    # a named / hoisted `static_cast<K *>(info.ptr)` is the same pointer
    ptrcast = r"(?:(?:static_cast|reinterpret_cast)\s*<\s*(?:const\s+)?K\s*(?:const\s*)?\*\s*>\s*\(\s*%s\s*\.\s*ptr\s*\)" \
              r"|\(\s*(?:const\s+)?K\s*(?:const\s*)?\*\s*\)\s*%s\s*\.\s*ptr\b)" % (info, info)
    body2 = inline_locals(body2, r"K\s*\*|K\s+const\s*\*|auto\s*\*?", lambda e: re.fullmatch(ptrcast, e.strip()) is not None,
                          "fvector.hh Buffer")
    text = " ".join(ser(x) for x in body2)
    text = re.sub(ptrcast, "PTR", text)
    text = re.sub(r"\(\s*PTR\s*\)", "PTR", text)
    text = re.sub(r"\b%s\b" % stride_name, "STRIDE", text)
    r, env = tr_loop(text, "fvector.hh Buffer", sizes, "PTR", extra={"STRIDE": "stride"})
    out.append("/-- fvector.hh buffer constructor: element stride from `strides[0]` (bytes) and the item size -/\n"
               "def bufStride (stride0 w : Int) : Int := %s\n" % stride_expr)
    out.append("/-- fvector.hh buffer constructor: zero-initialised, `dst[dst i] = ptr[src i stride]` for `first ≤ i < bound` -/\n"
               "def bufInit : Int := %s\ndef bufFirst (size len : Nat) : Nat := %s\ndef bufBound (size len : Nat) : Nat := %s\n"
               "def bufDst (i : Nat) : Nat := %s\ndef bufSrc (i stride : Int) : Int := %s\n"
               % (r["init"], r["first"], r["bound"], r["dst"], r["src"]))
    # string constants
    m = re.search(r"to_string\s*\(\s*const\s+FieldVector\s*<\s*K\s*,\s*size\s*>\s*&\s*(\w+)\s*\)\s*", src)
    if not m:
        raise TranslateError("fvector.hh: to_string(FieldVector) not found")
    body, _ = balanced(src, m.end())
    body = string_body(body, "fvector.hh to_string")
    mm = re.fullmatch(r'\s*return\s*"((?:[^"\\]|\\.)*)"\s*\+\s*join\s*\(\s*"((?:[^"\\]|\\.)*)"\s*,(.*),\s*(\w+)\s*\.\s*begin\s*\(\s*\)\s*,'
                      r'\s*(\w+)\s*\.\s*end\s*\(\s*\)\s*\)\s*\+\s*"((?:[^"\\]|\\.)*)"\s*;\s*', body, flags=re.S)
    if not mm or mm.group(4) != m.group(1) or mm.group(5) != m.group(1):
        raise TranslateError("fvector.hh: to_string(FieldVector) is not `open + join(delim, fmt, x.begin(), x.end()) + close`")
    if not re.fullmatch(r"\s*\[\s*\]\s*\(\s*auto\s*&&\s*(\w+)\s*\)\s*\{\s*return\s+to_string\s*\(\s*\1\s*\)\s*;\s*\}\s*", mm.group(3)):
        raise TranslateError("fvector.hh: to_string(FieldVector) formats the entries with something else than to_string")
    out.append('/-- fvector.hh `to_string(FieldVector)`: `open + join(delim, entries) + close` -/\n'
               'def strOpen : String := "%s"\ndef strDelim : String := "%s"\ndef strClose : String := "%s"\n'
               % (mm.group(1), mm.group(2), mm.group(6)))
    mr = re.search(r'"__repr__"\s*,\s*\[\s*\]\s*\(\s*const\s+FV\s*&\s*(\w+)\s*\)\s*', src)
    if not mr:
        raise TranslateError("fvector.hh: __repr__ not found")
    body, _ = balanced(src, mr.end())
    body = string_body(body, "fvector.hh __repr__")
    mm = re.fullmatch(r'\s*return\s*"((?:[^"\\]|\\.)*)"\s*\+\s*to_string\s*\(\s*size\s*\)\s*\+\s*"((?:[^"\\]|\\.)*)"\s*\+\s*'
                      r'to_string\s*\(\s*%s\s*\)\s*;\s*' % mr.group(1), body)
    if not mm:
        raise TranslateError("fvector.hh: __repr__ is not `prefix + to_string(size) + mid + to_string(self)`")
    out.append('/-- fvector.hh `__repr__`: `reprOpen ++ size ++ reprMid ++ str(self)` -/\n'
               'def reprOpen : String := "%s"\ndef reprMid : String := "%s"\n' % (mm.group(1), mm.group(2)))
    ms = re.search(r'"__str__"\s*,\s*\[\s*\]\s*\(\s*const\s+FV\s*&\s*(\w+)\s*\)\s*', src)
    if not ms:
        raise TranslateError("fvector.hh: __str__ not found")
    body, _ = balanced(src, ms.end())
    body = string_body(body, "fvector.hh __str__")
    if not re.fullmatch(r"\s*return\s+to_string\s*\(\s*%s\s*\)\s*;\s*" % ms.group(1), body):
        raise TranslateError("fvector.hh: __str__ is not to_string(self)")
    return out


def tr_dynvector(src):
    m = re.search(r"pybind11::init\s*\(\s*\[\s*\]\s*\(\s*pybind11::list\s+(\w+)\s*\)\s*", src)
    if not m:
        raise TranslateError("dynvector.hh: list constructor not found")
    body, _ = balanced(src, m.end())
    x = m.group(1)
    # `std::size_t size = x.size();` : the vector's size is a local here
    sizes = [(r"\b%s\s*\.\s*size\s*\(\s*\)" % re.escape(x), "LEN")]
    r, env = tr_loop(body, "dynvector.hh List", sizes, re.escape(x))
    if "alloc" not in r:
        raise TranslateError("dynvector.hh: DV(size, K(0)) allocation not found")
    out = [lean_loop("loopDyn", r, "dynvector.hh: copy loop of the list constructor (the `size` argument is not used)"),
           "/-- dynvector.hh list constructor: number of entries allocated -/\ndef dynAlloc (size len : Nat) : Nat := %s\n" % r["alloc"]]
    mr = re.search(r'"__repr__"\s*,\s*\[\s*\]\s*\(\s*const\s+DV\s*&\s*(\w+)\s*\)\s*', src)
    if not mr:
        raise TranslateError("dynvector.hh: __repr__ not found")
    body, _ = balanced(src, mr.end())
    strs = re.findall(r'"((?:[^"\\]|\\.)*)"', body)
    v = re.escape(mr.group(1))
    shape = re.sub(r'"((?:[^"\\]|\\.)*)"', "S", " ".join(body.split()))
    shape = re.sub(r"\s+", "", shape)
    # `R = open; for (i = 0; i < v.size(); ++i) R += (i > 0 ? delim : "") + std::to_string(v[i]); R += close; return R;`
    # with any names, the loop test / increment / `first entry?` test in any of their spellings, optional braces
    mm = re.fullmatch(r"(?:std::string|auto)(?P<r>\w+)=(?:S|std::string\(S\));for\((?:std::size_t|size_t)(?P<i>\w+)=0;"
                      r"(?:(?P=i)(?:<|!=)%s\.size\(\)|%s\.size\(\)(?:>|!=)(?P=i));(?:\+\+(?P=i)|(?P=i)\+\+|(?P=i)\+=1)\)\{?"
                      r"(?P=r)\+=\((?P<c>[^?]*)\?S:S\)\+std::to_string\(%s\[(?P=i)\]\);\}?(?P=r)\+=S;return(?P=r);" % (v, v, v), shape)
    if not mm or len(strs) != 4:
        raise TranslateError("dynvector.hh: __repr__ outside the grammar: %r" % shape)
    i, c = mm.group("i"), mm.group("c")
    c = c[1:-1] if c.startswith("(") and c.endswith(")") else c
    if c in ("%s>0" % i, "0<%s" % i, "%s!=0" % i, "0!=%s" % i, "%s>=1" % i, "1<=%s" % i):
        delim, first = strs[1], strs[2]
    elif c in ("%s==0" % i, "0==%s" % i, "!%s" % i, "%s<1" % i, "1>%s" % i):
        delim, first = strs[2], strs[1]
    else:
        raise TranslateError("dynvector.hh: __repr__ chooses the delimiter by %r" % c)
    if first != "":
        raise TranslateError("dynvector.hh: __repr__ puts %r before the first entry" % first)
    strs = [strs[0], delim, first, strs[3]]
    out.append('/-- dynvector.hh `__repr__`: `dynOpen ++ entries joined by dynDelim ++ dynClose` -/\n'
               'def dynOpen : String := "%s"\ndef dynDelim : String := "%s"\ndef dynClose : String := "%s"\n'
               % (strs[0], strs[1], strs[3]))
    return out


# ------------------------------------------------------------------------------------------------------------------
# what is bound
# ------------------------------------------------------------------------------------------------------------------
def canon_params(params):
    out, depth, cur = [], 0, ""
    for c in params:
        if c in "<([":
            depth += 1
        elif c in ">)]":
            depth -= 1
        if c == "," and depth == 0:
            out.append(cur)
            cur = ""
        else:
            cur += c
    if cur.strip():
        out.append(cur)
    res = []
    for p in out:
        p = re.sub(r"\bconst\b", " ", p).replace("&", " ")
        p = re.sub(r"\b\w+::", "", p)
        words = p.split()
        if len(words) >= 2 and re.fullmatch(r"\w+", words[-1]):
            words = words[:-1]
        res.append("".join(words))
    return ",".join(res)


def section_of(src, pos, sections):
    name = "?"
    for start, nm in sections:
        if start <= pos:
            name = nm
    return name


def tr_bindings(files):
    """ordered list of strings `section: kind name(params)`; stable-sorted by (section, name) so that only the order among
    overloads of one name matters"""
    entries = []
    for rel, src in files:
        base = os.path.basename(rel)
        sections = []
        for m in re.finditer(r"\b(register\w+)\s*\(\s*pybind11::(?:class_|handle)[^{;]*?\)\s*(?:->\s*[^{;]*)?\{", src):
            tag = re.search(r"PriorityTag\s*<\s*(\d+)\s*>", m.group(0))
            sections.append((m.start(), m.group(1) + ("#" + tag.group(1) if tag else "")))
        calls = []
        chain = re.compile(r"\s*\.\s*(def_property_readonly|def_buffer|def)\s*\(")
        for m in re.finditer(r"\bcls(?=\s*\.\s*(?:def_property_readonly|def_buffer|def)\s*\()", src):
            # `cls.def( ... ).def( ... )`: every def returns the class, a chain registers in the order written
            pos = m.end()
            while True:
                mc = chain.match(src, pos)
                if not mc:
                    break
                args, pos = balanced(src, mc.end() - 1, "(", ")")
                calls.append((m.start(), mc.group(1), args))
        for start, kind, args in calls:
            sec = base + ":" + section_of(src, start, sections)
            a = args.strip()
            mm = re.match(r'"(\w+)"\s*,\s*\[[^\]]*\]\s*\(', a)
            if kind == "def_buffer":
                entries.append((sec, "buffer", "buffer()"))
            elif mm:
                p, _ = balanced(a, mm.end() - 1, "(", ")")
                entries.append((sec, mm.group(1), "%s %s(%s)" % ("prop" if kind != "def" else "def", mm.group(1), canon_params(p))))
            elif re.match(r"pybind11::init\s*\(|py::init\s*\(", a):
                mm = re.match(r"(?:pybind11|py)::init\s*\(\s*\[[^\]]*\]\s*\(", a)
                if not mm:
                    raise TranslateError("%s: init outside the grammar: %r" % (base, a[:60]))
                p, _ = balanced(a, mm.end() - 1, "(", ")")
                entries.append((sec, "__init__", "init(%s)" % canon_params(p)))
            elif re.match(r"pybind11::self\b", a):
                mm = re.fullmatch(r"pybind11::self\s*(\S+?)\s*(pybind11::self|ValueType\s*\(\s*\))", a)
                if not mm:
                    raise TranslateError("%s: operator registration outside the grammar: %r" % (base, a))
                rhs = "self" if "self" in mm.group(2) else "ValueType"
                entries.append((sec, "op" + mm.group(1), "op self%s%s" % (mm.group(1), rhs)))
            else:
                raise TranslateError("%s: cls.def outside the grammar: %r" % (base, a[:80]))
        # the registration functions a registration function passes `cls` on to: their order fixes the order of overloads of
        # one name that come from different functions (`__mul__(T,T)` before `__mul__(T,ValueType)`)
        for m in re.finditer(r"(?<![\w:])(?:detail::)?(register\w+)\s*(?:<[^>;(]*>)?\s*\(\s*(?:scope\s*,\s*)?(?:cls|entry\s*\.\s*first)\s*\)\s*;", src):
            sec = base + ":" + section_of(src, m.start(), sections)
            entries.append((sec, "~call", "call " + m.group(1)))
        for m in re.finditer(r"pybind11::implicitly_convertible\s*<([^;]*?)>\s*\(\s*\)", src):
            sec = base + ":" + section_of(src, m.start(), sections)
            entries.append((sec, "~conv", "conv " + canon_params(m.group(1))))
    order = sorted(range(len(entries)), key=lambda k: (entries[k][0], entries[k][1], k))
    return ["%s: %s" % (entries[k][0], entries[k][2]) for k in order]


HEADER = """/-
GENERATED by tools/translators/tr_c20.py from dune/python/common/{densevector,vector,fvector,dynvector,tuplevector}.hh
of the tree under test -- do not edit.  Core Lean only.
-/
set_option linter.unusedVariables false
namespace DV.C20.Gen

/-- conversion of a 64-bit unsigned value to `ssize_t` (two's complement) -/
def wrapS64 (x : Int) : Int := (x + 9223372036854775808) % 18446744073709551616 - 9223372036854775808

/-- a zero-initialised vector of `size` entries is filled by `dst[dst i] = src[src i]` for `first size len ≤ i < bound size len` -/
structure CopyLoop where
  init : Int
  first : Nat → Nat → Nat
  bound : Nat → Nat → Nat
  dst : Nat → Nat
  src : Nat → Nat

"""


def translate(repo):
    dv = read(repo, "dune/python/common/densevector.hh")
    fv = read(repo, "dune/python/common/fvector.hh")
    dy = read(repo, "dune/python/common/dynvector.hh")
    ve = read(repo, "dune/python/common/vector.hh")
    tv = read(repo, "dune/python/common/tuplevector.hh")
    parts = [HEADER]
    parts.append("/-- densevector.hh `normalizeIndex` (both `__getitem__(ssize_t)` and `__setitem__(ssize_t, x)` are the plain access\n"
                 "    through it; the `pybind11::int_` overloads only throw `index_error`): `none` = `index_error` -/\n"
                 "def normalizeIndex (size i : Int) : Option Int :=\n  " + tr_normalize_index(dv) + "\n")
    parts += tr_fvector(fv)
    parts += tr_dynvector(dy)
    b = tr_bindings([("dune/python/common/densevector.hh", dv), ("dune/python/common/vector.hh", ve),
                     ("dune/python/common/fvector.hh", fv), ("dune/python/common/dynvector.hh", dy),
                     ("dune/python/common/tuplevector.hh", tv)])
    parts.append("/-- everything the registration functions bind, `file:function#priority: kind name(parameter types)`; sorted by\n"
                 "    (function, name), registration order kept among the overloads of one name -/\n"
                 "def bindings : List String := [\n  " + ",\n  ".join('"%s"' % s for s in b) + "]\n")
    parts.append("end DV.C20.Gen\n")
    yield ("DuneVerif/Gen/C20.lean", "\n".join(parts))


# ------------------------------------------------------------------------------------------------------------------
# self test: `python3 tr_c20.py --selftest [repo]` applies behaviour-preserving respellings (POS: the output must stay
# byte-identical to the unchanged tree's) and behaviour-changing edits (NEG: the output must change or the translator must
# refuse) to a temporary copy of the translated headers.  Seconds instead of the minutes a full check takes.
# ------------------------------------------------------------------------------------------------------------------
FILES = ["densevector.hh", "vector.hh", "fvector.hh", "dynvector.hh", "tuplevector.hh"]
NORM = """auto normalizeIndex = [] ( const T &self, pybind11::ssize_t i ) -> std::size_t {
          const pybind11::ssize_t size = static_cast< pybind11::ssize_t >( self.size() );
          if( i < 0 )
            i += size;
          if( (i < 0) || (i >= size) )
            throw pybind11::index_error();
          return static_cast< std::size_t >( i );
        };"""
GET = """cls.def( "__getitem__", [ normalizeIndex ] ( const T &self, pybind11::ssize_t i ) -> ValueType {
          return self[ normalizeIndex( self, i ) ];
        }, "i"_a );"""
SET = """cls.def( "__setitem__", [ normalizeIndex ] ( T &self, pybind11::ssize_t i, ValueType x ) {
          self[ normalizeIndex( self, i ) ] = x;
        }, "i"_a, "x"_a );"""
INL = """const pybind11::ssize_t n = static_cast< pybind11::ssize_t >( v.size() );
          if( k < 0 )
            k += n;
          if( (k < 0) || (k >= n) )
            throw pybind11::index_error();"""
LISTC = """FV *self = new FV( K( 0 ) );
            const std::size_t sz = std::min<std::size_t>( size, x.size() );
            // should this fail in case the sizes do not match?
            for( std::size_t i = 0; i < sz; ++i )
              (*self)[ i ] = x[ i ].template cast< K >();
            return self;"""
COPYB = """if( l.size() == 0 )
              return FV( self );
            FV v(K(0));
            const std::size_t sz = std::min<std::size_t>( v.size(), l.size() );
            // should this fail in case the sizes do not match?
            for (std::size_t i = 0; i < sz; ++i)
              v[i] = l[i].template cast<K>();
            return v;"""
BUFL = """const ssize_t sz = std::min<ssize_t>( size, info.shape[ 0 ] );

          FV *self = new FV( K( 0 ) );
          for( ssize_t i = 0; i < sz; ++i )
            (*self)[ i ] = static_cast< K * >( info.ptr )[ i*stride ];
          return self;"""
DYNL = """std::size_t size = x.size();
            DV *self = new DV( size, K( 0 ) );
            for( std::size_t i = 0; i < size; ++i )
              (*self)[ i ] = x[ i ].template cast< K >();
            return self;"""
TOSTR = """return "(" + join( ", ", [] ( auto &&x ) { return to_string( x ); }, x.begin(), x.end() ) + ")";"""
REPR = """return "Dune::FieldVector<"+to_string(size)+">"+to_string(self);"""
POS = [
    ("helper function instead of closure", [("densevector.hh", NORM, ""), ("densevector.hh", "    template< class T, class... options >\n    inline static void registerDenseVector (",
        "    template< class T >\n    inline static std::size_t normIdx ( const T &v, pybind11::ssize_t k )\n    {\n" + INL +
        "\n      return static_cast< std::size_t >( k );\n    }\n\n    template< class T, class... options >\n    inline static void registerDenseVector ("),
        ("densevector.hh", "[ normalizeIndex ]", "[]"), ("densevector.hh", "normalizeIndex( self, i )", "Dune::Python::normIdx( self, i )")]),
    ("normalisation written out in both accessors", [("densevector.hh", NORM, ""),
        ("densevector.hh", GET, 'cls.def( "__getitem__", [] ( const T &v, pybind11::ssize_t k ) -> ValueType {\n' + INL + '\n return v[ static_cast< std::size_t >( k ) ];\n }, "i"_a );'),
        ("densevector.hh", SET, 'cls.def( "__setitem__", [] ( T &v, pybind11::ssize_t k, ValueType y ) {\n' + INL + '\n v[ static_cast< std::size_t >( k ) ] = y;\n }, "i"_a, "x"_a );')]),
    ("named position in the accessors, by-reference capture", [("densevector.hh", "return self[ normalizeIndex( self, i ) ];", "const std::size_t pos = normalizeIndex( self, i );\n return self[ pos ];"),
        ("densevector.hh", "self[ normalizeIndex( self, i ) ] = x;", "const auto pos = normalizeIndex( self, i );\n self[ pos ] = x;"),
        ("densevector.hh", "[ normalizeIndex ]", "[ &normalizeIndex ]")]),
    ("respelled tests in normalizeIndex", [("densevector.hh", "(i < 0) || (i >= size)", "!(0 <= i) || (size <= i)"), ("densevector.hh", "i += size;", "i = size + i;"),
        ("densevector.hh", "static_cast< std::size_t >( i );\n        };", "std::size_t( i );\n        };")]),
    ("if / else instead of two guards", [("densevector.hh", "if( (i < 0) || (i >= size) )\n            throw pybind11::index_error();\n          return static_cast< std::size_t >( i );",
        "if( (i < 0) || (i >= size) )\n  { throw pybind11::index_error(); }\n else\n { return static_cast< std::size_t >( i ); }")]),
    ("min as conditional expression, hoisted pointer, renamed locals (buffer)", [("fvector.hh", BUFL,
        "const ssize_t length = info.shape[ 0 ];\n const ssize_t count = (length < size) ? length : ssize_t( size );\n const K *const entries = static_cast< K * >( info.ptr );\n"
        "FV *self = new FV( K( 0 ) );\n for( ssize_t i = 0; i < count; ++i )\n (*self)[ i ] = entries[ i*stride ];\n return self;")]),
    ("max-free spellings of min (buffer)", [("fvector.hh", "std::min<ssize_t>( size, info.shape[ 0 ] )", "(size > info.shape[ 0 ]) ? info.shape[ 0 ] : (ssize_t) size")]),
    ("min by conditional assignment, while loop, auto pointer (list)", [("fvector.hh", LISTC.replace("x.size", "x.size"),
        "auto *self = new FV( K( 0 ) );\n std::size_t n = size;\n if( x.size() < n )\n n = x.size();\n std::size_t i = 0;\n while( i < n )\n {\n (*self)[ i ] = pybind11::cast< K >( x[ i ] );\n ++i;\n }\n return self;")]),
    ("signed divisor in the stride, other cast syntax", [("fvector.hh", "info.strides[ 0 ] / static_cast< ssize_t >( sizeof( K ) )", "info.strides[ 0 ] / ssize_t( sizeof( K ) )")]),
    ("copy: hoisted size, renamed, template parameter", [("fvector.hh", 'cls.def("copy", [](FV& self, pybind11::args l) {', 'cls.def( "copy", [] ( const FV &me, pybind11::args args ) {\n const std::size_t numArgs = args.size();'),
        ("fvector.hh", COPYB, "if( numArgs == 0 )\n return FV( me );\n FV result( K( 0 ) );\n const std::size_t count = std::min< std::size_t >( size, numArgs );\n"
         "for( std::size_t i = 0; i < count; ++i )\n result[ i ] = args[ i ].cast< K >();\n return result;")]),
    ("copy: exit with else, empty()", [("fvector.hh", COPYB, "if( l.empty() )\n return FV( self );\n else\n {\n FV v(K(0));\n const std::size_t sz = std::min<std::size_t>( l.size(), v.size() );\n"
         "for (std::size_t i = 0; sz > i; i++)\n v[i] = l[i].template cast<K>();\n return v;\n }")]),
    ("copy: inverted exit", [("fvector.hh", COPYB, "if( l.size() != 0 )\n {\n FV v(K(0));\n const std::size_t sz = std::min<std::size_t>( l.size(), v.size() );\n"
         "for (std::size_t i = 0; i != sz; i += 1)\n v[i] = l[i].template cast<K>();\n return v;\n }\n return self;")]),
    ("dynvector: const size, value first", [("dynvector.hh", "std::size_t size = x.size();", "const auto size = x.size();")]),
    ("dynvector: bound read back from the allocated vector, while loop", [("dynvector.hh", DYNL,
        "const auto length = x.size();\n auto *self = new DV( length, K( 0 ) );\n std::size_t pos = 0;\n while( pos != self->size() )\n {\n"
        " (*self)[ pos ] = pybind11::cast< K >( x[ pos ] );\n ++pos;\n }\n return self;")]),
    ("strings built in named steps", [("fvector.hh", TOSTR, "const std::string entries = join( \", \", [] ( auto &&x ) { return to_string( x ); }, x.begin(), x.end() );\n"
        " std::string result = \"(\";\n result += entries;\n result += \")\";\n return result;"),
        ("fvector.hh", REPR, "const std::string typeName = \"Dune::FieldVector<\" + to_string( size ) + \">\";\n return typeName + to_string( self );"),
        ("fvector.hh", "return to_string( self ); } );", "const auto text = to_string( self ); return text; } );")]),
    ("dynvector repr: renamed, first-entry test inverted, braces", [("dynvector.hh", "[] (const DV &v) {\n            std::string repr =", "[] (const DV &vec) {\n            std::string text ="),
        ("dynvector.hh", "for (std::size_t i = 0; i < v.size(); ++i)\n              repr += (i > 0 ? \", \" : \"\") + std::to_string(v[i]);\n\n            repr += \")\";\n\n            return repr;",
         "for (std::size_t k = 0; vec.size() != k; k++)\n {\n text += (k == 0 ? \"\" : \", \") + std::to_string(vec[k]);\n }\n text += \")\";\n return text;")]),
    ("buffer checks as if / else-if chain", [("fvector.hh", "if( info.ndim != 1 )", "else if( !(info.ndim == 1) )")]),
    ("chained registrations", [("vector.hh", "{ return self.one_norm(); } );\n        cls.def_property_readonly(", "{ return self.one_norm(); } )\n  .def_property_readonly("),
        ("densevector.hh", "cls.def( pybind11::self == pybind11::self );\n      cls.def(", "cls.def( pybind11::self == pybind11::self )\n .def("),
        ("fvector.hh", 'cls.def( "__str__", [] ( const FV &self ) { return to_string( self ); } );\n      cls.def(', 'cls.def( "__str__", [] ( const FV &self ) { return to_string( self ); } )\n .def(')]),
]
NEG = [
    ("setitem(int_) returns silently", [("densevector.hh", "[] ( T &, pybind11::int_, ValueType ) { throw pybind11::index_error(); }", "[] ( T &, pybind11::int_, ValueType ) { return; }")]),
    ("tuple constructor starts from one", [("fvector.hh", "[] ( pybind11::tuple x ) {\n          FV *self = new FV( K( 0 ) );", "[] ( pybind11::tuple x ) {\n          FV *self = new FV( K( 1 ) );")]),
    ("buffer constructor fills backwards", [("fvector.hh", "(*self)[ i ] = static_cast< K * >( info.ptr )", "(*self)[ sz-1-i ] = static_cast< K * >( info.ptr )")]),
    ("dyn repr delimiter test", [("dynvector.hh", "i > 0 ?", "i > 1 ?")]),
    ("extra overload", [("densevector.hh", 'cls.def( "__len__"', 'cls.def( "__rsub__", [] ( const T &self, pybind11::tuple x ) { return self; } );\n cls.def( "__len__"')]),
    ("upper bound test off by one", [("densevector.hh", "(i >= size)", "(i > size)")]),
    ("no shift of negative indices", [("densevector.hh", "i += size;", "i += 0;")]),
    ("shift by size-1", [("densevector.hh", "i += size;", "i += size - 1;")]),
    ("setitem normalises differently", [("densevector.hh", SET, 'cls.def( "__setitem__", [] ( T &self, pybind11::ssize_t i, ValueType x ) {\n if( (i < 0) || (i >= ssize_t( self.size() )) )\n throw pybind11::index_error();\n self[ i ] = x;\n }, "i"_a, "x"_a );')]),
    ("unsigned index parameter", [("densevector.hh", "[ normalizeIndex ] ( const T &self, pybind11::ssize_t i )", "[ normalizeIndex ] ( const T &self, std::size_t i )")]),
    ("getitem of another object", [("densevector.hh", "return self[ normalizeIndex( self, i ) ];", "return self[ normalizeIndex( self, i + 1 ) ];")]),
    ("conditional expression is max", [("fvector.hh", "std::min<ssize_t>( size, info.shape[ 0 ] )", "(size > info.shape[ 0 ]) ? (ssize_t) size : info.shape[ 0 ]")]),
    ("conditional assignment is max", [("fvector.hh", LISTC, "FV *self = new FV( K( 0 ) );\n std::size_t n = size;\n if( x.size() > n )\n n = x.size();\n for( std::size_t i = 0; i < n; ++i )\n (*self)[ i ] = x[ i ].template cast< K >();\n return self;")]),
    ("bound without min", [("fvector.hh", "std::min<std::size_t>( size, args.size() )", "args.size()")]),
    ("source shifted", [("fvector.hh", "(*self)[ i ] = args[ i ]", "(*self)[ i ] = args[ i+1 ]")]),
    ("first index one", [("fvector.hh", "for( std::size_t i = 0; i < sz; ++i )\n              (*self)[ i ] = args", "for( std::size_t i = 1; i < sz; ++i )\n              (*self)[ i ] = args")]),
    ("stride multiplied", [("fvector.hh", "info.strides[ 0 ] / static_cast< ssize_t >( sizeof( K ) )", "info.strides[ 0 ] * static_cast< ssize_t >( sizeof( K ) )")]),
    ("unsigned division of the byte stride (revert of 5a41cb5)", [("fvector.hh", "info.strides[ 0 ] / static_cast< ssize_t >( sizeof( K ) )", "info.strides[ 0 ] / sizeof( K )")]),
    ("byte stride converted to unsigned", [("fvector.hh", "info.strides[ 0 ] / static_cast< ssize_t >( sizeof( K ) )", "static_cast< std::size_t >( info.strides[ 0 ] ) / static_cast< ssize_t >( sizeof( K ) )")]),
    ("initializer-list construction", [("fvector.hh", "FV v(K(0));", "FV v{K(0)};")]),
    ("assignment to the pointer's i-th object", [("fvector.hh", "(*self)[ i ] = args[ i ]", "self[ i ] = args[ i ]")]),
    ("while loop stepping by two", [("fvector.hh", LISTC, "FV *self = new FV( K( 0 ) );\n const std::size_t sz = std::min<std::size_t>( size, x.size() );\n std::size_t i = 0;\n while( i < sz )\n {\n (*self)[ i ] = x[ i ].template cast< K >();\n i += 2;\n }\n return self;")]),
    ("copy exit inverted wrongly", [("fvector.hh", "if( l.size() == 0 )", "if( l.size() != 0 )")]),
    ("format check dropped", [("fvector.hh", 'if( info.format != pybind11::format_descriptor< K >::format() )\n            throw pybind11::value_error( "Incompatible buffer format." );', "")]),
    ("hoisted pointer is something else", [("fvector.hh", BUFL, BUFL.replace("FV *self", "const K *entries = static_cast< K * >( info.ptr ) + 1;\n FV *self").replace("static_cast< K * >( info.ptr )[", "entries["))]),
    ("hoisted pointer is advanced", [("fvector.hh", BUFL, BUFL.replace("FV *self", "const K *entries = static_cast< K * >( info.ptr );\n ++entries;\n FV *self").replace("static_cast< K * >( info.ptr )[", "entries["))]),
    ("string constant", [("fvector.hh", '", "', '","')]),
    ("dynvector repr: branches of the first-entry test swapped", [("dynvector.hh", '(i > 0 ? ", " : "")', '(i > 0 ? "" : ", ")')]),
    ("dynvector repr: entries of another vector position", [("dynvector.hh", "std::to_string(v[i])", "std::to_string(v[0])")]),
    ("string steps with another closing", [("fvector.hh", TOSTR, "std::string result = \"(\";\n result += join( \", \", [] ( auto &&x ) { return to_string( x ); }, x.begin(), x.end() );\n result += \"]\";\n return result;")]),
    ("string steps in another order", [("fvector.hh", REPR, "const std::string typeName = \"Dune::FieldVector<\" + to_string( size ) + \">\";\n return to_string( self ) + typeName;")]),
    ("dynvector allocates one more", [("dynvector.hh", DYNL, "const auto length = x.size();\n auto *self = new DV( length + 1, K( 0 ) );\n"
        " for( std::size_t i = 0; i < self->size(); ++i )\n (*self)[ i ] = x[ i ].template cast< K >();\n return self;")]),
    ("else-if chain without the dimension check", [("fvector.hh", "if( info.ndim != 1 )", "else if( false )")]),
    ("chain registers an overload twice", [("vector.hh", "{ return self.one_norm(); } );", "{ return self.one_norm(); } )\n .def_property_readonly( \"one_norm\", [] ( const T &self ) { return self.two_norm(); } );")]),
    ("getitem reads the neighbour of the named position", [("densevector.hh", "return self[ normalizeIndex( self, i ) ];", "const std::size_t p = normalizeIndex( self, i );\n return self[ p + 1 ];")]),
]


def selftest(repo):
    import tempfile
    import shutil
    base = "".join(c for _, c in translate(repo))
    bad = 0
    for want_same, cases in ((True, POS), (False, NEG)):
        for title, edits in cases:
            tmp = tempfile.mkdtemp(prefix="tr_c20_")
            try:
                d = os.path.join(tmp, "dune/python/common")
                os.makedirs(d)
                for f in FILES:
                    shutil.copy(os.path.join(repo, "dune/python/common", f), d)
                for f, old, new in edits:
                    fn = os.path.join(d, f)
                    txt = open(fn, encoding="utf-8").read()
                    if old not in txt:
                        raise RuntimeError("selftest %r: text to replace not found in %s: %r" % (title, f, old[:50]))
                    open(fn, "w", encoding="utf-8").write(txt.replace(old, new))
                try:
                    out = "".join(c for _, c in translate(tmp))
                    verdict = "same" if out == base else "different"
                except TranslateError as ex:
                    verdict = "refused (%s)" % ex
                ok = (verdict == "same") == want_same
                bad += not ok
                print("%s %s %-70s %s" % ("ok  " if ok else "FAIL", "POS" if want_same else "NEG", title, verdict[:150]))
            finally:
                shutil.rmtree(tmp)
    print("selftest: %d POS, %d NEG, %d wrong" % (len(POS), len(NEG), bad))
    return bad


if __name__ == "__main__":
    import sys
    if len(sys.argv) > 1 and sys.argv[1] == "--selftest":
        sys.exit(1 if selftest(sys.argv[2] if len(sys.argv) > 2 else "/repo") else 0)
    for p, c in translate(sys.argv[1] if len(sys.argv) > 1 else "/repo"):
        sys.stdout.write(c)
