"""Translator for C20: the data and the straight-line parts of dune-common's dense-vector bindings are re-read from the
source on every run and emitted as lean/DuneVerif/Gen/C20.lean (namespace DV.C20.Gen):

* `normalizeIndex` (densevector.hh, the lambda both `__getitem__` and `__setitem__` go through): statement order, branch
  conditions and the arithmetic, as a Lean function `Int -> Int -> Option Int`;
* the bodies of the `pybind11::int_` overloads of `__getitem__` / `__setitem__` (must be a bare `throw index_error`);
* the four copy loops of `registerFieldVector` (tuple / list / args constructors, `copy(*args)`), the buffer constructor
  (checks, stride computation, loop bound, source index) and `registerDynamicVector`'s list constructor: initial value,
  first index, loop bound, destination and source index as Lean functions;
* the string constants of `to_string(FieldVector)`, `__repr__` (FieldVector, DynamicVector);
* the ordered list of everything the registration functions bind (name + canonical parameter types; order is kept among
  overloads of one name because pybind11 tries them in registration order) for densevector.hh, vector.hh
  (`registerOneTensorInterface`), fvector.hh, dynvector.hh, tuplevector.hh.

`Props/C20.lean` proves (theorems `gen_*`) that these generated definitions coincide with the hand-written model for all
sizes / indices / lengths, so an edit of a bound, a condition, a constant or the set of bound operations changes what Lean
has to prove.  Formatting, renaming of variables / parameters, commuted operands and reordering of unrelated `cls.def`
calls do not change the output in a way the proofs notice; anything outside the small grammar raises TranslateError."""
import os
import re


class TranslateError(Exception):
    pass


def strip_comments(src):
    src = re.sub(r"/\*.*?\*/", " ", src, flags=re.S)
    src = re.sub(r"//[^\n]*", " ", src)
    src = re.sub(r"^\s*#.*$", " ", src, flags=re.M)
    return src


def read(repo, rel):
    p = os.path.join(repo, rel)
    try:
        with open(p, encoding="utf-8") as f:
            return strip_comments(f.read())
    except OSError as ex:
        raise TranslateError("cannot read %s: %s" % (rel, ex))


def balanced(src, pos, open_ch="{", close_ch="}"):
    """src[pos] == open_ch; returns (inner text, index after the closing character); string literals are skipped"""
    if src[pos] != open_ch:
        raise TranslateError("expected %r at %r" % (open_ch, src[pos:pos + 30]))
    depth, i, n = 0, pos, len(src)
    while i < n:
        c = src[i]
        if c == '"':
            i += 1
            while i < n and src[i] != '"':
                i += 2 if src[i] == "\\" else 1
        elif c == "'":
            i += 1
            while i < n and src[i] != "'":
                i += 2 if src[i] == "\\" else 1
        elif c == open_ch:
            depth += 1
        elif c == close_ch:
            depth -= 1
            if depth == 0:
                return src[pos + 1:i], i + 1
        i += 1
    raise TranslateError("unbalanced %r" % open_ch)


# ------------------------------------------------------------------------------------------------------------------
# expressions:  or := and ('||' and)* ; and := cmp ('&&' cmp)* ; cmp := add (relop add)? ; add := mul (('+'|'-') mul)* ;
# mul := un (('*'|'/'|'%') un)* ; un := '!' un | '-' un | prim ; prim := INT | NAME | '(' or ')' | min '(' or ',' or ')'
# Before tokenising, the C++ noise that has no arithmetic meaning here is rewritten (see `normalise`).
# ------------------------------------------------------------------------------------------------------------------
TOK = re.compile(r"\s*(<=|>=|==|!=|&&|\|\||[A-Za-z_][A-Za-z_0-9]*|\d+|[-+*/%!<>(),])")


def tokenize(e, what):
    pos, out = 0, []
    e = e.strip()
    while pos < len(e):
        m = TOK.match(e, pos)
        if not m:
            raise TranslateError("%s: cannot tokenise %r at %r" % (what, e, e[pos:pos + 20]))
        out.append(m.group(1))
        pos = m.end()
        while pos < len(e) and e[pos].isspace():
            pos += 1
    return out


class Expr:
    """mode 'Int' (C++ ssize_t arithmetic, truncating / and %) or 'Nat' (std::size_t, values far below 2^64)"""

    def __init__(self, text, what, env, mode):
        self.t, self.i, self.what, self.env, self.mode = tokenize(text, what), 0, what, env, mode

    def peek(self):
        return self.t[self.i] if self.i < len(self.t) else None

    def eat(self, x=None):
        tok = self.peek()
        if tok is None or (x is not None and tok != x):
            raise TranslateError("%s: expected %r, found %r" % (self.what, x, tok))
        self.i += 1
        return tok

    def need(self, k, want, ctx):
        if k != want:
            raise TranslateError("%s: %s has kind %s, expected %s" % (self.what, ctx, k, want))

    def parse(self, want):
        e, k = self.p_or()
        if self.peek() is not None:
            raise TranslateError("%s: trailing tokens %r" % (self.what, self.t[self.i:]))
        self.need(k, want, "expression")
        return e

    def p_or(self):
        l, k = self.p_and()
        while self.peek() == "||":
            self.eat()
            r, kr = self.p_and()
            self.need(k, "B", "operand of ||")
            self.need(kr, "B", "operand of ||")
            l = "(%s || %s)" % (l, r)
        return l, k

    def p_and(self):
        l, k = self.p_cmp()
        while self.peek() == "&&":
            self.eat()
            r, kr = self.p_cmp()
            self.need(k, "B", "operand of &&")
            self.need(kr, "B", "operand of &&")
            l = "(%s && %s)" % (l, r)
        return l, k

    def p_cmp(self):
        l, k = self.p_add()
        if self.peek() in ("<", "<=", ">", ">=", "==", "!="):
            op = self.eat()
            r, kr = self.p_add()
            self.need(k, "N", "operand of " + op)
            self.need(kr, "N", "operand of " + op)
            lop = {"<": "<", "<=": "≤", ">": ">", ">=": "≥", "==": "=", "!=": "≠"}[op]
            return "decide (%s %s %s)" % (l, lop, r), "B"
        return l, k

    def p_add(self):
        l, k = self.p_mul()
        while self.peek() in ("+", "-"):
            op = self.eat()
            r, kr = self.p_mul()
            self.need(k, "N", "operand of " + op)
            self.need(kr, "N", "operand of " + op)
            l = "(%s %s %s)" % (l, op, r)
        return l, k

    def p_mul(self):
        l, k = self.p_un()
        while self.peek() in ("*", "/", "%"):
            op = self.eat()
            r, kr = self.p_un()
            self.need(k, "N", "operand of " + op)
            self.need(kr, "N", "operand of " + op)
            if op == "*":
                l = "(%s * %s)" % (l, r)
            elif self.mode == "Int":
                l = "(%s %s %s)" % ("Int.tdiv" if op == "/" else "Int.tmod", l, r)
            else:
                l = "(%s %s %s)" % (l, op, r)
        return l, k

    def p_un(self):
        if self.peek() == "!":
            self.eat()
            e, k = self.p_un()
            self.need(k, "B", "operand of !")
            return "(!%s)" % e, "B"
        if self.peek() == "-":
            if self.mode != "Int":
                raise TranslateError("%s: unary minus in unsigned arithmetic" % self.what)
            self.eat()
            e, k = self.p_un()
            self.need(k, "N", "operand of unary -")
            return "(-%s)" % e, "N"
        return self.p_prim()

    def p_prim(self):
        tok = self.eat()
        if tok == "(":
            e, k = self.p_or()
            self.eat(")")
            return e, k
        if tok.isdigit():
            return tok, "N"
        if tok in ("MIN", "MAX"):
            self.eat("(")
            a, ka = self.p_or()
            self.eat(",")
            b, kb = self.p_or()
            self.eat(")")
            self.need(ka, "N", "argument of min/max")
            self.need(kb, "N", "argument of min/max")
            return "(%s %s %s)" % ("min" if tok == "MIN" else "max", a, b), "N"
        if tok in self.env:
            return self.env[tok], "N"
        raise TranslateError("%s: unknown name %r" % (self.what, tok))


INTEGRAL = r"(?:pybind11::ssize_t|std::size_t|ssize_t|size_t|std::ptrdiff_t)"


def normalise(e, sizes):
    """C++ -> grammar: `X.size()` for the listed objects, value-preserving casts between the integral types (all values
    are far inside both ranges at the places the translator accepts them), std::min/max with explicit template argument"""
    for pat, name in sizes:
        e = re.sub(pat, " " + name + " ", e)
    e = re.sub(r"static_cast\s*<\s*" + INTEGRAL + r"\s*>", " ", e)
    e = re.sub(r"std::min\s*(?:<\s*" + INTEGRAL + r"\s*>)?", " MIN", e)
    e = re.sub(r"std::max\s*(?:<\s*" + INTEGRAL + r"\s*>)?", " MAX", e)
    return e


# ------------------------------------------------------------------------------------------------------------------
# statements
# ------------------------------------------------------------------------------------------------------------------
def split_statements(body, what):
    """top-level statements of a block: `if (c) S [else S]`, `for (...) S`, `{...}`, and `...;`"""
    out, i, n = [], 0, len(body)
    while True:
        while i < n and body[i].isspace():
            i += 1
        if i >= n:
            return out
        st, i = one_statement(body, i, what)
        out.append(st)


def one_statement(body, i, what):
    n = len(body)
    while i < n and body[i].isspace():
        i += 1
    m = re.compile(r"(if|for)\s*\(").match(body, i)
    if m:
        head, j = balanced(body, m.end() - 1, "(", ")")
        inner, j = one_statement(body, j, what)
        if m.group(1) == "for":
            return ("for", head, inner), j
        k = j
        while k < n and body[k].isspace():
            k += 1
        if body.startswith("else", k) and not (body[k + 4:k + 5].isalnum() or body[k + 4:k + 5] == "_"):
            other, j = one_statement(body, k + 4, what)
            return ("if", head, inner, other), j
        return ("if", head, inner, None), j
    if body[i] == "{":
        inner, j = balanced(body, i)
        return ("block", split_statements(inner, what)), j
    j = i
    depth = 0
    while j < n:
        c = body[j]
        if c == '"':
            j += 1
            while j < n and body[j] != '"':
                j += 2 if body[j] == "\\" else 1
        elif c in "([{":
            depth += 1
        elif c in ")]}":
            depth -= 1
        elif c == ";" and depth == 0:
            return ("simple", " ".join(body[i:j].split())), j + 1
        j += 1
    raise TranslateError("%s: statement without ';': %r" % (what, body[i:i + 60]))


def flat(st):
    return st[1] if st[0] == "block" else [st]


# ------------------------------------------------------------------------------------------------------------------
# normalizeIndex
# ------------------------------------------------------------------------------------------------------------------
def compile_index(stmts, env, sizes, what, depth=0):
    """statement list -> Lean expression of type Option Int (continuation style; `if` duplicates the rest)"""
    ind = "  " * (depth + 1)
    if not stmts:
        raise TranslateError("%s: control reaches the end without return / throw" % what)
    st, rest = stmts[0], stmts[1:]
    if st[0] == "block":
        return compile_index(st[1] + rest, env, sizes, what, depth)
    if st[0] == "if":
        c = Expr(normalise(st[1], sizes), what, env, "Int").parse("B")
        a = compile_index(flat(st[2]) + rest, dict(env), sizes, what, depth + 1)
        b = compile_index((flat(st[3]) if st[3] is not None else []) + rest, dict(env), sizes, what, depth + 1)
        return "if %s then\n%s  %s\n%selse\n%s  %s" % (c, ind, a, ind, ind, b)
    if st[0] != "simple":
        raise TranslateError("%s: unsupported statement %r" % (what, st[0]))
    s = st[1]
    if re.fullmatch(r"throw\s+pybind11::index_error\s*\(\s*\)", s):
        return "none"
    m = re.fullmatch(r"throw\b.*", s)
    if m:
        raise TranslateError("%s: throws something other than pybind11::index_error: %r" % (what, s))
    m = re.fullmatch(r"return\s+(.*)", s)
    if m:
        return "some (%s)" % Expr(normalise(m.group(1), sizes), what, env, "Int").parse("N")
    m = re.fullmatch(r"(?:const\s+)?" + INTEGRAL + r"\s+(\w+)\s*=\s*(.*)", s)
    if m:
        e = Expr(normalise(m.group(2), sizes), what, env, "Int").parse("N")
        env2 = dict(env)
        env2[m.group(1)] = "v_" + m.group(1)
        return "let v_%s : Int := %s\n%s%s" % (m.group(1), e, ind, compile_index(rest, env2, sizes, what, depth))
    m = re.fullmatch(r"(\w+)\s*(\+=|-=|=)\s*(.*)", s)
    if m and m.group(1) in env:
        e = Expr(normalise(m.group(3), sizes), what, env, "Int").parse("N")
        cur = env[m.group(1)]
        val = {"=": e, "+=": "(%s + %s)" % (cur, e), "-=": "(%s - %s)" % (cur, e)}[m.group(2)]
        new = "v_" + m.group(1) + "'" * (depth + 1 + len(rest))
        new = re.sub(r"'+", lambda q: "_%d" % len(q.group(0)), new)
        env2 = dict(env)
        env2[m.group(1)] = new
        return "let %s : Int := %s\n%s%s" % (new, val, ind, compile_index(rest, env2, sizes, what, depth))
    raise TranslateError("%s: statement outside the grammar: %r" % (what, s))


def tr_normalize_index(src):
    m = re.search(r"auto\s+normalizeIndex\s*=\s*\[\s*\]\s*\(\s*const\s+T\s*&\s*(\w+)\s*,\s*pybind11::ssize_t\s+(\w+)\s*\)"
                  r"\s*->\s*std::size_t\s*", src)
    if not m:
        raise TranslateError("densevector.hh: lambda normalizeIndex(const T &, pybind11::ssize_t) -> std::size_t not found")
    body, _ = balanced(src, m.end())
    selfn, idx = m.group(1), m.group(2)
    sizes = [(r"\b%s\s*\.\s*size\s*\(\s*\)" % re.escape(selfn), "SIZE")]
    lean = compile_index(split_statements(body, "normalizeIndex"), {idx: "i", "SIZE": "size"}, sizes, "normalizeIndex")
    # both item accessors must go through it, on the ssize_t overload
    for name, pat in (("__getitem__", r'"__getitem__"\s*,\s*\[\s*normalizeIndex\s*\]\s*\(\s*const\s+T\s*&\s*(\w+)\s*,\s*'
                                      r'pybind11::ssize_t\s+(\w+)\s*\)\s*->\s*ValueType\s*'),
                      ("__setitem__", r'"__setitem__"\s*,\s*\[\s*normalizeIndex\s*\]\s*\(\s*T\s*&\s*(\w+)\s*,\s*'
                                      r'pybind11::ssize_t\s+(\w+)\s*,\s*ValueType\s+(\w+)\s*\)\s*')):
        mm = re.search(pat, src)
        if not mm:
            raise TranslateError("densevector.hh: %s(ssize_t) capturing normalizeIndex not found" % name)
        b, _ = balanced(src, mm.end())
        b = " ".join(b.split())
        s, i = mm.group(1), mm.group(2)
        acc = r"%s\s*\[\s*normalizeIndex\s*\(\s*%s\s*,\s*%s\s*\)\s*\]" % (s, s, i)
        want = (r"return\s+%s\s*;" % acc) if name == "__getitem__" else (r"%s\s*=\s*%s\s*;" % (acc, mm.group(3)))
        if not re.fullmatch(want, b):
            raise TranslateError("densevector.hh: body of %s(ssize_t) is not the plain access through normalizeIndex: %r"
                                 % (name, b))
    # the overloads for Python integers beyond ssize_t
    for name, pat in (("__getitem__", r'"__getitem__"\s*,\s*\[\s*\]\s*\(\s*const\s+T\s*&\s*\w*\s*,\s*pybind11::int_\s*\w*\s*\)'
                                      r'\s*->\s*ValueType\s*'),
                      ("__setitem__", r'"__setitem__"\s*,\s*\[\s*\]\s*\(\s*T\s*&\s*\w*\s*,\s*pybind11::int_\s*\w*\s*,\s*'
                                      r'ValueType\s*\w*\s*\)\s*')):
        mm = re.search(pat, src)
        if not mm:
            raise TranslateError("densevector.hh: %s(pybind11::int_) overload not found" % name)
        b, _ = balanced(src, mm.end())
        if not re.fullmatch(r"\s*throw\s+pybind11::index_error\s*\(\s*\)\s*;\s*", b):
            raise TranslateError("densevector.hh: %s(pybind11::int_) does more than throw index_error: %r" % (name, b))
    return lean


# ------------------------------------------------------------------------------------------------------------------
# copy loops
# ------------------------------------------------------------------------------------------------------------------
def tr_loop(body, what, sizes, src_name, allow_prefix=False):
    """`<zero-initialised vector>; [const] size_t sz = E; for (size_t i = E0; i < E1; ++i) dst[Ed] = src[Es].cast<K>(); return`
    -> dict(init, first, bound, dst, src) of Lean terms over (size len : Nat) / (i : Nat)"""
    stmts = split_statements(body, what)
    env = {"SIZE": "size", "LEN": "len"}
    res = {"prefix": None}
    state = 0
    dstvar = None
    for st in stmts:
        if st[0] == "if" and allow_prefix and state == 0 and res["prefix"] is None:
            c = Expr(normalise(st[1], sizes), what, env, "Nat").parse("B")
            inner = flat(st[2])
            if st[3] is not None or len(inner) != 1 or inner[0][0] != "simple" or \
                    not re.fullmatch(r"return\s+FV\s*\(\s*self\s*\)", inner[0][1]):
                raise TranslateError("%s: unexpected early exit %r" % (what, st))
            res["prefix"] = c
            continue
        if st[0] == "simple":
            s = st[1]
            m = re.fullmatch(r"(?:FV|DV)\s*\*\s*(\w+)\s*=\s*new\s+(?:FV|DV)\s*\((.*)\)", s) or \
                re.fullmatch(r"(?:FV|DV)\s+(\w+)\s*\((.*)\)", s)
            if m and state == 0:
                dstvar = m.group(1)
                args = [a.strip() for a in m.group(2).split(",")]
                mm = re.fullmatch(r"K\s*\(\s*(\d+)\s*\)", args[-1])
                if not mm:
                    raise TranslateError("%s: vector is not initialised with K(<literal>): %r" % (what, s))
                res["init"] = mm.group(1)
                if len(args) == 2:
                    res["alloc"] = Expr(normalise(args[0], sizes), what, env, "Nat").parse("N")
                elif len(args) != 1:
                    raise TranslateError("%s: unexpected constructor arguments %r" % (what, s))
                state = 1
                continue
            m = re.fullmatch(r"(?:const\s+)?" + INTEGRAL + r"\s+(\w+)\s*=\s*(.*)", s)
            if m:
                env[m.group(1)] = "(" + Expr(normalise(m.group(2), sizes), what, env, "Nat").parse("N") + ")"
                continue
            if re.fullmatch(r"pybind11::buffer_info\s+\w+\s*=\s*\w+\s*\.\s*request\s*\(\s*\)", s):
                continue
            m = re.fullmatch(r"return\s+(\w+)", s)
            if m and state == 2 and m.group(1) == dstvar:
                state = 3
                continue
            raise TranslateError("%s: statement outside the grammar: %r" % (what, s))
        if st[0] == "for" and state == 1:
            head = [h.strip() for h in st[1].split(";")]
            if len(head) != 3:
                raise TranslateError("%s: for header %r" % (what, st[1]))
            m = re.fullmatch(INTEGRAL + r"\s+(\w+)\s*=\s*(.*)", head[0])
            if not m:
                raise TranslateError("%s: for initialisation %r" % (what, head[0]))
            iv = m.group(1)
            res["first"] = Expr(normalise(m.group(2), sizes), what, env, "Nat").parse("N")
            if not re.fullmatch(r"\+\+\s*%s|%s\s*\+\+|%s\s*\+=\s*1" % (iv, iv, iv), head[2]):
                raise TranslateError("%s: loop increment %r" % (what, head[2]))
            m = re.fullmatch(r"%s\s*(<|!=|<=)\s*(.*)" % iv, head[1])
            if m:
                op, be = m.group(1), m.group(2)
            else:
                m = re.fullmatch(r"(.*?)\s*(>|!=|>=)\s*%s" % iv, head[1])
                if not m:
                    raise TranslateError("%s: loop condition %r" % (what, head[1]))
                op, be = {">": "<", "!=": "!=", ">=": "<="}[m.group(2)], m.group(1)
            b = Expr(normalise(be, sizes), what, env, "Nat").parse("N")
            res["bound"] = "(%s + 1)" % b if op == "<=" else b
            inner = flat(st[2])
            if len(inner) != 1 or inner[0][0] != "simple":
                raise TranslateError("%s: loop body is not one assignment" % what)
            s = inner[0][1]
            ienv = dict(env)
            ienv[iv] = "i"
            m = re.fullmatch(r"(?:\(\s*\*\s*%s\s*\)|%s)\s*\[(.*?)\]\s*=\s*%s\s*\[(.*)\]\s*(?:\.\s*template\s+cast\s*<\s*K\s*>\s*\(\s*\))?"
                             % (dstvar, dstvar, src_name), s)
            if not m:
                raise TranslateError("%s: loop body outside the grammar: %r" % (what, s))
            res["dst"] = Expr(normalise(m.group(1), sizes), what, ienv, "Nat").parse("N")
            res["src"] = Expr(normalise(m.group(2), sizes), what, ienv, "Int" if "STRIDE" in env else "Nat").parse("N")
            state = 2
            continue
        raise TranslateError("%s: unexpected statement %r in state %d" % (what, st[0], state))
    if state != 3:
        raise TranslateError("%s: constructor does not end with `return <the vector>`" % what)
    return res, env


def lean_loop(name, r, doc):
    return ("/-- %s -/\ndef %s : CopyLoop :=\n  { init := %s\n    first := fun size len => %s\n    bound := fun size len => %s\n"
            "    dst := fun i => %s\n    src := fun i => %s }\n"
            % (doc, name, r["init"], r["first"], r["bound"], r["dst"], r["src"]))


def tr_fvector(src):
    out = []
    found = {}
    for kind, pat, var in (("Tuple", r"pybind11::init\s*\(\s*\[\s*\]\s*\(\s*pybind11::tuple\s+(\w+)\s*\)\s*", None),
                           ("List", r"pybind11::init\s*\(\s*\[\s*\]\s*\(\s*pybind11::list\s+(\w+)\s*\)\s*", None),
                           ("Args", r"pybind11::init\s*\(\s*\[\s*\]\s*\(\s*pybind11::args\s+(\w+)\s*\)\s*", None),
                           ("Copy", r'"copy"\s*,\s*\[\s*\]\s*\(\s*FV\s*&\s*self\s*,\s*pybind11::args\s+(\w+)\s*\)\s*', None)):
        m = re.search(pat, src)
        if not m:
            raise TranslateError("fvector.hh: %s constructor / copy not found" % kind)
        body, _ = balanced(src, m.end())
        x = m.group(1)
        sizes = [(r"\b%s\s*\.\s*size\s*\(\s*\)" % re.escape(x), "LEN"), (r"\b(?:v|self)\s*\.\s*size\s*\(\s*\)", "SIZE"),
                 (r"\bsize\b", "SIZE")]
        r, _ = tr_loop(body, "fvector.hh " + kind, sizes, re.escape(x), allow_prefix=(kind == "Copy"))
        found[kind] = r
        out.append(lean_loop("loop" + kind, r, "fvector.hh: copy loop of the %s" %
                             ("`copy(*args)` method" if kind == "Copy" else kind.lower() + " constructor")))
    if found["Copy"]["prefix"] is None:
        raise TranslateError("fvector.hh copy: the `no arguments -> copy of self` exit is missing")
    out.append("/-- fvector.hh `copy(*args)`: when the copy of `self` is returned instead of running the loop -/\n"
               "def copyReturnsSelf (size len : Nat) : Bool := %s\n" % found["Copy"]["prefix"])
    # buffer constructor
    m = re.search(r"pybind11::init\s*\(\s*\[\s*\]\s*\(\s*pybind11::buffer\s+(\w+)\s*\)\s*", src)
    if not m:
        raise TranslateError("fvector.hh: buffer constructor not found")
    body, _ = balanced(src, m.end())
    mi = re.search(r"pybind11::buffer_info\s+(\w+)\s*=", body)
    if not mi:
        raise TranslateError("fvector.hh buffer constructor: no buffer_info")
    info = mi.group(1)
    # the two checks, in any order, each `if (cond) throw pybind11::value_error(...)`
    checks = []
    stmts = split_statements(body, "fvector.hh Buffer")
    rest = []
    for st in stmts:
        if st[0] == "if":
            inner = flat(st[2])
            if st[3] is not None or len(inner) != 1 or inner[0][0] != "simple" or \
                    not re.fullmatch(r"throw\s+pybind11::value_error\s*\(.*\)", inner[0][1]):
                raise TranslateError("fvector.hh buffer constructor: unexpected conditional %r" % (st,))
            c = "".join(st[1].split())
            if c in ("%s.format!=pybind11::format_descriptor<K>::format()" % info,
                     "pybind11::format_descriptor<K>::format()!=%s.format" % info,
                     "!(%s.format==pybind11::format_descriptor<K>::format())" % info):
                checks.append("format")
            elif c in ("%s.ndim!=1" % info, "1!=%s.ndim" % info, "!(%s.ndim==1)" % info):
                checks.append("ndim")
            else:
                raise TranslateError("fvector.hh buffer constructor: check outside the grammar: %r" % c)
        else:
            rest.append(st)
    if sorted(checks) != ["format", "ndim"]:
        raise TranslateError("fvector.hh buffer constructor: expected the format and the ndim check, found %r" % checks)
    # re-serialise the remaining statements for tr_loop
    sizes = [(r"\b%s\s*\.\s*shape\s*\[\s*0\s*\]" % info, "LEN"), (r"\b%s\s*\.\s*strides\s*\[\s*0\s*\]" % info, "STRIDE0"),
             (r"sizeof\s*\(\s*K\s*\)", "W"), (r"\bsize\b", "SIZE")]
    # the stride declaration is signed arithmetic: translate it separately
    stride_expr, stride_name, body2 = None, None, []
    for st in rest:
        if st[0] == "simple":
            mm = re.fullmatch(r"(?:const\s+)?" + INTEGRAL + r"\s+(\w+)\s*=\s*(.*)", st[1])
            if mm and re.search(r"\bstrides\b", mm.group(2)):
                stride_name = mm.group(1)
                stride_expr = Expr(normalise(mm.group(2), sizes), "fvector.hh Buffer stride",
                                   {"STRIDE0": "stride0", "W": "w"}, "Int").parse("N")
                continue
        body2.append(st)
    if stride_expr is None:
        raise TranslateError("fvector.hh buffer constructor: stride computation not found")

    def ser(st):
        if st[0] == "simple":
            return st[1] + ";"
        if st[0] == "for":
            return "for(%s) %s" % (st[1], ser(st[2]))
        if st[0] == "block":
            return "{" + " ".join(ser(s) for s in st[1]) + "}"
        raise TranslateError("fvector.hh buffer constructor: unexpected statement")
    text = " ".join(ser(s) for s in body2)
    text = re.sub(r"static_cast\s*<\s*K\s*\*\s*>\s*\(\s*%s\s*\.\s*ptr\s*\)" % info, "PTR", text)
    text = re.sub(r"\b%s\b" % stride_name, "STRIDE", text)
    r, env = tr_loop_buf(text, sizes)
    out.append("/-- fvector.hh buffer constructor: element stride from `strides[0]` (bytes) and the item size -/\n"
               "def bufStride (stride0 w : Int) : Int := %s\n" % stride_expr)
    out.append("/-- fvector.hh buffer constructor: zero-initialised, `dst[dst i] = ptr[src i stride]` for `first ≤ i < bound` -/\n"
               "def bufInit : Int := %s\ndef bufFirst (size len : Nat) : Nat := %s\ndef bufBound (size len : Nat) : Nat := %s\n"
               "def bufDst (i : Nat) : Nat := %s\ndef bufSrc (i stride : Int) : Int := %s\n"
               % (r["init"], r["first"], r["bound"], r["dst"], r["src"]))
    # string constants
    m = re.search(r"to_string\s*\(\s*const\s+FieldVector\s*<\s*K\s*,\s*size\s*>\s*&\s*(\w+)\s*\)\s*", src)
    if not m:
        raise TranslateError("fvector.hh: to_string(FieldVector) not found")
    body, _ = balanced(src, m.end())
    mm = re.fullmatch(r'\s*return\s*"((?:[^"\\]|\\.)*)"\s*\+\s*join\s*\(\s*"((?:[^"\\]|\\.)*)"\s*,(.*),\s*(\w+)\s*\.\s*begin\s*\(\s*\)\s*,'
                      r'\s*(\w+)\s*\.\s*end\s*\(\s*\)\s*\)\s*\+\s*"((?:[^"\\]|\\.)*)"\s*;\s*', body, flags=re.S)
    if not mm or mm.group(4) != m.group(1) or mm.group(5) != m.group(1):
        raise TranslateError("fvector.hh: to_string(FieldVector) is not `open + join(delim, fmt, x.begin(), x.end()) + close`")
    if not re.fullmatch(r"\s*\[\s*\]\s*\(\s*auto\s*&&\s*(\w+)\s*\)\s*\{\s*return\s+to_string\s*\(\s*\1\s*\)\s*;\s*\}\s*", mm.group(3)):
        raise TranslateError("fvector.hh: to_string(FieldVector) formats the entries with something else than to_string")
    out.append('/-- fvector.hh `to_string(FieldVector)`: `open + join(delim, entries) + close` -/\n'
               'def strOpen : String := "%s"\ndef strDelim : String := "%s"\ndef strClose : String := "%s"\n'
               % (mm.group(1), mm.group(2), mm.group(6)))
    mr = re.search(r'"__repr__"\s*,\s*\[\s*\]\s*\(\s*const\s+FV\s*&\s*(\w+)\s*\)\s*', src)
    if not mr:
        raise TranslateError("fvector.hh: __repr__ not found")
    body, _ = balanced(src, mr.end())
    mm = re.fullmatch(r'\s*return\s*"((?:[^"\\]|\\.)*)"\s*\+\s*to_string\s*\(\s*size\s*\)\s*\+\s*"((?:[^"\\]|\\.)*)"\s*\+\s*'
                      r'to_string\s*\(\s*%s\s*\)\s*;\s*' % mr.group(1), body)
    if not mm:
        raise TranslateError("fvector.hh: __repr__ is not `prefix + to_string(size) + mid + to_string(self)`")
    out.append('/-- fvector.hh `__repr__`: `reprOpen ++ size ++ reprMid ++ str(self)` -/\n'
               'def reprOpen : String := "%s"\ndef reprMid : String := "%s"\n' % (mm.group(1), mm.group(2)))
    ms = re.search(r'"__str__"\s*,\s*\[\s*\]\s*\(\s*const\s+FV\s*&\s*(\w+)\s*\)\s*', src)
    if not ms:
        raise TranslateError("fvector.hh: __str__ not found")
    body, _ = balanced(src, ms.end())
    if not re.fullmatch(r"\s*return\s+to_string\s*\(\s*%s\s*\)\s*;\s*" % ms.group(1), body):
        raise TranslateError("fvector.hh: __str__ is not to_string(self)")
    return out


def tr_loop_buf(text, sizes):
    r, env = tr_loop_with_env(text, "fvector.hh Buffer", sizes, "PTR", {"STRIDE": "stride"})
    return r, env


def tr_loop_with_env(body, what, sizes, src_name, extra):
    # same as tr_loop, but the source index may use the (signed) element stride
    stmts = split_statements(body, what)
    env = {"SIZE": "size", "LEN": "len"}
    res = {}
    state, dstvar = 0, None
    for st in stmts:
        if st[0] == "simple":
            s = st[1]
            m = re.fullmatch(r"FV\s*\*\s*(\w+)\s*=\s*new\s+FV\s*\(\s*K\s*\(\s*(\d+)\s*\)\s*\)", s)
            if m and state == 0:
                dstvar, res["init"], state = m.group(1), m.group(2), 1
                continue
            m = re.fullmatch(r"(?:const\s+)?" + INTEGRAL + r"\s+(\w+)\s*=\s*(.*)", s)
            if m:
                env[m.group(1)] = "(" + Expr(normalise(m.group(2), sizes), what, env, "Nat").parse("N") + ")"
                continue
            if re.fullmatch(r"pybind11::buffer_info\s+\w+\s*=\s*\w+\s*\.\s*request\s*\(\s*\)", s):
                continue
            m = re.fullmatch(r"return\s+(\w+)", s)
            if m and state == 2 and m.group(1) == dstvar:
                state = 3
                continue
            raise TranslateError("%s: statement outside the grammar: %r" % (what, s))
        if st[0] == "for" and state == 1:
            head = [h.strip() for h in st[1].split(";")]
            m = re.fullmatch(INTEGRAL + r"\s+(\w+)\s*=\s*(.*)", head[0]) if len(head) == 3 else None
            if not m:
                raise TranslateError("%s: for header %r" % (what, st[1]))
            iv = m.group(1)
            res["first"] = Expr(normalise(m.group(2), sizes), what, env, "Nat").parse("N")
            if not re.fullmatch(r"\+\+\s*%s|%s\s*\+\+|%s\s*\+=\s*1" % (iv, iv, iv), head[2]):
                raise TranslateError("%s: loop increment %r" % (what, head[2]))
            m = re.fullmatch(r"%s\s*(<|!=|<=)\s*(.*)" % iv, head[1])
            if not m:
                raise TranslateError("%s: loop condition %r" % (what, head[1]))
            b = Expr(normalise(m.group(2), sizes), what, env, "Nat").parse("N")
            res["bound"] = "(%s + 1)" % b if m.group(1) == "<=" else b
            inner = flat(st[2])
            if len(inner) != 1 or inner[0][0] != "simple":
                raise TranslateError("%s: loop body is not one assignment" % what)
            m = re.fullmatch(r"\(\s*\*\s*%s\s*\)\s*\[(.*?)\]\s*=\s*%s\s*\[(.*)\]" % (dstvar, src_name), inner[0][1])
            if not m:
                raise TranslateError("%s: loop body outside the grammar: %r" % (what, inner[0][1]))
            ienv = dict(env)
            ienv[iv] = "i"
            res["dst"] = Expr(normalise(m.group(1), sizes), what, ienv, "Nat").parse("N")
            senv = {iv: "i"}
            senv.update(extra)
            res["src"] = Expr(normalise(m.group(2), sizes), what, senv, "Int").parse("N")
            state = 2
            continue
        raise TranslateError("%s: unexpected statement %r" % (what, st[0]))
    if state != 3:
        raise TranslateError("%s: constructor does not end with `return <the vector>`" % what)
    return res, env


def tr_dynvector(src):
    m = re.search(r"pybind11::init\s*\(\s*\[\s*\]\s*\(\s*pybind11::list\s+(\w+)\s*\)\s*", src)
    if not m:
        raise TranslateError("dynvector.hh: list constructor not found")
    body, _ = balanced(src, m.end())
    x = m.group(1)
    # `std::size_t size = x.size();` : the vector's size is a local here
    sizes = [(r"\b%s\s*\.\s*size\s*\(\s*\)" % re.escape(x), "LEN")]
    r, env = tr_loop(body, "dynvector.hh List", sizes, re.escape(x))
    if "alloc" not in r:
        raise TranslateError("dynvector.hh: DV(size, K(0)) allocation not found")
    out = [lean_loop("loopDyn", r, "dynvector.hh: copy loop of the list constructor (the `size` argument is not used)"),
           "/-- dynvector.hh list constructor: number of entries allocated -/\ndef dynAlloc (size len : Nat) : Nat := %s\n" % r["alloc"]]
    mr = re.search(r'"__repr__"\s*,\s*\[\s*\]\s*\(\s*const\s+DV\s*&\s*(\w+)\s*\)\s*', src)
    if not mr:
        raise TranslateError("dynvector.hh: __repr__ not found")
    body, _ = balanced(src, mr.end())
    strs = re.findall(r'"((?:[^"\\]|\\.)*)"', body)
    v = mr.group(1)
    shape = re.sub(r'"((?:[^"\\]|\\.)*)"', "S", " ".join(body.split()))
    shape = re.sub(r"\s+", "", shape)
    want = ("std::stringrepr=S;for(std::size_ti=0;i<%s.size();++i)repr+=(i>0?S:S)+std::to_string(%s[i]);repr+=S;returnrepr;"
            % (v, v))
    if shape != want or len(strs) != 4 or strs[2] != "":
        raise TranslateError("dynvector.hh: __repr__ outside the grammar: %r" % shape)
    out.append('/-- dynvector.hh `__repr__`: `dynOpen ++ entries joined by dynDelim ++ dynClose` -/\n'
               'def dynOpen : String := "%s"\ndef dynDelim : String := "%s"\ndef dynClose : String := "%s"\n'
               % (strs[0], strs[1], strs[3]))
    return out


# ------------------------------------------------------------------------------------------------------------------
# what is bound
# ------------------------------------------------------------------------------------------------------------------
def canon_params(params):
    out, depth, cur = [], 0, ""
    for c in params:
        if c in "<([":
            depth += 1
        elif c in ">)]":
            depth -= 1
        if c == "," and depth == 0:
            out.append(cur)
            cur = ""
        else:
            cur += c
    if cur.strip():
        out.append(cur)
    res = []
    for p in out:
        p = re.sub(r"\bconst\b", " ", p).replace("&", " ")
        p = re.sub(r"\b\w+::", "", p)
        words = p.split()
        if len(words) >= 2 and re.fullmatch(r"\w+", words[-1]):
            words = words[:-1]
        res.append("".join(words))
    return ",".join(res)


def section_of(src, pos, sections):
    name = "?"
    for start, nm in sections:
        if start <= pos:
            name = nm
    return name


def tr_bindings(files):
    """ordered list of strings `section: kind name(params)`; stable-sorted by (section, name) so that only the order among
    overloads of one name matters"""
    entries = []
    for rel, src in files:
        base = os.path.basename(rel)
        sections = []
        for m in re.finditer(r"\b(register\w+)\s*\(\s*pybind11::(?:class_|handle)[^{;]*?\)\s*(?:->\s*[^{;]*)?\{", src):
            tag = re.search(r"PriorityTag\s*<\s*(\d+)\s*>", m.group(0))
            sections.append((m.start(), m.group(1) + ("#" + tag.group(1) if tag else "")))
        for m in re.finditer(r"\bcls\s*\.\s*(def_property_readonly|def_buffer|def)\s*\(", src):
            args, end = balanced(src, m.end() - 1, "(", ")")
            sec = base + ":" + section_of(src, m.start(), sections)
            a = args.strip()
            kind = m.group(1)
            mm = re.match(r'"(\w+)"\s*,\s*\[[^\]]*\]\s*\(', a)
            if kind == "def_buffer":
                entries.append((sec, "buffer", "buffer()"))
            elif mm:
                p, _ = balanced(a, mm.end() - 1, "(", ")")
                entries.append((sec, mm.group(1), "%s %s(%s)" % ("prop" if kind != "def" else "def", mm.group(1), canon_params(p))))
            elif re.match(r"pybind11::init\s*\(|py::init\s*\(", a):
                mm = re.match(r"(?:pybind11|py)::init\s*\(\s*\[[^\]]*\]\s*\(", a)
                if not mm:
                    raise TranslateError("%s: init outside the grammar: %r" % (base, a[:60]))
                p, _ = balanced(a, mm.end() - 1, "(", ")")
                entries.append((sec, "__init__", "init(%s)" % canon_params(p)))
            elif re.match(r"pybind11::self\b", a):
                mm = re.fullmatch(r"pybind11::self\s*(\S+?)\s*(pybind11::self|ValueType\s*\(\s*\))", a)
                if not mm:
                    raise TranslateError("%s: operator registration outside the grammar: %r" % (base, a))
                rhs = "self" if "self" in mm.group(2) else "ValueType"
                entries.append((sec, "op" + mm.group(1), "op self%s%s" % (mm.group(1), rhs)))
            else:
                raise TranslateError("%s: cls.def outside the grammar: %r" % (base, a[:80]))
        # the registration functions a registration function passes `cls` on to: their order fixes the order of overloads of
        # one name that come from different functions (`__mul__(T,T)` before `__mul__(T,ValueType)`)
        for m in re.finditer(r"(?<![\w:])(?:detail::)?(register\w+)\s*(?:<[^>;(]*>)?\s*\(\s*(?:scope\s*,\s*)?(?:cls|entry\s*\.\s*first)\s*\)\s*;", src):
            sec = base + ":" + section_of(src, m.start(), sections)
            entries.append((sec, "~call", "call " + m.group(1)))
        for m in re.finditer(r"pybind11::implicitly_convertible\s*<([^;]*?)>\s*\(\s*\)", src):
            sec = base + ":" + section_of(src, m.start(), sections)
            entries.append((sec, "~conv", "conv " + canon_params(m.group(1))))
    order = sorted(range(len(entries)), key=lambda k: (entries[k][0], entries[k][1], k))
    return ["%s: %s" % (entries[k][0], entries[k][2]) for k in order]


HEADER = """/-
GENERATED by tools/translators/tr_c20.py from dune/python/common/{densevector,vector,fvector,dynvector,tuplevector}.hh
of the tree under test -- do not edit.  Core Lean only.
-/
set_option linter.unusedVariables false
namespace DV.C20.Gen

/-- a zero-initialised vector of `size` entries is filled by `dst[dst i] = src[src i]` for `first size len ≤ i < bound size len` -/
structure CopyLoop where
  init : Int
  first : Nat → Nat → Nat
  bound : Nat → Nat → Nat
  dst : Nat → Nat
  src : Nat → Nat

"""


def translate(repo):
    dv = read(repo, "dune/python/common/densevector.hh")
    fv = read(repo, "dune/python/common/fvector.hh")
    dy = read(repo, "dune/python/common/dynvector.hh")
    ve = read(repo, "dune/python/common/vector.hh")
    tv = read(repo, "dune/python/common/tuplevector.hh")
    parts = [HEADER]
    parts.append("/-- densevector.hh `normalizeIndex` (both `__getitem__(ssize_t)` and `__setitem__(ssize_t, x)` are the plain access\n"
                 "    through it; the `pybind11::int_` overloads only throw `index_error`): `none` = `index_error` -/\n"
                 "def normalizeIndex (size i : Int) : Option Int :=\n  " + tr_normalize_index(dv) + "\n")
    parts += tr_fvector(fv)
    parts += tr_dynvector(dy)
    b = tr_bindings([("dune/python/common/densevector.hh", dv), ("dune/python/common/vector.hh", ve),
                     ("dune/python/common/fvector.hh", fv), ("dune/python/common/dynvector.hh", dy),
                     ("dune/python/common/tuplevector.hh", tv)])
    parts.append("/-- everything the registration functions bind, `file:function#priority: kind name(parameter types)`; sorted by\n"
                 "    (function, name), registration order kept among the overloads of one name -/\n"
                 "def bindings : List String := [\n  " + ",\n  ".join('"%s"' % s for s in b) + "]\n")
    parts.append("end DV.C20.Gen\n")
    yield ("DuneVerif/Gen/C20.lean", "\n".join(parts))


if __name__ == "__main__":
    import sys
    for p, c in translate(sys.argv[1] if len(sys.argv) > 1 else "/repo"):
        sys.stdout.write(c)
