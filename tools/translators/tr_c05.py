"""Translator for C05 (Interface / attribute sets).

Re-reads on every run, from the current source tree,
  * the four attribute tests of `InterfaceBuilder::buildInterface` (dune/common/parallel/interface.hh): the outer and the
    inner test of the counting loop and of the adding loop, each of the form
        send ? <set>.contains(<attribute>) : <set>.contains(<attribute>)
    with <set> one of the two flag-set parameters and <attribute> either `remote->attribute()` (the attribute of the
    copy on the other process) or `remote->localIndexPair().local().attribute()` (the own attribute), and what the
    second loop adds (`remote->localIndexPair().local().local()`),
  * the bodies of the six `contains` functions of dune/common/enumset.hh (EmptySet, AllSet, EnumItem, EnumRange,
    NegateSet, Combine), which are single `return <boolean expression>;` statements,
  * (round three) the bounds of the two completion loops at the end of `BufferedCommunicator::sendRecv`
    (dune/common/parallel/communicator.hh): how often `MPI_Waitany` is called and over how many entries of `recvRequests`,
    and how many entries of `sendRequests` are waited for (a `for` loop around `MPI_Wait(sendRequests+i, ..)` /
    `MPI_Wait(&sendRequests[i], ..)`, or one `MPI_Waitall(n, sendRequests, ..)`), each bound being either
    `messageInformation_.size()` (all neighbours) or the counter that is incremented next to every `MPI_Irecv`
    (the receives really posted),
  * (round four) the DIRECTION SELECTORS of communicator.hh: which of `buffers_[0]`/`buffers_[1]` `sendRecv` gathers into
    and receives into for FORWARD and for !FORWARD, which member (`first`/`second`) of the `messageInformation_` entry
    gives start, size and the `if(size_)` guard of `MPI_Irecv` and of `MPI_Issend` in either branch and of the scatter
    after `MPI_Waitany`, which member of the `interfaces_` entry the two `MessageGatherer`s (size and index) and the two
    `MessageScatterer`s use, and for the four `forward`/`backward` wrappers the template argument of `sendRecv` and
    which parameter is gathered from / scattered to,
  * (round four) the body of the loop of both `BufferedCommunicator::build` overloads: from which member of the interface
    entry and with which container the two message sizes are computed, the condition under which an entry of
    `messageInformation_` is inserted, the four arguments `MessageInformation(start,size)` x 2 and the two increments of
    `bufferSize_[0..1]` as arithmetic expressions (grammar: + * integers parentheses comparisons && || ! over the two
    sizes, `bufferSize_[0]`, `bufferSize_[1]`, `sizeof(IndexedType)`),
  * (round four) the condition under which `Interface::strip` erases a neighbour (boolean expression over the sizes of
    the two lists),
and emits them as Lean definitions into lean/DuneVerif/Gen/C05.lean.  Model/C05.lean evaluates the generated tests in
`countPass` / `addPass` and the driver realises every attribute-set mask through the generated `contains`
functions, so `interface_spec` (through `passesCount_eq`, `passesAdd_eq`) and the theorems `attrsets_spec`,
`attrset_tables` are re-proved about what the source says now.

Grammar of a `contains` body:   EXPR ::= OR ;  OR ::= AND { || AND } ;  AND ::= NOT { && NOT } ;
  NOT ::= ! NOT | CMP ;  CMP ::= ATOM [ (== | != | <= | >= | < | >) ATOM ] ;
  ATOM ::= true | false | integer | identifier | identifier::contains(identifier) | ( EXPR )
where the identifiers are the function's parameter, the class's integral template parameters and (for NegateSet,
Combine) its set template parameters.

Fail-soft policy: a harmless refactoring that leaves this grammar must not raise an alarm, so an item that cannot be
parsed falls back to the built-in transcription (what the hand-written round-one model said) and is recorded in
`Gen.translated` / `status()`; tools/checks/c05.py hands the number of fallbacks to the harness, which reports it in the
evidence (`translator_fallbacks`).  Such an item is then tied by the differential run only."""
import os
import re


class TranslateError(Exception):
    pass


def _strip_comments(src):
    src = re.sub(r"/\*.*?\*/", " ", src, flags=re.S)
    return re.sub(r"//[^\n]*", "", src)


# ---------------------------------------------------------------------------------------------------------------
# buildInterface
DEFAULT_TESTS = [("dest", "remote", "source", "remote"), ("source", "loc", "dest", "loc"),
                 ("dest", "remote", "source", "remote"), ("source", "loc", "dest", "loc")]


def _matching(src, i, open_ch="{", close_ch="}"):
    depth = 0
    for j in range(i, len(src)):
        if src[j] == open_ch:
            depth += 1
        elif src[j] == close_ch:
            depth -= 1
            if depth == 0:
                return j
    raise TranslateError("unbalanced " + open_ch)


def parse_build_interface(src):
    src = _strip_comments(src)
    m = re.search(r"void\s+InterfaceBuilder\s*::\s*buildInterface\s*\(([^)]*)\)\s*(?:const)?\s*\{", src)
    if not m:
        raise TranslateError("definition of InterfaceBuilder::buildInterface not found")
    params = [p.strip().split()[-1].lstrip("&*") for p in m.group(1).split(",")]
    if len(params) != 4:
        raise TranslateError("buildInterface: expected 4 parameters, found %r" % (params,))
    setname = {params[1]: "source", params[2]: "dest"}
    body = src[m.end() - 1:_matching(src, m.end() - 1) + 1]
    attr_re = r"remote\s*->\s*(?:localIndexPair\s*\(\s*\)\s*\.\s*local\s*\(\s*\)\s*\.\s*)?attribute\s*\(\s*\)"
    test_re = re.compile(r"if\s*\(\s*send\s*\?\s*(\w+)\s*\.\s*contains\s*\(\s*(" + attr_re + r")\s*\)\s*:\s*(\w+)\s*\.\s*contains\s*\(\s*(" +
                         attr_re + r")\s*\)\s*\)")
    tests = []
    for t in test_re.finditer(body):
        s1, a1, s2, a2 = t.groups()
        if s1 not in setname or s2 not in setname:
            raise TranslateError("buildInterface: test consults %r / %r, not the flag-set parameters" % (s1, s2))
        kind = lambda a: "loc" if "localIndexPair" in a else "remote"
        tests.append((setname[s1], kind(a1), setname[s2], kind(a2)))
    n_contains = len(re.findall(r"\.\s*contains\s*\(", body))
    if len(tests) != 4 or n_contains != 8:
        raise TranslateError("buildInterface: expected four `send ? X.contains(..) : Y.contains(..)` tests, found %d (%d calls of contains)"
                             % (len(tests), n_contains))
    # nesting: tests 0,1 belong to the first (counting) loop, 2,3 to the second; the inner test directly follows the outer
    for k in (0, 2):
        between = body[list(test_re.finditer(body))[k].end():list(test_re.finditer(body))[k + 1].start()]
        if between.strip() not in ("{", ""):
            raise TranslateError("buildInterface: statements between the outer and the inner attribute test")
    if not re.search(r"\+\+\s*size\s*;|size\s*\+\+\s*;|size\s*\+=\s*1\s*;", body):
        raise TranslateError("buildInterface: counting statement not recognised")
    add = re.search(r"interfaceInformation\s*\.\s*add\s*\(\s*process\s*->\s*first\s*,\s*([^;]*?)\)\s*;", body)
    if not add or re.sub(r"\s", "", add.group(1)) != "remote->localIndexPair().local().local()":
        raise TranslateError("buildInterface: the add statement does not add remote->localIndexPair().local().local()")
    return tests


# ---------------------------------------------------------------------------------------------------------------
# sendRecv: the completion loops
DEFAULT_BOUNDS = dict(recvLoop="realRecvs", recvCount="neighbours", sendWait="neighbours")


def parse_send_recv(src):
    """bounds of the MPI_Waitany loop and of the wait for the sends in BufferedCommunicator::sendRecv"""
    src = _strip_comments(src)
    m = re.search(r"void\s+BufferedCommunicator\s*::\s*sendRecv\s*\(([^)]*)\)\s*\{", src)
    if not m:
        raise TranslateError("definition of BufferedCommunicator::sendRecv not found")
    body = src[m.end() - 1:_matching(src, m.end() - 1) + 1]
    # the counter of posted receives: incremented exactly once next to every MPI_Irecv, nowhere else, starts at 0
    n_irecv = len(re.findall(r"\bMPI_Irecv\s*\(", body))
    counters = set(re.findall(r"(\w+)\s*(?:\+=\s*1|\+\+)\s*;", body)) | set(re.findall(r"\+\+\s*(\w+)\s*;", body))
    counter = None
    for c in counters:
        incs = len(re.findall(r"\b" + c + r"\s*(?:\+=\s*1|\+\+)\s*;|\+\+\s*" + c + r"\s*;", body))
        guarded = len(re.findall(r"MPI_Irecv\s*\([^;]*;\s*(?:" + c + r"\s*(?:\+=\s*1|\+\+)|\+\+\s*" + c + r")\s*;", body))
        if incs == n_irecv and guarded == n_irecv and n_irecv > 0 and re.search(r"\b" + c + r"\s*=\s*0\s*;", body):
            counter = c
    def bound(expr):
        e = re.sub(r"\s", "", expr)
        if e == "messageInformation_.size()":
            return "neighbours"
        if counter is not None and e == counter:
            return "realRecvs"
        raise TranslateError("sendRecv: loop bound %r is neither messageInformation_.size() nor the counter of posted receives" % expr)
    loop = r"for\s*\(\s*(?:\w+\s+)?(\w+)\s*=\s*0\s*;\s*\1\s*<\s*([^;]+?)\s*;\s*(?:\1\s*\+\+|\+\+\s*\1)\s*\)"
    # receives: a for loop whose body calls MPI_Waitany(count, recvRequests, ...)
    wa = list(re.finditer(r"\bMPI_Waitany\s*\(\s*([^,]+?)\s*,\s*recvRequests\s*,", body))
    if len(wa) != 1:
        raise TranslateError("sendRecv: expected exactly one MPI_Waitany over recvRequests, found %d" % len(wa))
    heads = [h for h in re.finditer(loop, body) if h.end() < wa[0].start()]
    if not heads:
        raise TranslateError("sendRecv: no counting loop around MPI_Waitany")
    h = heads[-1]
    br = body.find("{", h.end())
    if br < 0 or body[h.end():br].strip() or _matching(body, br) < wa[0].start():
        raise TranslateError("sendRecv: MPI_Waitany is not inside the body of the preceding counting loop")
    res = dict(recvLoop=bound(h.group(2)), recvCount=bound(wa[0].group(1)))
    # sends: MPI_Waitall(n, sendRequests, ..) or a counting loop around MPI_Wait(sendRequests+i / &sendRequests[i], ..)
    wall = list(re.finditer(r"\bMPI_Waitall\s*\(\s*([^,]+?)\s*,\s*sendRequests\s*,", body))
    wone = list(re.finditer(r"\bMPI_Wait\s*\(\s*(?:sendRequests\s*\+\s*(\w+)|&\s*sendRequests\s*\[\s*(\w+)\s*\])\s*,", body))
    if len(wall) == 1 and not wone:
        res["sendWait"] = bound(wall[0].group(1))
    elif len(wone) == 1 and not wall:
        var = wone[0].group(1) or wone[0].group(2)
        heads = [h for h in re.finditer(loop, body) if h.end() < wone[0].start()]
        if not heads or heads[-1].group(1) != var:
            raise TranslateError("sendRecv: MPI_Wait on sendRequests is not indexed by the preceding counting loop")
        h = heads[-1]
        between = body[h.end():wone[0].start()]
        if not re.fullmatch(r"\s*\{?\s*(?:if\s*\(\s*(?:MPI_SUCCESS\s*!=\s*)?)?", between):
            raise TranslateError("sendRecv: statements between the loop head and MPI_Wait on sendRequests")
        res["sendWait"] = bound(h.group(2))
    else:
        raise TranslateError("sendRecv: wait for the sends not recognised (%d MPI_Waitall, %d MPI_Wait on sendRequests)"
                             % (len(wall), len(wone)))
    # every send request that is posted lives in sendRequests[i], i = position in messageInformation_ (one MPI_Issend per branch)
    if not re.search(r"new\s+MPI_Request\s*\[\s*messageInformation_\s*\.\s*size\s*\(\s*\)\s*\]", body):
        raise TranslateError("sendRecv: request arrays are not sized messageInformation_.size()")
    return res


# ---------------------------------------------------------------------------------------------------------------
# round four: direction selectors, build layout, strip
DEFAULT_DIRS = dict(
    sendBuffer=("first", "second"), recvBuffer=("second", "first"),
    irecvStart=("second", "first"), irecvSize=("second", "first"), irecvGuard=("second", "first"),
    issendStart=("first", "second"), issendSize=("first", "second"), issendGuard=("first", "second"),
    waitanyInfo=("second", "first"),
    gatherOneSize=("first", "second"), gatherOneIndex=("first", "second"),
    gatherVarSize=("first", "second"), gatherVarIndex=("first", "second"),
    scatterOneInfo=("second", "first"), scatterVarInfo=("second", "first"))
DEFAULT_WRAPPERS = dict(forward1=(True, 0, 0), backward1=(False, 0, 0), forward2=(True, 0, 1), backward2=(False, 1, 0))
_LAYOUT_ONE = dict(cond="(decide (nF + nS > 0))", firstStart="s0", firstSize="(nF * sz)", secondStart="s1",
                   secondSize="(nS * sz)", inc0="nF", inc1="nS", firstCont="first", secondCont="second")
DEFAULT_LAYOUT = dict(A=dict(_LAYOUT_ONE), B=dict(_LAYOUT_ONE))
DEFAULT_STRIP = "((n1 == 0) && (n2 == 0))"


def _defs(src, name_re):
    """[(parameter text, body)] of every out-of-class definition `BufferedCommunicator::<name_re>(...) [const] {`"""
    out = []
    for m in re.finditer(r"BufferedCommunicator\s*::\s*" + name_re + r"\s*\(([^)]*)\)\s*(?:const)?\s*\{", src):
        out.append((m, src[m.end() - 1:_matching(src, m.end() - 1) + 1]))
    return out


def _param_names(text):
    names = []
    for p in text.split(","):
        w = re.sub(r"\[\[[^\]]*\]\]", " ", p).replace("&", " ").replace("*", " ").split()
        if w:
            names.append(w[-1])
    return names


def _forward_blocks(body, flag="FORWARD"):
    """[(then block, else block)] of every `if(FORWARD) {..} else {..}`"""
    out = []
    for m in re.finditer(r"\bif\s*\(\s*" + flag + r"\s*\)\s*\{", body):
        e = _matching(body, m.end() - 1)
        m2 = re.match(r"\s*else\s*\{", body[e + 1:])
        if not m2:
            raise TranslateError("sendRecv: if(FORWARD) without else block")
        s2 = e + 1 + m2.end() - 1
        out.append((body[m.end() - 1:e + 1], body[s2:_matching(body, s2) + 1]))
    return out


_TERN = (r"\(?\s*(!?)\s*(\w+)\s*\)?\s*\?\s*%s\s*->\s*second\s*\.\s*(first|second)\s*(\.\s*size\s*\(\s*\)|\[\s*\w+\s*\])?"
         r"\s*:\s*%s\s*->\s*second\s*\.\s*(first|second)\s*(\.\s*size\s*\(\s*\)|\[\s*\w+\s*\])?")


def _ternaries(body, var, flags):
    """{kind: (side if forward, side if backward)} for every `FLAG ? var->second.X<suffix> : var->second.Y<suffix>`"""
    res = {}
    for t in re.finditer(_TERN % (var, var), body):
        neg, flag, a, sa, b, sb = t.groups()
        if flag not in flags:
            raise TranslateError("selector on %r, not on the direction flag" % flag)
        kind = lambda x: "whole" if not x else ("size" if "size" in x else "index")
        if kind(sa) != kind(sb):
            raise TranslateError("the two branches of a direction selector access different things")
        if neg:
            a, b = b, a
        if kind(sa) in res:
            raise TranslateError("more than one %s selector" % kind(sa))
        res[kind(sa)] = (a, b)
    return res


def parse_directions(src):
    src = _strip_comments(src)
    d = {}
    if len(re.findall(r"constexpr\s+static\s+bool\s+forward\s*=\s*send\s*;", src)) != 4:
        raise TranslateError("MessageGatherer/MessageScatterer: `constexpr static bool forward = send;` expected four times")
    # gatherers and scatterers
    for cls, var, kinds in (("MessageGatherer", "interfacePair", ("size", "index")), ("MessageScatterer", "infoPair", ("whole",))):
        for flavour, tag in (("SizeOne", "One"), ("VariableSize", "Var")):
            ms = list(re.finditer(r"BufferedCommunicator\s*::\s*" + cls + r"\s*<\s*Data\s*,\s*GatherScatter\s*,\s*(\w+)\s*,\s*" + flavour +
                                  r"\s*>\s*::\s*operator\s*\(\s*\)\s*\(([^)]*)\)\s*const\s*\{", src))
            if len(ms) != 1:
                raise TranslateError("%s<..,%s>::operator() not found" % (cls, flavour))
            body = src[ms[0].end() - 1:_matching(src, ms[0].end() - 1) + 1]
            t = _ternaries(body, var, (ms[0].group(1), "forward"))
            if sorted(t) != sorted(kinds):
                raise TranslateError("%s<..,%s>: direction selectors %r, expected %r" % (cls, flavour, sorted(t), sorted(kinds)))
            if len(re.findall(var + r"\s*->\s*second\s*\.\s*(?:first|second)", body)) != 2 * len(kinds):
                raise TranslateError("%s<..,%s>: interface entry accessed outside the direction selectors" % (cls, flavour))
            if cls == "MessageGatherer":
                d["gather%sSize" % tag], d["gather%sIndex" % tag] = t["size"], t["index"]
            else:
                d["scatter%sInfo" % tag] = t["whole"]
    # sendRecv
    sr = _defs(src, "sendRecv")
    if len(sr) != 1:
        raise TranslateError("definition of BufferedCommunicator::sendRecv not found")
    body = sr[0][1]
    seen = set()
    side = r"info\s*->\s*second\s*\.\s*(first|second)\s*\.\s*"
    for th, el in _forward_blocks(body):
        if "MPI_Irecv" in th or "MPI_Irecv" in el:
            kind, call, buf = "irecv", "MPI_Irecv", "recvBuffer"
        elif "MPI_Issend" in th or "MPI_Issend" in el:
            kind, call, buf = "issend", "MPI_Issend", "sendBuffer"
        elif re.search(r"\bsendBuffer\s*=", th):
            kind = "buffers"
        else:
            raise TranslateError("sendRecv: unrecognised if(FORWARD) block")
        if kind in seen:
            raise TranslateError("sendRecv: two %s blocks" % kind)
        seen.add(kind)
        vals = []
        for blk in (th, el):
            if kind == "buffers":
                s = re.findall(r"\bsendBuffer\s*=\s*reinterpret_cast\s*<[^>]*>\s*\(\s*buffers_\s*\[\s*([01])\s*\]\s*\)\s*;", blk)
                r = re.findall(r"\brecvBuffer\s*=\s*reinterpret_cast\s*<[^>]*>\s*\(\s*buffers_\s*\[\s*([01])\s*\]\s*\)\s*;", blk)
                if len(s) != 1 or len(r) != 1 or len(re.findall(r"\b(?:sendBuffer|recvBuffer)\s*=", blk)) != 2:
                    raise TranslateError("sendRecv: buffer selection not recognised")
                vals.append((("first", "second")[int(s[0])], ("first", "second")[int(r[0])]))
            else:
                c = re.findall(call + r"\s*\(\s*" + buf + r"\s*\+\s*" + side + r"start_\s*,\s*" + side +
                               r"size_\s*,\s*MPI_BYTE\s*,\s*info\s*->\s*first\s*,", blk)
                g = re.findall(r"\bif\s*\(\s*" + side + r"size_\s*(?:>\s*0|!=\s*0)?\s*\)", blk)
                if len(c) != 1 or len(g) != 1 or len(re.findall(r"\bMPI_I\w+\s*\(", blk)) != 1:
                    raise TranslateError("sendRecv: %s branch not recognised" % call)
                vals.append((c[0][0], c[0][1], g[0]))
        if kind == "buffers":
            d["sendBuffer"] = (vals[0][0], vals[1][0])
            d["recvBuffer"] = (vals[0][1], vals[1][1])
        else:
            for k, name in enumerate(("Start", "Size", "Guard")):
                d[kind + name] = (vals[0][k], vals[1][k])
    if seen != {"buffers", "irecv", "issend"}:
        raise TranslateError("sendRecv: if(FORWARD) blocks found: %r" % sorted(seen))
    t = _ternaries(body, "infoIter", ("FORWARD",))
    if sorted(t) != ["whole"]:
        raise TranslateError("sendRecv: selection of the message information after MPI_Waitany not recognised")
    d["waitanyInfo"] = t["whole"]
    if not re.search(r"\(\s*interfaces_\s*,\s*dest\s*,\s*recvBuffer\s*\+\s*info\s*\.\s*start_\s*,\s*proc\s*\)", body):
        raise TranslateError("sendRecv: scatter call not recognised")
    if not re.search(r"\(\s*interfaces_\s*,\s*source\s*,\s*sendBuffer\s*,\s*sendBufferSize\s*\)", body):
        raise TranslateError("sendRecv: gather call not recognised")
    # wrappers
    w = {}
    for name in ("forward", "backward"):
        for m, wb in _defs(src, name):
            names = _param_names(m.group(1))
            c = re.findall(r"sendRecv\s*<\s*GatherScatter\s*,\s*(true|false)\s*>\s*\(\s*(\w+)\s*,\s*(\w+)\s*\)\s*;", wb)
            if len(c) != 1 or len(names) not in (1, 2) or c[0][1] not in names or c[0][2] not in names:
                raise TranslateError("%s: call of sendRecv not recognised" % name)
            key = name + str(len(names))
            if key in w:
                raise TranslateError("two definitions of %s with %d parameters" % (name, len(names)))
            w[key] = (c[0][0] == "true", names.index(c[0][1]), names.index(c[0][2]))
    if sorted(w) != sorted(DEFAULT_WRAPPERS):
        raise TranslateError("forward/backward wrappers found: %r" % sorted(w))
    return d, w


DEFAULT_DT = dict(dtTypeSlot=("first", "second"), dtTypeData=("first", "second"),
                  dtReqRecvType=("second", "first"), dtReqSendType=("first", "second"), dtReqSlot=("second", "first"),
                  dtReqSendArg=("first", "second"), dtReqRecvArg=("second", "first"),
                  dtRecvAddr=("second", "second"), dtSendAddr=("first", "first"), dtUseSlot=("second", "first"))


def parse_datatype(src):
    """direction selectors of DatatypeCommunicator: build, createDataTypes, createRequests, forward, backward.
    Every selector is a pair (value for flag = true, value for flag = false); containers: first = sendData,
    second = receiveData of `build`; request sets: first = requests_[0], second = requests_[1]"""
    src = _strip_comments(src)
    d = {}

    def body_of(name, extra=r"[^)]*"):
        ms = list(re.finditer(r"DatatypeCommunicator\s*<\s*T\s*>\s*::\s*" + name + r"\s*\((" + extra + r")\)\s*\{", src))
        if len(ms) != 1:
            raise TranslateError("DatatypeCommunicator::%s: %d definitions" % (name, len(ms)))
        return ms[0], src[ms[0].end() - 1:_matching(src, ms[0].end() - 1) + 1]
    # createDataTypes<.., send>
    m, b = body_of("createDataTypes")
    if not re.search(r"buildInterface\s*<\s*RemoteIndices\s*,\s*T1\s*,\s*T2\s*,\s*MPIDatatypeInformation\s*<\s*V\s*>\s*,\s*send\s*>\s*"
                     r"\(\s*\*\s*remoteIndices_\s*,\s*sourceFlags\s*,\s*destFlags\s*,\s*dataInfo\s*\)", b) or \
       not re.search(r"MPIDatatypeInformation\s*<\s*V\s*>\s*dataInfo\s*\(\s*data\s*\)\s*;", b):
        raise TranslateError("createDataTypes: call of buildInterface not recognised")
    t = re.findall(r"&\s*\(\s*send\s*\?\s*messageTypes\s*\[\s*process\s*->\s*first\s*\]\s*\.\s*(first|second)\s*:\s*"
                   r"messageTypes\s*\[\s*process\s*->\s*first\s*\]\s*\.\s*(first|second)\s*\)", b)
    if len(t) != 1 or len(re.findall(r"messageTypes\s*\[", b)) != 2:
        raise TranslateError("createDataTypes: selection of the datatype slot not recognised")
    d["dtTypeSlot"] = t[0]
    # build
    m, b = body_of("build")
    names = _param_names(m.group(1))
    if len(names) != 5:
        raise TranslateError("DatatypeCommunicator::build: %d parameters" % len(names))
    cont = {names[2]: "first", names[4]: "second"}
    cd = dict(re.findall(r"createDataTypes\s*<\s*T1\s*,\s*T2\s*,\s*V\s*,\s*(true|false)\s*>\s*\(\s*" + names[1] + r"\s*,\s*" + names[3] +
                         r"\s*,\s*(\w+)\s*\)\s*;", b))
    cr = {k: (x, y) for k, x, y in re.findall(r"createRequests\s*<\s*V\s*,\s*(true|false)\s*>\s*\(\s*(\w+)\s*,\s*(\w+)\s*\)\s*;", b)}
    if sorted(cd) != ["false", "true"] or sorted(cr) != ["false", "true"] or len(re.findall(r"createDataTypes\s*<", b)) != 2 or \
       len(re.findall(r"createRequests\s*<", b)) != 2 or any(v not in cont for v in cd.values()) or \
       any(x not in cont or y not in cont for x, y in cr.values()):
        raise TranslateError("DatatypeCommunicator::build: calls of createDataTypes/createRequests not recognised")
    d["dtTypeData"] = (cont[cd["true"]], cont[cd["false"]])
    d["dtReqSendArg"] = (cont[cr["true"][0]], cont[cr["false"][0]])
    d["dtReqRecvArg"] = (cont[cr["true"][1]], cont[cr["false"][1]])
    # createRequests<V, createForward>(sendData, receiveData)
    m, b = body_of("createRequests")
    names = _param_names(m.group(1))
    if len(names) != 2:
        raise TranslateError("createRequests: %d parameters" % len(names))
    par = {names[0]: "first", names[1]: "second"}
    ix = re.findall(r"\bint\s+index\s*=\s*createForward\s*\?\s*([01])\s*:\s*([01])\s*;", b)
    if len(ix) != 1 or not re.search(r"requests_\s*\[\s*index\s*\]\s*=\s*new\s+MPI_Request", b):
        raise TranslateError("createRequests: request set index not recognised")
    d["dtReqSlot"] = (("first", "second")[int(ix[0][0])], ("first", "second")[int(ix[0][1])])
    loops = [x for x in re.finditer(r"for\s*\(", b)]
    parts = {}
    for lp in loops:
        e = _matching(b, lp.end() - 1, "(", ")")
        br = b.find("{", e)
        blk = b[br:_matching(b, br) + 1]
        ty = re.findall(r"MPI_Datatype\s+type\s*=\s*createForward\s*\?\s*process\s*->\s*second\s*\.\s*(first|second)\s*:\s*"
                        r"process\s*->\s*second\s*\.\s*(first|second)\s*;", blk)
        ad = re.findall(r"getAddress\s*\(\s*(\w+)\s*,\s*0\s*\)", blk)
        call = re.findall(r"\b(MPI_Recv_init|MPI_Ssend_init)\s*\(\s*address\s*,\s*1\s*,\s*type\s*,\s*process\s*->\s*first\s*,", blk)
        if len(ty) != 1 or len(ad) != 1 or len(call) != 1 or ad[0] not in par or call[0] in parts:
            raise TranslateError("createRequests: loop not recognised")
        parts[call[0]] = (ty[0], par[ad[0]])
    if sorted(parts) != ["MPI_Recv_init", "MPI_Ssend_init"]:
        raise TranslateError("createRequests: expected one MPI_Recv_init and one MPI_Ssend_init loop")
    d["dtReqRecvType"], d["dtReqSendType"] = parts["MPI_Recv_init"][0], parts["MPI_Ssend_init"][0]
    d["dtRecvAddr"] = (parts["MPI_Recv_init"][1],) * 2
    d["dtSendAddr"] = (parts["MPI_Ssend_init"][1],) * 2
    # forward / backward
    use = {}
    for name in ("forward", "backward"):
        m, b = body_of(name, r"\s*")
        u = re.findall(r"sendRecv\s*\(\s*requests_\s*\[\s*([01])\s*\]\s*\)\s*;", b)
        if len(u) != 1:
            raise TranslateError("DatatypeCommunicator::%s not recognised" % name)
        use[name] = ("first", "second")[int(u[0])]
    d["dtUseSlot"] = (use["forward"], use["backward"])
    return d


_ATOK = re.compile(r"\s*(==|!=|<=|>=|&&|\|\||[!<>()+*]|[A-Za-z_]\w*|\d+)")


class _A:
    """arithmetic/boolean expressions over natural numbers -> Lean (`Nat` / `Bool`)"""

    def __init__(self, text, names):
        self.t, self.i, self.names = [], 0, names
        text = text.strip()
        j = 0
        while j < len(text):
            m = _ATOK.match(text, j)
            if not m:
                raise TranslateError("expression outside the translator's grammar: %r" % text)
            self.t.append(m.group(1))
            j = m.end()
            while j < len(text) and text[j].isspace():
                j += 1

    def peek(self):
        return self.t[self.i] if self.i < len(self.t) else None

    def eat(self, x=None):
        tok = self.peek()
        if tok is None or (x is not None and tok != x):
            raise TranslateError("unexpected token %r (wanted %r)" % (tok, x))
        self.i += 1
        return tok

    @staticmethod
    def truth(e):
        return e[0] if e[1] == "bool" else "(%s != 0)" % e[0]

    def top(self, want):
        e = self.disj()
        if self.peek() is not None:
            raise TranslateError("trailing tokens in expression")
        if want == "bool":
            return self.truth(e)
        if e[1] != "nat":
            raise TranslateError("truth value used as a number")
        return e[0]

    def disj(self):
        a = self.conj()
        while self.peek() == "||":
            self.eat()
            a = ("(%s || %s)" % (self.truth(a), self.truth(self.conj())), "bool")
        return a

    def conj(self):
        a = self.neg()
        while self.peek() == "&&":
            self.eat()
            a = ("(%s && %s)" % (self.truth(a), self.truth(self.neg())), "bool")
        return a

    def neg(self):
        if self.peek() == "!":
            self.eat()
            return ("(!%s)" % self.truth(self.neg()), "bool")
        return self.cmp()

    def cmp(self):
        a = self.sum()
        op = self.peek()
        if op in ("==", "!=", "<=", ">=", "<", ">"):
            self.eat()
            b = self.sum()
            if a[1] != "nat" or b[1] != "nat":
                raise TranslateError("comparison of truth values")
            lean = {"==": "%s == %s", "!=": "%s != %s", "<=": "decide (%s ≤ %s)", ">=": "decide (%s ≥ %s)",
                    "<": "decide (%s < %s)", ">": "decide (%s > %s)"}[op]
            return ("(" + lean % (a[0], b[0]) + ")", "bool")
        return a

    def sum(self):
        a = self.prod()
        while self.peek() == "+":
            self.eat()
            b = self.prod()
            if a[1] != "nat" or b[1] != "nat":
                raise TranslateError("sum of truth values")
            a = ("(%s + %s)" % (a[0], b[0]), "nat")
        return a

    def prod(self):
        a = self.atom()
        while self.peek() == "*":
            self.eat()
            b = self.atom()
            if a[1] != "nat" or b[1] != "nat":
                raise TranslateError("product of truth values")
            a = ("(%s * %s)" % (a[0], b[0]), "nat")
        return a

    def atom(self):
        tok = self.eat()
        if tok == "(":
            e = self.disj()
            self.eat(")")
            return e
        if tok.isdigit():
            return (tok, "nat")
        if tok in self.names:
            return (self.names[tok], "nat")
        raise TranslateError("unexpected token %r in expression" % tok)


def _split_args(text):
    args, depth, cur = [], 0, ""
    for ch in text:
        if ch in "(<[":
            depth += 1
        elif ch in ")>]":
            depth -= 1
        if ch == "," and depth == 0:
            args.append(cur)
            cur = ""
        else:
            cur += ch
    args.append(cur)
    return args


def parse_layout(src):
    """the loop body of the two `BufferedCommunicator::build` overloads"""
    src = _strip_comments(src)
    res = {}
    for m, body in _defs(src, "build"):
        names = _param_names(m.group(1))
        if len(names) == 1:
            key, conts = "A", {}
        elif len(names) == 3:
            key, conts = "B", {names[0]: "first", names[1]: "second"}
        else:
            raise TranslateError("build: overload with %d parameters" % len(names))
        if key in res:
            raise TranslateError("build: two overloads with %d parameters" % len(names))
        body = re.sub(r"sizeof\s*\(\s*typename\s+CommPolicy\s*<\s*Data\s*>\s*::\s*IndexedType\s*\)", " SZ ", body)
        body = re.sub(r"bufferSize_\s*\[\s*0\s*\]", " BS0 ", body)
        body = re.sub(r"bufferSize_\s*\[\s*1\s*\]", " BS1 ", body)
        loop = re.search(r"for\s*\(\s*const_iterator\s+interfacePair\s*=\s*interfaces_\s*\.\s*begin\s*\(\s*\)\s*;\s*interfacePair\s*!=\s*end\s*;"
                         r"\s*\+\+\s*interfacePair\s*\)\s*\{", body)
        if not loop or not re.search(r"\bend\s*=\s*interfaces_\s*\.\s*end\s*\(\s*\)\s*;", body[:loop.start()]):
            raise TranslateError("build: loop over interfaces_ not recognised")
        pre, lb = body[:loop.start()], body[loop.end() - 1:_matching(body, loop.end() - 1) + 1]
        if not (re.search(r"\bBS0\s*=\s*0\s*;", pre) and re.search(r"\bBS1\s*=\s*0\s*;", pre)):
            raise TranslateError("build: bufferSize_ not initialised with 0 before the loop")
        if not re.search(r"\bfree\s*\(\s*\)\s*;.*interfaces_\s*=\s*interface\s*\.\s*interfaces\s*\(\s*\)\s*;", pre, flags=re.S):
            raise TranslateError("build: free(); interfaces_ = interface.interfaces(); not recognised")
        # the two sizes
        calc = list(re.finditer(r"\bint\s+(\w+)\s*=\s*MessageSizeCalculator\s*<\s*Data\s*,\s*Flag\s*>\s*\(\s*\)\s*\(\s*(?:(\w+)\s*,\s*)?"
                                r"interfacePair\s*->\s*second\s*\.\s*(first|second)\s*\)\s*;", lb))
        if len(calc) != 2 or len(re.findall(r"interfacePair\s*->\s*second", lb)) != 2:
            raise TranslateError("build: the two MessageSizeCalculator calls not recognised")
        names_map = {"BS0": "s0", "BS1": "s1", "SZ": "sz"}
        one = {}
        for c in calc:
            var, cont, sd = c.groups()
            if var in names_map:
                raise TranslateError("build: size variable %r" % var)
            names_map[var] = "nF" if sd == "first" else "nS"
            if key == "B":
                if cont not in conts:
                    raise TranslateError("build: message size computed with %r" % cont)
                one[sd + "Cont"] = conts[cont]
            elif cont is not None:
                raise TranslateError("build: unexpected container argument")
        if key == "A":
            one["firstCont"], one["secondCont"] = "first", "second"
        if "firstCont" not in one or "secondCont" not in one:
            # both sizes from the same member: representable, the theorem decides
            one.setdefault("firstCont", "first")
            one.setdefault("secondCont", "second")
        ins = list(re.finditer(r"messageInformation_\s*\.\s*insert\s*\(", lb))
        if len(ins) != 1 or ins[0].start() < calc[1].end():
            raise TranslateError("build: messageInformation_.insert not recognised")
        ifs = [i for i in re.finditer(r"\bif\s*\(", lb) if i.start() < ins[0].start()]
        if len(ifs) != 1:
            raise TranslateError("build: expected one condition before messageInformation_.insert")
        ce = _matching(lb, ifs[0].end() - 1, "(", ")")
        if lb[ce + 1:ins[0].start()].strip() not in ("", "{"):
            raise TranslateError("build: statements between the condition and messageInformation_.insert")
        one["cond"] = _A(lb[ifs[0].end():ce], names_map).top("bool")
        ie = _matching(lb, ins[0].end() - 1, "(", ")")
        call = lb[ins[0].end():ie]
        mk = re.match(r"\s*std\s*::\s*make_pair\s*\(\s*interfacePair\s*->\s*first\s*,\s*std\s*::\s*make_pair\s*\(\s*MessageInformation\s*\(", call)
        mis = list(re.finditer(r"MessageInformation\s*\(", call))
        if not mk or len(mis) != 2:
            raise TranslateError("build: inserted value not recognised")
        for mi, tag in zip(mis, ("first", "second")):
            e = _matching(call, mi.end() - 1, "(", ")")
            args = _split_args(call[mi.end():e])
            if len(args) != 2:
                raise TranslateError("build: MessageInformation with %d arguments" % len(args))
            one[tag + "Start"] = _A(args[0], names_map).top("nat")
            one[tag + "Size"] = _A(args[1], names_map).top("nat")
        between = call[_matching(call, mis[0].end() - 1, "(", ")") + 1:mis[1].start()]
        if between.strip() != "," or call[_matching(call, mis[1].end() - 1, "(", ")") + 1:].strip() != "))":
            raise TranslateError("build: inserted value not recognised")
        # the increments, after the insertion
        tail = lb[ie:]
        for k in ("0", "1"):
            inc = re.findall(r"\bBS" + k + r"\s*\+=\s*([^;]+);", lb)
            if len(inc) != 1 or len(re.findall(r"\bBS" + k + r"\s*\+=\s*([^;]+);", tail)) != 1 or \
               len(re.findall(r"\bBS" + k + r"\s*(?:[-+*/]?=[^=]|\+\+|--)", lb)) != 1:
                raise TranslateError("build: increment of bufferSize_[%s] not recognised" % k)
            one["inc" + k] = _A(inc[0], names_map).top("nat")
        post = body[_matching(body, loop.end() - 1) + 1:]
        for k in ("0", "1"):
            if not re.search(r"\bBS" + k + r"\s*\*=\s*SZ\s*;", post) or \
               not re.search(r"buffers_\s*\[\s*" + k + r"\s*\]\s*=\s*new\s+char\s*\[\s*BS" + k + r"\s*\]\s*;", post):
                raise TranslateError("build: allocation of buffers_[%s] not recognised" % k)
        res[key] = one
    if sorted(res) != ["A", "B"]:
        raise TranslateError("build: overloads found: %r" % sorted(res))
    return res


def parse_strip(src):
    src = _strip_comments(src)
    m = re.search(r"void\s+Interface\s*::\s*strip\s*\(\s*\)\s*\{", src)
    if not m:
        raise TranslateError("definition of Interface::strip not found")
    body = src[m.end() - 1:_matching(src, m.end() - 1) + 1]
    body = re.sub(r"interfacePair\s*->\s*second\s*\.\s*first\s*\.\s*size\s*\(\s*\)", " N1 ", body)
    body = re.sub(r"interfacePair\s*->\s*second\s*\.\s*second\s*\.\s*size\s*\(\s*\)", " N2 ", body)
    ifs = list(re.finditer(r"\bif\s*\(", body))
    if len(ifs) != 1:
        raise TranslateError("strip: expected one condition")
    ce = _matching(body, ifs[0].end() - 1, "(", ")")
    cond = _A(body[ifs[0].end():ce], {"N1": "n1", "N2": "n2"}).top("bool")
    rest = body[ce + 1:]
    m2 = re.match(r"\s*\{", rest)
    if not m2:
        raise TranslateError("strip: erase branch not recognised")
    e = _matching(rest, m2.end() - 1)
    then, other = rest[:e + 1], rest[e + 1:]
    if not re.search(r"interfaces_\s*\.\s*erase\s*\(", then) or re.search(r"erase\s*\(", other) or \
       not re.match(r"\s*else\s*\{?\s*\+\+\s*interfacePair\s*;", other):
        raise TranslateError("strip: erase / advance structure not recognised")
    return cond


# ---------------------------------------------------------------------------------------------------------------
# round four: the loop heads of MessageSizeCalculator<VariableSize>, the gatherers and the scatterers
LOOP_NAMES = ["sizeVarI", "gatherOneI", "gatherVarI", "gatherVarJ", "scatterOneI", "scatterVarI", "scatterVarJ"]
DEFAULT_LOOPS = {k: (0, "(decide (i < n))") for k in LOOP_NAMES}
# buffer position: (where the counter `index` is initialised: 0 = once per call of the functor, increments per element)
DEFAULT_COUNTERS = dict(gatherOne=(0, 1), gatherVar=(0, 1), scatterVar=(0, 1))
_GETSIZE = r"CommPolicy\s*<\s*Data\s*>\s*::\s*getSize\s*\(\s*data\s*,\s*%s\s*\)"


def _for_heads(body):
    """[(var, start, other initialisations, condition, increments, position of the head, end of the head)] of every for loop"""
    out = []
    for m in re.finditer(r"\bfor\s*\(", body):
        e = _matching(body, m.end() - 1, "(", ")")
        parts = body[m.end():e].split(";")
        if len(parts) != 3:
            raise TranslateError("loop head %r" % body[m.end():e])
        out.append((parts[0].strip(), parts[1].strip(), parts[2].strip(), m.start(), e))
    return out


def _counting_head(head, bound_re, what):
    """a loop `for(T v = START[, index=0]; COND(v, bound); v++[, index++])`; result (v, START, Lean condition, index initialised here?,
    index incremented in the head?)"""
    init, cond, inc = head[0], head[1], head[2]
    inits = [x.strip() for x in init.split(",")]
    m = re.fullmatch(r"(?:(?:std\s*::\s*)?size_t|int|unsigned|long|std\s*::\s*size_t)\s+(\w+)\s*=\s*(\d+)", inits[0])
    if not m:
        raise TranslateError("%s: loop initialisation %r" % (what, init))
    v, start = m.group(1), int(m.group(2))
    idx_init = False
    for x in inits[1:]:
        if re.fullmatch(r"index\s*=\s*0", x):
            idx_init = True
        else:
            raise TranslateError("%s: loop initialisation %r" % (what, init))
    incs = [x.strip() for x in inc.split(",")]
    idx_inc = 0
    seen_v = 0
    for x in incs:
        if re.fullmatch(r"(?:\+\+\s*%s|%s\s*\+\+|%s\s*\+=\s*1)" % (v, v, v), x):
            seen_v += 1
        elif re.fullmatch(r"(?:\+\+\s*index|index\s*\+\+|index\s*\+=\s*1)", x):
            idx_inc += 1
        else:
            raise TranslateError("%s: loop increment %r" % (what, inc))
    if seen_v != 1:
        raise TranslateError("%s: loop variable incremented %d times" % (what, seen_v))
    c = re.sub(bound_re, " BOUND ", cond)
    lean = _A(c, {v: "i", "BOUND": "n"}).top("bool")
    return v, start, lean, idx_init, idx_inc


def parse_loops(src):
    src = _strip_comments(src)
    src = re.sub(r"#ifdef\s+DUNE_ISTL_WITH_CHECKING.*?#endif", " ", src, flags=re.S)
    loops, counters = {}, {}
    # MessageSizeCalculator<Data, VariableSize>
    ms = list(re.finditer(r"BufferedCommunicator\s*::\s*MessageSizeCalculator\s*<\s*Data\s*,\s*VariableSize\s*>\s*::\s*operator\s*\(\s*\)\s*"
                          r"\(([^)]*)\)\s*const\s*\{", src))
    if len(ms) != 1:
        raise TranslateError("MessageSizeCalculator<Data,VariableSize>::operator() not found")
    body = src[ms[0].end() - 1:_matching(src, ms[0].end() - 1) + 1]
    heads = _for_heads(body)
    if len(heads) != 1 or not re.search(r"\bint\s+entries\s*=\s*0\s*;", body[:heads[0][3]]) or \
       not re.match(r"\s*\{?\s*entries\s*\+=\s*" + _GETSIZE % r"info\s*\[\s*(\w+)\s*\]" + r"\s*;\s*\}?\s*return\s+entries\s*;\s*\}\s*$", body[heads[0][4] + 1:]):
        raise TranslateError("MessageSizeCalculator<Data,VariableSize>: body not recognised")
    v, st, lean, ii, ic = _counting_head(heads[0], r"info\s*\.\s*size\s*\(\s*\)", "MessageSizeCalculator")
    used = re.search(r"info\s*\[\s*(\w+)\s*\]", body[heads[0][4]:]).group(1)
    if used != v or ii or ic:
        raise TranslateError("MessageSizeCalculator<Data,VariableSize>: summand not indexed by the loop variable")
    loops["sizeVarI"] = (st, lean)
    for cls, flavour, tag in (("MessageGatherer", "SizeOne", "gatherOne"), ("MessageGatherer", "VariableSize", "gatherVar"),
                              ("MessageScatterer", "SizeOne", "scatterOne"), ("MessageScatterer", "VariableSize", "scatterVar")):
        ms = list(re.finditer(r"BufferedCommunicator\s*::\s*" + cls + r"\s*<\s*Data\s*,\s*GatherScatter\s*,\s*(\w+)\s*,\s*" + flavour +
                              r"\s*>\s*::\s*operator\s*\(\s*\)\s*\(([^)]*)\)\s*const\s*\{", src))
        if len(ms) != 1:
            raise TranslateError("%s<..,%s>::operator() not found" % (cls, flavour))
        body = src[ms[0].end() - 1:_matching(src, ms[0].end() - 1) + 1]
        heads = _for_heads(body)
        gath = cls == "MessageGatherer"
        if gath:
            # outer loop over the neighbours, `index` initialised once before it
            if not heads or not re.fullmatch(r"const_iterator\s+interfacePair\s*=\s*interfaces\s*\.\s*begin\s*\(\s*\)", heads[0][0]) or \
               not re.fullmatch(r"interfacePair\s*!=\s*end", heads[0][1]) or not re.fullmatch(r"\+\+\s*interfacePair", heads[0][2]) or \
               not re.search(r"\bend\s*=\s*interfaces\s*\.\s*end\s*\(\s*\)\s*;", body[:heads[0][3]]):
                raise TranslateError("%s: loop over the neighbours not recognised" % tag)
            n_init = len(re.findall(r"\bsize_t\s+index\s*=\s*0\s*;", body[:heads[0][3]]))
            if n_init != 1 or len(re.findall(r"\bindex\s*=[^=]", body)) != 1:
                raise TranslateError("%s: initialisation of the buffer position not recognised" % tag)
            heads = heads[1:]
            sz = re.findall(r"\b(?:size_t|int)\s+size\s*=", body)
            if len(sz) != 1:
                raise TranslateError("%s: `size` not recognised" % tag)
            ibound = r"\bsize\b"
        else:
            ibound = r"info\s*\.\s*size\s*\(\s*\)"
        want = 2 if flavour == "VariableSize" else 1
        if len(heads) != want:
            raise TranslateError("%s: %d loops, expected %d" % (tag, len(heads), want))
        iv, ist, ilean, iinit, iinc = _counting_head(heads[0], ibound, tag)
        loops[tag + "I"] = (ist, ilean)
        inner = body[heads[-1][4] + 1:]
        # the innermost loop body: one gather/scatter statement, possibly followed by stand-alone increments of `index`
        mb = re.match(r"\s*\{", inner)
        block = inner[mb.end():_matching(inner, mb.end() - 1)] if mb else inner[:inner.index(";") + 1]
        stmts = [x.strip() for x in block.split(";") if x.strip()]
        extra_inc = sum(1 for x in stmts[1:] if re.fullmatch(r"\+\+\s*index|index\s*\+\+|index\s*\+=\s*1", x))
        if not stmts or extra_inc != len(stmts) - 1:
            raise TranslateError("%s: statements in the innermost loop not recognised" % tag)
        if flavour == "VariableSize":
            if gath:
                loc = re.findall(r"\bint\s+local\s*=", body)
                if len(loc) != 1 or not re.search(r"\[\s*" + iv + r"\s*\]", body[heads[0][4]:heads[1][3]]):
                    raise TranslateError("%s: `local` not recognised" % tag)
                jb = _GETSIZE % "local"
            else:
                jb = _GETSIZE % (r"info\s*\[\s*" + iv + r"\s*\]")
            jv, jst, jlean, jinit, jinc = _counting_head(heads[1], jb, tag)
            loops[tag + "J"] = (jst, jlean)
        else:
            jv, jinit, jinc = None, False, 0
        # the statement of the innermost loop
        if gath and flavour == "SizeOne":
            st = re.match(r"\s*\{?\s*buffer\s*\[\s*index\s*\+\+\s*\]\s*=\s*GatherScatter\s*::\s*gather\s*\(\s*data\s*,[^;]*\[\s*(\w+)\s*\][^;]*\[\s*(\w+)\s*\]\s*\)\s*;", inner)
            if not st or st.group(1) != iv or st.group(2) != iv:
                raise TranslateError("%s: gather statement not recognised" % tag)
            counters[tag] = (0, 1 + iinc + extra_inc)
        elif gath:
            st = re.match(r"\s*\{?\s*buffer\s*\[\s*index\s*(\+\+)?\s*\]\s*=\s*GatherScatter\s*::\s*gather\s*\(\s*data\s*,\s*local\s*,\s*(\w+)\s*\)\s*;", inner)
            if not st or st.group(2) != jv:
                raise TranslateError("%s: gather statement not recognised" % tag)
            if iinc:
                raise TranslateError("%s: buffer position advanced per index" % tag)
            counters[tag] = (0, (1 if st.group(1) else 0) + jinc + extra_inc)
        elif flavour == "SizeOne":
            st = re.match(r"\s*\{?\s*GatherScatter\s*::\s*scatter\s*\(\s*data\s*,\s*buffer\s*\[\s*(\w+)\s*\]\s*,\s*info\s*\[\s*(\w+)\s*\]\s*\)\s*;", inner)
            if not st or st.group(1) != iv or st.group(2) != iv or iinit or iinc or extra_inc:
                raise TranslateError("%s: scatter statement not recognised" % tag)
        else:
            st = re.match(r"\s*\{?\s*GatherScatter\s*::\s*scatter\s*\(\s*data\s*,\s*buffer\s*\[\s*index\s*(\+\+)?\s*\]\s*,\s*info\s*\[\s*(\w+)\s*\]\s*,\s*(\w+)\s*\)\s*;", inner)
            if not st or st.group(2) != iv or st.group(3) != jv or iinc or jinit:
                raise TranslateError("%s: scatter statement not recognised" % tag)
            if not iinit or len(re.findall(r"\bindex\s*=[^=]", body)) != 1:
                raise TranslateError("%s: initialisation of the buffer position not recognised" % tag)
            counters[tag] = (0, (1 if st.group(1) else 0) + jinc + extra_inc)
    return loops, counters


# ---------------------------------------------------------------------------------------------------------------
# enumset.hh
_TOK = re.compile(r"\s*(::|==|!=|<=|>=|&&|\|\||[!<>()]|[A-Za-z_]\w*|\d+)")


def _tokens(e):
    out, i = [], 0
    e = e.strip()
    while i < len(e):
        m = _TOK.match(e, i)
        if not m:
            raise TranslateError("expression outside the translator's grammar: %r" % e)
        out.append(m.group(1))
        i = m.end()
        while i < len(e) and e[i].isspace():
            i += 1
    return out


class _P:
    """recursive descent for the grammar in the module docstring; result: Lean source of a Bool"""

    def __init__(self, toks, item, ints, sets):
        self.t, self.i, self.item, self.ints, self.sets = toks, 0, item, ints, sets

    def peek(self):
        return self.t[self.i] if self.i < len(self.t) else None

    def eat(self, x=None):
        tok = self.peek()
        if tok is None or (x is not None and tok != x):
            raise TranslateError("unexpected token %r (wanted %r)" % (tok, x))
        self.i += 1
        return tok

    def expr(self):
        a = self.conj()
        while self.peek() == "||":
            self.eat()
            a = "(%s || %s)" % (a, self.conj())
        return a

    def conj(self):
        a = self.neg()
        while self.peek() == "&&":
            self.eat()
            a = "(%s && %s)" % (a, self.neg())
        return a

    def neg(self):
        if self.peek() == "!":
            self.eat()
            return "(!%s)" % self.neg()
        return self.cmp()

    def cmp(self):
        a, ka = self.atom()
        op = self.peek()
        if op in ("==", "!=", "<=", ">=", "<", ">"):
            self.eat()
            b, kb = self.atom()
            if ka != "int" or kb != "int":
                raise TranslateError("comparison of non-integers")
            lean = {"==": "%s == %s", "!=": "%s != %s", "<=": "decide (%s ≤ %s)", ">=": "decide (%s ≥ %s)",
                    "<": "decide (%s < %s)", ">": "decide (%s > %s)"}[op]
            return "(" + lean % (a, b) + ")"
        if ka != "bool":
            raise TranslateError("integer used as truth value")
        return a

    def atom(self):
        tok = self.eat()
        if tok == "(":
            e = self.expr()
            self.eat(")")
            return e, "bool"
        if tok in ("true", "false"):
            return tok, "bool"
        if tok.isdigit():
            return "(%s : Int)" % tok, "int"
        if re.fullmatch(r"[A-Za-z_]\w*", tok):
            if self.peek() == "::":
                self.eat("::")
                self.eat("contains")
                self.eat("(")
                arg = self.eat()
                self.eat(")")
                if tok not in self.sets or arg != self.item:
                    raise TranslateError("call %s::contains(%s) outside the grammar" % (tok, arg))
                return "(%s item)" % self.sets[tok], "bool"
            if tok == self.item:
                return "item", "int"
            if tok in self.ints:
                return self.ints[tok], "int"
        raise TranslateError("unexpected identifier %r" % tok)


# class -> (Lean name, Lean parameters before `item`, built-in transcription)
ENUM_CLASSES = [
    ("EmptySet", "emptySetContains", "", "false"),
    ("AllSet", "allSetContains", "", "true"),
    ("EnumItem", "enumItemContains", "(i : Int) ", "(item == i)"),
    ("EnumRange", "enumRangeContains", "(lo hi : Int) ", "((decide (lo ≤ item)) && (decide (item ≤ hi)))"),
    ("NegateSet", "negateSetContains", "(s : Int → Bool) ", "(!(s item))"),
    ("Combine", "combineContains", "(s1 s2 : Int → Bool) ", "((s1 item) || (s2 item))"),
]


def _template_params(src, cls):
    """names of the template parameters of the class template `cls`, by kind"""
    m = re.search(r"template\s*<([^{};]*?)>\s*class\s+" + cls + r"\b\s*\{", src, flags=re.S)
    if not m:
        raise TranslateError("class template %s not found" % cls)
    ints, types = [], []
    for p in m.group(1).split(","):
        p = p.split("=")[0].strip()
        w = p.split()
        if len(w) != 2:
            raise TranslateError("%s: template parameter %r" % (cls, p))
        (ints if w[0] == "int" else types).append(w[1])
    return ints, types


def _contains_body(src, cls):
    """(parameter name, return expression) of cls::contains, defined out of class or in class; template parameter names
    as they are spelled at the definition"""
    m = re.search(r"template\s*<([^{};]*?)>\s*inline\s+bool\s+" + cls + r"\s*<[^>{};]*>\s*::\s*contains\s*\(([^)]*)\)\s*\{\s*return\s+([^;{}]*);\s*\}",
                  src, flags=re.S)
    if m:
        ints, types = [], []
        for p in m.group(1).split(","):
            w = p.split("=")[0].split()
            (ints if w[0] == "int" else types).append(w[-1])
        return m.group(2), m.group(3), ints, types
    c = re.search(r"class\s+" + cls + r"\b\s*\{", src)
    if not c:
        raise TranslateError("class %s not found" % cls)
    body = src[c.end() - 1:_matching(src, c.end() - 1) + 1]
    m = re.search(r"static\s+bool\s+contains\s*\(([^)]*)\)\s*\{\s*return\s+([^;{}]*);\s*\}", body, flags=re.S)
    if not m:
        raise TranslateError("%s::contains is not a single return statement" % cls)
    ints, types = _template_params(src, cls)
    return m.group(1), m.group(2), ints, types


def parse_enumset(src, cls):
    src = _strip_comments(src)
    params, expr, ints, types = _contains_body(src, cls)
    pw = re.sub(r"\[\[[^\]]*\]\]", " ", params).replace("&", " ").split()
    if not pw:
        raise TranslateError("%s::contains: parameter list %r" % (cls, params))
    item = pw[-1]
    want_ints = {"EnumItem": ["i"], "EnumRange": ["lo", "hi"]}.get(cls, [])
    want_sets = {"NegateSet": ["s"], "Combine": ["s1", "s2"]}.get(cls, [])
    if len(ints) != len(want_ints):
        raise TranslateError("%s: %d integral template parameters" % (cls, len(ints)))
    set_params = [t for t in types]
    if cls in ("NegateSet", "Combine"):
        set_params = types[:len(want_sets)]
        if len(set_params) != len(want_sets):
            raise TranslateError("%s: set template parameters %r" % (cls, types))
    else:
        set_params = []
    p = _P(_tokens(expr), item, dict(zip(ints, want_ints)), dict(zip(set_params, want_sets)))
    lean = p.expr()
    if p.peek() is not None:
        raise TranslateError("%s::contains: trailing tokens" % cls)
    return lean


# ---------------------------------------------------------------------------------------------------------------
def analyse(repo):
    status = {}
    try:
        with open(os.path.join(repo, "dune/common/parallel/interface.hh")) as f:
            tests = parse_build_interface(f.read())
        status["buildInterface"] = None
    except (TranslateError, OSError) as ex:
        tests = DEFAULT_TESTS
        status["buildInterface"] = str(ex)
    try:
        with open(os.path.join(repo, "dune/common/parallel/communicator.hh")) as f:
            bounds = parse_send_recv(f.read())
        status["sendRecv"] = None
    except (TranslateError, OSError) as ex:
        bounds = dict(DEFAULT_BOUNDS)
        status["sendRecv"] = str(ex)
    try:
        with open(os.path.join(repo, "dune/common/parallel/communicator.hh")) as f:
            dirs, wrappers = parse_directions(f.read())
        status["directions"] = None
    except (TranslateError, OSError) as ex:
        dirs, wrappers = dict(DEFAULT_DIRS), dict(DEFAULT_WRAPPERS)
        status["directions"] = str(ex)
    try:
        with open(os.path.join(repo, "dune/common/parallel/communicator.hh")) as f:
            lay = parse_layout(f.read())
        status["buildLayout"] = None
    except (TranslateError, OSError) as ex:
        lay = {k: dict(v) for k, v in DEFAULT_LAYOUT.items()}
        status["buildLayout"] = str(ex)
    try:
        with open(os.path.join(repo, "dune/common/parallel/interface.hh")) as f:
            stripc = parse_strip(f.read())
        status["strip"] = None
    except (TranslateError, OSError) as ex:
        stripc = DEFAULT_STRIP
        status["strip"] = str(ex)
    try:
        with open(os.path.join(repo, "dune/common/parallel/communicator.hh")) as f:
            dt = parse_datatype(f.read())
        status["datatype"] = None
    except (TranslateError, OSError) as ex:
        dt = dict(DEFAULT_DT)
        status["datatype"] = str(ex)
    try:
        with open(os.path.join(repo, "dune/common/parallel/communicator.hh")) as f:
            loops, counters = parse_loops(f.read())
        status["loops"] = None
    except (TranslateError, OSError) as ex:
        loops, counters = dict(DEFAULT_LOOPS), dict(DEFAULT_COUNTERS)
        status["loops"] = str(ex)
    bodies = {}
    try:
        with open(os.path.join(repo, "dune/common/enumset.hh")) as f:
            enum_src = f.read()
    except OSError as ex:
        enum_src = None
    for cls, name, _, default in ENUM_CLASSES:
        try:
            if enum_src is None:
                raise TranslateError("enumset.hh not readable")
            bodies[cls] = parse_enumset(enum_src, cls)
            status["enumset:" + cls] = None
        except TranslateError as ex:
            bodies[cls] = default
            status["enumset:" + cls] = str(ex)
    return dict(tests=tests, bodies=bodies, bounds=bounds, dirs=dirs, wrappers=wrappers, layout=lay, strip=stripc, dt=dt, loops=loops, counters=counters, status=status)


def status(repo):
    return analyse(repo)["status"]


def render(a):
    t = a["tests"]
    fs = {"source": ".source", "dest": ".dest"}
    at = {"remote": ".remote", "loc": ".loc"}
    tl = lambda x: "⟨%s, %s, %s, %s⟩" % (fs[x[0]], at[x[1]], fs[x[2]], at[x[3]])
    out = []
    out.append("/- GENERATED by tools/translators/tr_c05.py from dune/common/parallel/interface.hh, communicator.hh and dune/common/enumset.hh")
    out.append("   of the tree under test — do not edit; `python3 tools/regen.py C05` rewrites it from /repo. -/")
    out.append("set_option linter.unusedVariables false")
    out.append("namespace DV.C05.Gen")
    out.append("")
    out.append("/-- which of the two attribute-set parameters of `buildInterface` a test consults -/")
    out.append("inductive FlagSet where")
    out.append("  | source")
    out.append("  | dest")
    out.append("  deriving DecidableEq, Repr")
    out.append("")
    out.append("/-- whose attribute it looks at: `remote->attribute()` (the copy on the other process) or")
    out.append("    `remote->localIndexPair().local().attribute()` (the own index) -/")
    out.append("inductive Attr where")
    out.append("  | remote")
    out.append("  | loc")
    out.append("  deriving DecidableEq, Repr")
    out.append("")
    out.append("/-- `send ? sendSet.contains(sendAttr) : recvSet.contains(recvAttr)` -/")
    out.append("structure Test where")
    out.append("  sendSet : FlagSet")
    out.append("  sendAttr : Attr")
    out.append("  recvSet : FlagSet")
    out.append("  recvAttr : Attr")
    out.append("  deriving DecidableEq, Repr")
    out.append("")
    out.append("/-- first loop of `buildInterface` (`++size`): outer and inner test -/")
    out.append("def countOuter : Test := " + tl(t[0]))
    out.append("def countInner : Test := " + tl(t[1]))
    out.append("/-- second loop (`interfaceInformation.add(process->first, remote->localIndexPair().local().local())`) -/")
    out.append("def addOuter : Test := " + tl(t[2]))
    out.append("def addInner : Test := " + tl(t[3]))
    out.append("")
    out.append("/-! `contains` of the attribute set classes of enumset.hh (attributes as integers) -/")
    for cls, name, params, _ in ENUM_CLASSES:
        out.append("/-- `%s<…>::contains(item)` -/" % cls)
        out.append("def %s %s(item : Int) : Bool := %s" % (name, params, a["bodies"][cls]))
    out.append("")
    b = a["bounds"]
    out.append("/-! the completion loops at the end of `BufferedCommunicator::sendRecv` (communicator.hh) -/")
    out.append("/-- a loop bound / request count: `messageInformation_.size()` (all neighbours) or the counter incremented next to")
    out.append("    every `MPI_Irecv` (the receives really posted) -/")
    out.append("inductive Bound where")
    out.append("  | neighbours")
    out.append("  | realRecvs")
    out.append("  deriving DecidableEq, Repr")
    out.append("")
    out.append("/-- number of `MPI_Waitany` calls -/")
    out.append("def recvLoopBound : Bound := .%s" % b["recvLoop"])
    out.append("/-- `count` argument of `MPI_Waitany(count, recvRequests, ..)` -/")
    out.append("def recvWaitCount : Bound := .%s" % b["recvCount"])
    out.append("/-- number of entries of `sendRequests` (indexed like `messageInformation_`) that are waited for before `sendRecv` returns -/")
    out.append("def sendWaitBound : Bound := .%s" % b["sendWait"])
    out.append("")
    out.append("/-! round four: the direction selectors of communicator.hh -/")
    out.append("/-- a member of a `std::pair` (of `InterfaceInformation`s, of `MessageInformation`s) resp. `buffers_[0]` / `buffers_[1]` -/")
    out.append("inductive Side where")
    out.append("  | first")
    out.append("  | second")
    out.append("  deriving DecidableEq, Repr")
    out.append("")
    out.append("/-- `FORWARD ? fwd : bwd` -/")
    out.append("structure DirSel where")
    out.append("  fwd : Side")
    out.append("  bwd : Side")
    out.append("  deriving DecidableEq, Repr")
    out.append("")
    out.append("def DirSel.side (d : DirSel) (forward : Bool) : Side := if forward then d.fwd else d.bwd")
    out.append("")
    doc = dict(sendBuffer="`sendRecv`: the buffer gathered into and sent from", recvBuffer="`sendRecv`: the buffer received into and scattered from",
               irecvStart="`MPI_Irecv(recvBuffer + info->second.?.start_, ..)`", irecvSize="`MPI_Irecv(.., info->second.?.size_, ..)`",
               irecvGuard="`if(info->second.?.size_)` around `MPI_Irecv`", issendStart="`MPI_Issend(sendBuffer + info->second.?.start_, ..)`",
               issendSize="`MPI_Issend(.., info->second.?.size_, ..)`", issendGuard="`if(info->second.?.size_)` around `MPI_Issend`",
               waitanyInfo="the `MessageInformation` whose `start_` locates the completed message in the receive buffer",
               gatherOneSize="`MessageGatherer<..,SizeOne>`: loop bound", gatherOneIndex="`MessageGatherer<..,SizeOne>`: index gathered",
               gatherVarSize="`MessageGatherer<..,VariableSize>`: loop bound", gatherVarIndex="`MessageGatherer<..,VariableSize>`: index gathered",
               scatterOneInfo="`MessageScatterer<..,SizeOne>`: index list scattered to", scatterVarInfo="`MessageScatterer<..,VariableSize>`: index list scattered to")
    for k in DEFAULT_DIRS:
        out.append("/-- %s -/" % doc[k])
        out.append("def %s : DirSel := ⟨.%s, .%s⟩" % (k, a["dirs"][k][0], a["dirs"][k][1]))
    out.append("")
    out.append("/-! round four: `DatatypeCommunicator`.  Flags: `send` (createDataTypes), `createForward` (createRequests), direction")
    out.append("    (forward()/backward()).  Containers: `first` = `sendData`, `second` = `receiveData` of `build`; datatype slots: the members of the")
    out.append("    `messageTypes` entry; request sets: `first` = `requests_[0]`, `second` = `requests_[1]`; `dtRecvAddr`/`dtSendAddr`: the parameter of")
    out.append("    `createRequests(sendData, receiveData)` whose address is used -/")
    ddoc = dict(dtTypeSlot="`createDataTypes<..,send>` stores the type built from the lists of `buildInterface<..,send>` into",
                dtTypeData="`build`: the container `createDataTypes<..,send>` computes the displacements on",
                dtReqRecvType="`createRequests<V,createForward>`: datatype of `MPI_Recv_init`", dtReqSendType="datatype of `MPI_Ssend_init`",
                dtReqSlot="`createRequests<V,createForward>` fills", dtReqSendArg="`build`: container passed as `sendData` to `createRequests<V,createForward>`",
                dtReqRecvArg="`build`: container passed as `receiveData`", dtRecvAddr="parameter whose address `MPI_Recv_init` uses",
                dtSendAddr="parameter whose address `MPI_Ssend_init` uses", dtUseSlot="`forward()` / `backward()` start the request set")
    for k in DEFAULT_DT:
        out.append("/-- %s -/" % ddoc[k])
        out.append("def %s : DirSel := ⟨.%s, .%s⟩" % (k, a["dt"][k][0], a["dt"][k][1]))
    out.append("")
    out.append("/-- a `forward`/`backward` member: `sendRecv<GatherScatter,fwd>(arg[gatherArg], arg[scatterArg])` -/")
    out.append("structure Wrapper where")
    out.append("  fwd : Bool")
    out.append("  gatherArg : Nat")
    out.append("  scatterArg : Nat")
    out.append("  deriving DecidableEq, Repr")
    out.append("")
    wdoc = dict(forward1="forward<GS>(Data& data)", backward1="backward<GS>(Data& data)",
                forward2="forward<GS>(const Data& source, Data& dest)", backward2="backward<GS>(Data& source, const Data& dest)")
    for k in DEFAULT_WRAPPERS:
        v = a["wrappers"][k]
        out.append("/-- `%s` -/" % wdoc[k])
        out.append("def %s : Wrapper := ⟨%s, %d, %d⟩" % (k, "true" if v[0] else "false", v[1], v[2]))
    out.append("")
    out.append("/-! round four: the loop body of `BufferedCommunicator::build`; `two = false`: `build<Data>(interface)`, `two = true`:")
    out.append("    `build(source, dest, interface)`.  `nF`/`nS`: the message sizes computed from the `first`/`second` member of the interface entry,")
    out.append("    `s0`/`s1`: `bufferSize_[0]`/`bufferSize_[1]` before this neighbour, `sz`: `sizeof(IndexedType)` -/")
    L = a["layout"]
    ldoc = dict(cond=("layoutCond", "Bool", "condition under which an entry of `messageInformation_` is inserted"),
                firstStart=("layoutFirstStart", "Nat", "`start_` of the first `MessageInformation`"),
                firstSize=("layoutFirstSize", "Nat", "`size_` of the first `MessageInformation`"),
                secondStart=("layoutSecondStart", "Nat", "`start_` of the second `MessageInformation`"),
                secondSize=("layoutSecondSize", "Nat", "`size_` of the second `MessageInformation`"),
                inc0=("layoutInc0", "Nat", "`bufferSize_[0] += …`"), inc1=("layoutInc1", "Nat", "`bufferSize_[1] += …`"))
    for k, (name, ty, d) in ldoc.items():
        out.append("/-- %s -/" % d)
        out.append("def %s (two : Bool) (nF nS s0 s1 sz : Nat) : %s := if two then %s else %s" % (name, ty, L["B"][k], L["A"][k]))
    out.append("/-- the container (`first`: source, `second`: dest) whose `CommPolicy::getSize` sizes the `first` / `second` index list")
    out.append("    (`build<Data>(interface)` has no containers: SizeOne) -/")
    out.append("def layoutFirstCont (two : Bool) : Side := if two then .%s else .%s" % (L["B"]["firstCont"], L["A"]["firstCont"]))
    out.append("def layoutSecondCont (two : Bool) : Side := if two then .%s else .%s" % (L["B"]["secondCont"], L["A"]["secondCont"]))
    out.append("")
    out.append("/-- round four: `Interface::strip` erases the neighbour whose lists have `n1` and `n2` entries iff -/")
    out.append("def stripErase (n1 n2 : Nat) : Bool := %s" % a["strip"])
    out.append("")
    out.append("/-! round four: the counting loops of `MessageSizeCalculator<Data,VariableSize>`, the gatherers and the scatterers: the values the")
    out.append("    loop variable takes for bound `n` (`info.size()` / `size` for the loops over the index list, `CommPolicy<Data>::getSize(data, index)`")
    out.append("    for the loops over the components), as `for(v = start; cond; ++v)` says -/")
    out.append("def forIdx (start : Nat) (cond : Nat → Nat → Bool) (n : Nat) : List Nat :=")
    out.append("  ((List.range (n + 2)).filter fun i => decide (start ≤ i)).takeWhile fun i => cond i n")
    ldoc2 = dict(sizeVarI="MessageSizeCalculator<Data,VariableSize>: loop over the index list", gatherOneI="MessageGatherer<..,SizeOne>: loop over the index list",
                 gatherVarI="MessageGatherer<..,VariableSize>: loop over the index list", gatherVarJ="MessageGatherer<..,VariableSize>: loop over the components",
                 scatterOneI="MessageScatterer<..,SizeOne>: loop over the index list", scatterVarI="MessageScatterer<..,VariableSize>: loop over the index list",
                 scatterVarJ="MessageScatterer<..,VariableSize>: loop over the components")
    for k in LOOP_NAMES:
        out.append("/-- %s -/" % ldoc2[k])
        out.append("def loop_%s (n : Nat) : List Nat := forIdx %d (fun i n => %s) n" % (k, a["loops"][k][0], a["loops"][k][1]))
    out.append("/-- the buffer position `index`: number of places it is reset inside the loops (0: initialised once per call) and how often it is")
    out.append("    incremented per gathered / scattered element (`MessageScatterer<..,SizeOne>` uses the loop variable itself) -/")
    for k in DEFAULT_COUNTERS:
        out.append("def counter_%s : Nat × Nat := (%d, %d)" % (k, a["counters"][k][0], a["counters"][k][1]))
    out.append("")
    out.append("/-- which items were read from the source (`false`: outside the translator's grammar, built-in transcription used) -/")
    out.append("def translated : List (String × Bool) :=")
    out.append("  [" + ", ".join('("%s", %s)' % (k, "true" if v is None else "false") for k, v in a["status"].items()) + "]")
    out.append("")
    out.append("end DV.C05.Gen")
    return "\n".join(out) + "\n"


def translate(repo):
    return [("DuneVerif/Gen/C05.lean", render(analyse(repo)))]


if __name__ == "__main__":
    import sys
    r = sys.argv[1] if len(sys.argv) > 1 else "/repo"
    a = analyse(r)
    for k, v in a["status"].items():
        print(k, "translated" if v is None else "FALLBACK: " + v)
    sys.stdout.write(render(a))
