"""Translator for C05 (Interface / attribute sets).

Re-reads on every run, from the current source tree,
  * the four attribute tests of `InterfaceBuilder::buildInterface` (dune/common/parallel/interface.hh): the outer and the
    inner test of the counting loop and of the adding loop, each of the form
        send ? <set>.contains(<attribute>) : <set>.contains(<attribute>)
    with <set> one of the two flag-set parameters and <attribute> either `remote->attribute()` (the attribute of the
    copy on the other process) or `remote->localIndexPair().local().attribute()` (the own attribute), and what the
    second loop adds (`remote->localIndexPair().local().local()`),
  * the bodies of the six `contains` functions of dune/common/enumset.hh (EmptySet, AllSet, EnumItem, EnumRange,
    NegateSet, Combine), which are single `return <boolean expression>;` statements,
  * (round three) the bounds of the two completion loops at the end of `BufferedCommunicator::sendRecv`
    (dune/common/parallel/communicator.hh): how often `MPI_Waitany` is called and over how many entries of `recvRequests`,
    and how many entries of `sendRequests` are waited for (a `for` loop around `MPI_Wait(sendRequests+i, ..)` /
    `MPI_Wait(&sendRequests[i], ..)`, or one `MPI_Waitall(n, sendRequests, ..)`), each bound being either
    `messageInformation_.size()` (all neighbours) or the counter that is incremented next to every `MPI_Irecv`
    (the receives really posted),
and emits them as Lean definitions into lean/DuneVerif/Gen/C05.lean.  Model/C05.lean evaluates the generated tests in
`countPass` / `addPass` and the driver realises every attribute-set mask through the generated `contains`
functions, so `interface_spec` (through `passesCount_eq`, `passesAdd_eq`) and the theorems `attrsets_spec`,
`attrset_tables` are re-proved about what the source says now.

Grammar of a `contains` body:   EXPR ::= OR ;  OR ::= AND { || AND } ;  AND ::= NOT { && NOT } ;
  NOT ::= ! NOT | CMP ;  CMP ::= ATOM [ (== | != | <= | >= | < | >) ATOM ] ;
  ATOM ::= true | false | integer | identifier | identifier::contains(identifier) | ( EXPR )
where the identifiers are the function's parameter, the class's integral template parameters and (for NegateSet,
Combine) its set template parameters.

Fail-soft policy: a harmless refactoring that leaves this grammar must not raise an alarm, so an item that cannot be
parsed falls back to the built-in transcription (what the hand-written round-one model said) and is recorded in
`Gen.translated` / `status()`; tools/checks/c05.py hands the number of fallbacks to the harness, which reports it in the
evidence (`translator_fallbacks`).  Such an item is then tied by the differential run only."""
import os
import re


class TranslateError(Exception):
    pass


def _strip_comments(src):
    src = re.sub(r"/\*.*?\*/", " ", src, flags=re.S)
    return re.sub(r"//[^\n]*", "", src)


# ---------------------------------------------------------------------------------------------------------------
# buildInterface
DEFAULT_TESTS = [("dest", "remote", "source", "remote"), ("source", "loc", "dest", "loc"),
                 ("dest", "remote", "source", "remote"), ("source", "loc", "dest", "loc")]


def _matching(src, i, open_ch="{", close_ch="}"):
    depth = 0
    for j in range(i, len(src)):
        if src[j] == open_ch:
            depth += 1
        elif src[j] == close_ch:
            depth -= 1
            if depth == 0:
                return j
    raise TranslateError("unbalanced " + open_ch)


def parse_build_interface(src):
    src = _strip_comments(src)
    m = re.search(r"void\s+InterfaceBuilder\s*::\s*buildInterface\s*\(([^)]*)\)\s*(?:const)?\s*\{", src)
    if not m:
        raise TranslateError("definition of InterfaceBuilder::buildInterface not found")
    params = [p.strip().split()[-1].lstrip("&*") for p in m.group(1).split(",")]
    if len(params) != 4:
        raise TranslateError("buildInterface: expected 4 parameters, found %r" % (params,))
    setname = {params[1]: "source", params[2]: "dest"}
    body = src[m.end() - 1:_matching(src, m.end() - 1) + 1]
    attr_re = r"remote\s*->\s*(?:localIndexPair\s*\(\s*\)\s*\.\s*local\s*\(\s*\)\s*\.\s*)?attribute\s*\(\s*\)"
    test_re = re.compile(r"if\s*\(\s*send\s*\?\s*(\w+)\s*\.\s*contains\s*\(\s*(" + attr_re + r")\s*\)\s*:\s*(\w+)\s*\.\s*contains\s*\(\s*(" +
                         attr_re + r")\s*\)\s*\)")
    tests = []
    for t in test_re.finditer(body):
        s1, a1, s2, a2 = t.groups()
        if s1 not in setname or s2 not in setname:
            raise TranslateError("buildInterface: test consults %r / %r, not the flag-set parameters" % (s1, s2))
        kind = lambda a: "loc" if "localIndexPair" in a else "remote"
        tests.append((setname[s1], kind(a1), setname[s2], kind(a2)))
    n_contains = len(re.findall(r"\.\s*contains\s*\(", body))
    if len(tests) != 4 or n_contains != 8:
        raise TranslateError("buildInterface: expected four `send ? X.contains(..) : Y.contains(..)` tests, found %d (%d calls of contains)"
                             % (len(tests), n_contains))
    # nesting: tests 0,1 belong to the first (counting) loop, 2,3 to the second; the inner test directly follows the outer
    for k in (0, 2):
        between = body[list(test_re.finditer(body))[k].end():list(test_re.finditer(body))[k + 1].start()]
        if between.strip() not in ("{", ""):
            raise TranslateError("buildInterface: statements between the outer and the inner attribute test")
    if not re.search(r"\+\+\s*size\s*;|size\s*\+\+\s*;|size\s*\+=\s*1\s*;", body):
        raise TranslateError("buildInterface: counting statement not recognised")
    add = re.search(r"interfaceInformation\s*\.\s*add\s*\(\s*process\s*->\s*first\s*,\s*([^;]*?)\)\s*;", body)
    if not add or re.sub(r"\s", "", add.group(1)) != "remote->localIndexPair().local().local()":
        raise TranslateError("buildInterface: the add statement does not add remote->localIndexPair().local().local()")
    return tests


# ---------------------------------------------------------------------------------------------------------------
# sendRecv: the completion loops
DEFAULT_BOUNDS = dict(recvLoop="realRecvs", recvCount="neighbours", sendWait="neighbours")


def parse_send_recv(src):
    """bounds of the MPI_Waitany loop and of the wait for the sends in BufferedCommunicator::sendRecv"""
    src = _strip_comments(src)
    m = re.search(r"void\s+BufferedCommunicator\s*::\s*sendRecv\s*\(([^)]*)\)\s*\{", src)
    if not m:
        raise TranslateError("definition of BufferedCommunicator::sendRecv not found")
    body = src[m.end() - 1:_matching(src, m.end() - 1) + 1]
    # the counter of posted receives: incremented exactly once next to every MPI_Irecv, nowhere else, starts at 0
    n_irecv = len(re.findall(r"\bMPI_Irecv\s*\(", body))
    counters = set(re.findall(r"(\w+)\s*(?:\+=\s*1|\+\+)\s*;", body)) | set(re.findall(r"\+\+\s*(\w+)\s*;", body))
    counter = None
    for c in counters:
        incs = len(re.findall(r"\b" + c + r"\s*(?:\+=\s*1|\+\+)\s*;|\+\+\s*" + c + r"\s*;", body))
        guarded = len(re.findall(r"MPI_Irecv\s*\([^;]*;\s*(?:" + c + r"\s*(?:\+=\s*1|\+\+)|\+\+\s*" + c + r")\s*;", body))
        if incs == n_irecv and guarded == n_irecv and n_irecv > 0 and re.search(r"\b" + c + r"\s*=\s*0\s*;", body):
            counter = c
    def bound(expr):
        e = re.sub(r"\s", "", expr)
        if e == "messageInformation_.size()":
            return "neighbours"
        if counter is not None and e == counter:
            return "realRecvs"
        raise TranslateError("sendRecv: loop bound %r is neither messageInformation_.size() nor the counter of posted receives" % expr)
    loop = r"for\s*\(\s*(?:\w+\s+)?(\w+)\s*=\s*0\s*;\s*\1\s*<\s*([^;]+?)\s*;\s*(?:\1\s*\+\+|\+\+\s*\1)\s*\)"
    # receives: a for loop whose body calls MPI_Waitany(count, recvRequests, ...)
    wa = list(re.finditer(r"\bMPI_Waitany\s*\(\s*([^,]+?)\s*,\s*recvRequests\s*,", body))
    if len(wa) != 1:
        raise TranslateError("sendRecv: expected exactly one MPI_Waitany over recvRequests, found %d" % len(wa))
    heads = [h for h in re.finditer(loop, body) if h.end() < wa[0].start()]
    if not heads:
        raise TranslateError("sendRecv: no counting loop around MPI_Waitany")
    h = heads[-1]
    br = body.find("{", h.end())
    if br < 0 or body[h.end():br].strip() or _matching(body, br) < wa[0].start():
        raise TranslateError("sendRecv: MPI_Waitany is not inside the body of the preceding counting loop")
    res = dict(recvLoop=bound(h.group(2)), recvCount=bound(wa[0].group(1)))
    # sends: MPI_Waitall(n, sendRequests, ..) or a counting loop around MPI_Wait(sendRequests+i / &sendRequests[i], ..)
    wall = list(re.finditer(r"\bMPI_Waitall\s*\(\s*([^,]+?)\s*,\s*sendRequests\s*,", body))
    wone = list(re.finditer(r"\bMPI_Wait\s*\(\s*(?:sendRequests\s*\+\s*(\w+)|&\s*sendRequests\s*\[\s*(\w+)\s*\])\s*,", body))
    if len(wall) == 1 and not wone:
        res["sendWait"] = bound(wall[0].group(1))
    elif len(wone) == 1 and not wall:
        var = wone[0].group(1) or wone[0].group(2)
        heads = [h for h in re.finditer(loop, body) if h.end() < wone[0].start()]
        if not heads or heads[-1].group(1) != var:
            raise TranslateError("sendRecv: MPI_Wait on sendRequests is not indexed by the preceding counting loop")
        h = heads[-1]
        between = body[h.end():wone[0].start()]
        if not re.fullmatch(r"\s*\{?\s*(?:if\s*\(\s*(?:MPI_SUCCESS\s*!=\s*)?)?", between):
            raise TranslateError("sendRecv: statements between the loop head and MPI_Wait on sendRequests")
        res["sendWait"] = bound(h.group(2))
    else:
        raise TranslateError("sendRecv: wait for the sends not recognised (%d MPI_Waitall, %d MPI_Wait on sendRequests)"
                             % (len(wall), len(wone)))
    # every send request that is posted lives in sendRequests[i], i = position in messageInformation_ (one MPI_Issend per branch)
    if not re.search(r"new\s+MPI_Request\s*\[\s*messageInformation_\s*\.\s*size\s*\(\s*\)\s*\]", body):
        raise TranslateError("sendRecv: request arrays are not sized messageInformation_.size()")
    return res


# ---------------------------------------------------------------------------------------------------------------
# enumset.hh
_TOK = re.compile(r"\s*(::|==|!=|<=|>=|&&|\|\||[!<>()]|[A-Za-z_]\w*|\d+)")


def _tokens(e):
    out, i = [], 0
    e = e.strip()
    while i < len(e):
        m = _TOK.match(e, i)
        if not m:
            raise TranslateError("expression outside the translator's grammar: %r" % e)
        out.append(m.group(1))
        i = m.end()
        while i < len(e) and e[i].isspace():
            i += 1
    return out


class _P:
    """recursive descent for the grammar in the module docstring; result: Lean source of a Bool"""

    def __init__(self, toks, item, ints, sets):
        self.t, self.i, self.item, self.ints, self.sets = toks, 0, item, ints, sets

    def peek(self):
        return self.t[self.i] if self.i < len(self.t) else None

    def eat(self, x=None):
        tok = self.peek()
        if tok is None or (x is not None and tok != x):
            raise TranslateError("unexpected token %r (wanted %r)" % (tok, x))
        self.i += 1
        return tok

    def expr(self):
        a = self.conj()
        while self.peek() == "||":
            self.eat()
            a = "(%s || %s)" % (a, self.conj())
        return a

    def conj(self):
        a = self.neg()
        while self.peek() == "&&":
            self.eat()
            a = "(%s && %s)" % (a, self.neg())
        return a

    def neg(self):
        if self.peek() == "!":
            self.eat()
            return "(!%s)" % self.neg()
        return self.cmp()

    def cmp(self):
        a, ka = self.atom()
        op = self.peek()
        if op in ("==", "!=", "<=", ">=", "<", ">"):
            self.eat()
            b, kb = self.atom()
            if ka != "int" or kb != "int":
                raise TranslateError("comparison of non-integers")
            lean = {"==": "%s == %s", "!=": "%s != %s", "<=": "decide (%s ≤ %s)", ">=": "decide (%s ≥ %s)",
                    "<": "decide (%s < %s)", ">": "decide (%s > %s)"}[op]
            return "(" + lean % (a, b) + ")"
        if ka != "bool":
            raise TranslateError("integer used as truth value")
        return a

    def atom(self):
        tok = self.eat()
        if tok == "(":
            e = self.expr()
            self.eat(")")
            return e, "bool"
        if tok in ("true", "false"):
            return tok, "bool"
        if tok.isdigit():
            return "(%s : Int)" % tok, "int"
        if re.fullmatch(r"[A-Za-z_]\w*", tok):
            if self.peek() == "::":
                self.eat("::")
                self.eat("contains")
                self.eat("(")
                arg = self.eat()
                self.eat(")")
                if tok not in self.sets or arg != self.item:
                    raise TranslateError("call %s::contains(%s) outside the grammar" % (tok, arg))
                return "(%s item)" % self.sets[tok], "bool"
            if tok == self.item:
                return "item", "int"
            if tok in self.ints:
                return self.ints[tok], "int"
        raise TranslateError("unexpected identifier %r" % tok)


# class -> (Lean name, Lean parameters before `item`, built-in transcription)
ENUM_CLASSES = [
    ("EmptySet", "emptySetContains", "", "false"),
    ("AllSet", "allSetContains", "", "true"),
    ("EnumItem", "enumItemContains", "(i : Int) ", "(item == i)"),
    ("EnumRange", "enumRangeContains", "(lo hi : Int) ", "((decide (lo ≤ item)) && (decide (item ≤ hi)))"),
    ("NegateSet", "negateSetContains", "(s : Int → Bool) ", "(!(s item))"),
    ("Combine", "combineContains", "(s1 s2 : Int → Bool) ", "((s1 item) || (s2 item))"),
]


def _template_params(src, cls):
    """names of the template parameters of the class template `cls`, by kind"""
    m = re.search(r"template\s*<([^{};]*?)>\s*class\s+" + cls + r"\b\s*\{", src, flags=re.S)
    if not m:
        raise TranslateError("class template %s not found" % cls)
    ints, types = [], []
    for p in m.group(1).split(","):
        p = p.split("=")[0].strip()
        w = p.split()
        if len(w) != 2:
            raise TranslateError("%s: template parameter %r" % (cls, p))
        (ints if w[0] == "int" else types).append(w[1])
    return ints, types


def _contains_body(src, cls):
    """(parameter name, return expression) of cls::contains, defined out of class or in class; template parameter names
    as they are spelled at the definition"""
    m = re.search(r"template\s*<([^{};]*?)>\s*inline\s+bool\s+" + cls + r"\s*<[^>{};]*>\s*::\s*contains\s*\(([^)]*)\)\s*\{\s*return\s+([^;{}]*);\s*\}",
                  src, flags=re.S)
    if m:
        ints, types = [], []
        for p in m.group(1).split(","):
            w = p.split("=")[0].split()
            (ints if w[0] == "int" else types).append(w[-1])
        return m.group(2), m.group(3), ints, types
    c = re.search(r"class\s+" + cls + r"\b\s*\{", src)
    if not c:
        raise TranslateError("class %s not found" % cls)
    body = src[c.end() - 1:_matching(src, c.end() - 1) + 1]
    m = re.search(r"static\s+bool\s+contains\s*\(([^)]*)\)\s*\{\s*return\s+([^;{}]*);\s*\}", body, flags=re.S)
    if not m:
        raise TranslateError("%s::contains is not a single return statement" % cls)
    ints, types = _template_params(src, cls)
    return m.group(1), m.group(2), ints, types


def parse_enumset(src, cls):
    src = _strip_comments(src)
    params, expr, ints, types = _contains_body(src, cls)
    pw = re.sub(r"\[\[[^\]]*\]\]", " ", params).replace("&", " ").split()
    if not pw:
        raise TranslateError("%s::contains: parameter list %r" % (cls, params))
    item = pw[-1]
    want_ints = {"EnumItem": ["i"], "EnumRange": ["lo", "hi"]}.get(cls, [])
    want_sets = {"NegateSet": ["s"], "Combine": ["s1", "s2"]}.get(cls, [])
    if len(ints) != len(want_ints):
        raise TranslateError("%s: %d integral template parameters" % (cls, len(ints)))
    set_params = [t for t in types]
    if cls in ("NegateSet", "Combine"):
        set_params = types[:len(want_sets)]
        if len(set_params) != len(want_sets):
            raise TranslateError("%s: set template parameters %r" % (cls, types))
    else:
        set_params = []
    p = _P(_tokens(expr), item, dict(zip(ints, want_ints)), dict(zip(set_params, want_sets)))
    lean = p.expr()
    if p.peek() is not None:
        raise TranslateError("%s::contains: trailing tokens" % cls)
    return lean


# ---------------------------------------------------------------------------------------------------------------
def analyse(repo):
    status = {}
    try:
        with open(os.path.join(repo, "dune/common/parallel/interface.hh")) as f:
            tests = parse_build_interface(f.read())
        status["buildInterface"] = None
    except (TranslateError, OSError) as ex:
        tests = DEFAULT_TESTS
        status["buildInterface"] = str(ex)
    try:
        with open(os.path.join(repo, "dune/common/parallel/communicator.hh")) as f:
            bounds = parse_send_recv(f.read())
        status["sendRecv"] = None
    except (TranslateError, OSError) as ex:
        bounds = dict(DEFAULT_BOUNDS)
        status["sendRecv"] = str(ex)
    bodies = {}
    try:
        with open(os.path.join(repo, "dune/common/enumset.hh")) as f:
            enum_src = f.read()
    except OSError as ex:
        enum_src = None
    for cls, name, _, default in ENUM_CLASSES:
        try:
            if enum_src is None:
                raise TranslateError("enumset.hh not readable")
            bodies[cls] = parse_enumset(enum_src, cls)
            status["enumset:" + cls] = None
        except TranslateError as ex:
            bodies[cls] = default
            status["enumset:" + cls] = str(ex)
    return dict(tests=tests, bodies=bodies, bounds=bounds, status=status)


def status(repo):
    return analyse(repo)["status"]


def render(a):
    t = a["tests"]
    fs = {"source": ".source", "dest": ".dest"}
    at = {"remote": ".remote", "loc": ".loc"}
    tl = lambda x: "⟨%s, %s, %s, %s⟩" % (fs[x[0]], at[x[1]], fs[x[2]], at[x[3]])
    out = []
    out.append("/- GENERATED by tools/translators/tr_c05.py from dune/common/parallel/interface.hh, communicator.hh and dune/common/enumset.hh")
    out.append("   of the tree under test — do not edit; `python3 tools/regen.py C05` rewrites it from /repo. -/")
    out.append("set_option linter.unusedVariables false")
    out.append("namespace DV.C05.Gen")
    out.append("")
    out.append("/-- which of the two attribute-set parameters of `buildInterface` a test consults -/")
    out.append("inductive FlagSet where")
    out.append("  | source")
    out.append("  | dest")
    out.append("  deriving DecidableEq, Repr")
    out.append("")
    out.append("/-- whose attribute it looks at: `remote->attribute()` (the copy on the other process) or")
    out.append("    `remote->localIndexPair().local().attribute()` (the own index) -/")
    out.append("inductive Attr where")
    out.append("  | remote")
    out.append("  | loc")
    out.append("  deriving DecidableEq, Repr")
    out.append("")
    out.append("/-- `send ? sendSet.contains(sendAttr) : recvSet.contains(recvAttr)` -/")
    out.append("structure Test where")
    out.append("  sendSet : FlagSet")
    out.append("  sendAttr : Attr")
    out.append("  recvSet : FlagSet")
    out.append("  recvAttr : Attr")
    out.append("  deriving DecidableEq, Repr")
    out.append("")
    out.append("/-- first loop of `buildInterface` (`++size`): outer and inner test -/")
    out.append("def countOuter : Test := " + tl(t[0]))
    out.append("def countInner : Test := " + tl(t[1]))
    out.append("/-- second loop (`interfaceInformation.add(process->first, remote->localIndexPair().local().local())`) -/")
    out.append("def addOuter : Test := " + tl(t[2]))
    out.append("def addInner : Test := " + tl(t[3]))
    out.append("")
    out.append("/-! `contains` of the attribute set classes of enumset.hh (attributes as integers) -/")
    for cls, name, params, _ in ENUM_CLASSES:
        out.append("/-- `%s<…>::contains(item)` -/" % cls)
        out.append("def %s %s(item : Int) : Bool := %s" % (name, params, a["bodies"][cls]))
    out.append("")
    b = a["bounds"]
    out.append("/-! the completion loops at the end of `BufferedCommunicator::sendRecv` (communicator.hh) -/")
    out.append("/-- a loop bound / request count: `messageInformation_.size()` (all neighbours) or the counter incremented next to")
    out.append("    every `MPI_Irecv` (the receives really posted) -/")
    out.append("inductive Bound where")
    out.append("  | neighbours")
    out.append("  | realRecvs")
    out.append("  deriving DecidableEq, Repr")
    out.append("")
    out.append("/-- number of `MPI_Waitany` calls -/")
    out.append("def recvLoopBound : Bound := .%s" % b["recvLoop"])
    out.append("/-- `count` argument of `MPI_Waitany(count, recvRequests, ..)` -/")
    out.append("def recvWaitCount : Bound := .%s" % b["recvCount"])
    out.append("/-- number of entries of `sendRequests` (indexed like `messageInformation_`) that are waited for before `sendRecv` returns -/")
    out.append("def sendWaitBound : Bound := .%s" % b["sendWait"])
    out.append("")
    out.append("/-- which items were read from the source (`false`: outside the translator's grammar, built-in transcription used) -/")
    out.append("def translated : List (String × Bool) :=")
    out.append("  [" + ", ".join('("%s", %s)' % (k, "true" if v is None else "false") for k, v in a["status"].items()) + "]")
    out.append("")
    out.append("end DV.C05.Gen")
    return "\n".join(out) + "\n"


def translate(repo):
    return [("DuneVerif/Gen/C05.lean", render(analyse(repo)))]


if __name__ == "__main__":
    import sys
    r = sys.argv[1] if len(sys.argv) > 1 else "/repo"
    a = analyse(r)
    for k, v in a["status"].items():
        print(k, "translated" if v is None else "FALLBACK: " + v)
    sys.stdout.write(render(a))
