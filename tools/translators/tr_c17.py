"""Translator for C17: the straight-line formulas of dune/common/float_cmp.cc are re-read from the source on
every run and emitted as lean/DuneVerif/Gen/C17.lean:

* the three `eq_t<T, style>::eq` return expressions (relativeWeak / relativeStrong / absolute),
* the return expressions of the derived comparisons `ne gt lt ge le` (templates over the style, which call
  `eq<T, style>` / `ne<T, style>`),
* the default epsilons `DefaultEpsilon<T, style>::value()` evaluated for `float` and `double`.

The property theorems (documented definitions, symmetry, trichotomy, ...) are stated about these generated
definitions, so an edit of a formula in the source changes what Lean has to prove.  Anything outside the small
expression grammar makes the translator fail loudly."""
import os
import re
import struct


class TranslateError(Exception):
    pass


def strip_comments(src):
    src = re.sub(r"/\*.*?\*/", " ", src, flags=re.S)
    src = re.sub(r"//[^\n]*", " ", src)
    return src


# ---------------------------------------------------------------------------------------------------------
# expression grammar:  or := and ('||' and)* ; and := cmp ('&&' cmp)* ; cmp := add (relop add)? ;
# add := mul (('+'|'-') mul)* ; mul := un ('*' un)* ; un := '!' un | '-' un | prim ;
# prim := NAME '(' or (',' or)* ')' | NAME | '(' or ')'
# value kinds: 'K' (scalar), 'B' (Bool)
# ---------------------------------------------------------------------------------------------------------
TOK = re.compile(r"\s*(<=|>=|&&|\|\||[A-Za-z_][A-Za-z_0-9]*|[-+*!<>(),])")
CALLS = {"abs": ("absK", 1, "K", "K"), "maxK": ("maxK", 2, "K", "K"), "minK": ("minK", 2, "K", "K")}
CMPCALLS = ("eq", "ne", "lt", "gt", "le", "ge")
VARS = ("first", "second", "epsilon")


def tokenize(e):
    e = e.strip()
    e = re.sub(r"std::max\b", "maxK", e)
    e = re.sub(r"std::min\b", "minK", e)
    e = re.sub(r"std::abs\b", "abs", e)
    e = re.sub(r"\bImpl::eq_t\s*<\s*T\s*,\s*style\s*>\s*::\s*eq\b", "CALL_eq", e)
    e = re.sub(r"\b(eq|ne|lt|gt|le|ge)\s*<\s*T\s*,\s*style\s*>", r"CALL_\1", e)
    pos, out = 0, []
    while pos < len(e):
        m = TOK.match(e, pos)
        if not m:
            raise TranslateError("cannot tokenise %r at %r" % (e, e[pos:pos + 20]))
        out.append(m.group(1))
        pos = m.end()
        while pos < len(e) and e[pos].isspace():
            pos += 1
    return out


class P:
    def __init__(self, toks, what):
        self.t, self.i, self.what = toks, 0, what

    def peek(self):
        return self.t[self.i] if self.i < len(self.t) else None

    def eat(self, x=None):
        tok = self.peek()
        if tok is None or (x is not None and tok != x):
            raise TranslateError("%s: expected %r, found %r" % (self.what, x, tok))
        self.i += 1
        return tok

    def need(self, got, want, ctx):
        if got != want:
            raise TranslateError("%s: %s has kind %s, expected %s" % (self.what, ctx, got, want))

    def p_or(self):
        l, k = self.p_and()
        while self.peek() == "||":
            self.eat()
            r, kr = self.p_and()
            self.need(k, "B", "left of ||")
            self.need(kr, "B", "right of ||")
            l = "(%s || %s)" % (l, r)
        return l, k

    def p_and(self):
        l, k = self.p_cmp()
        while self.peek() == "&&":
            self.eat()
            r, kr = self.p_cmp()
            self.need(k, "B", "left of &&")
            self.need(kr, "B", "right of &&")
            l = "(%s && %s)" % (l, r)
        return l, k

    def p_cmp(self):
        l, k = self.p_add()
        if self.peek() in ("<=", ">=", "<", ">"):
            op = self.eat()
            r, kr = self.p_add()
            self.need(k, "K", "left of " + op)
            self.need(kr, "K", "right of " + op)
            lop = {"<=": "≤", ">=": "≥", "<": "<", ">": ">"}[op]
            return "decide (%s %s %s)" % (l, lop, r), "B"
        return l, k

    def p_add(self):
        l, k = self.p_mul()
        while self.peek() in ("+", "-"):
            op = self.eat()
            if op == "+":
                raise TranslateError("%s: '+' is not used by the known formulas" % self.what)
            r, kr = self.p_mul()
            self.need(k, "K", "left of " + op)
            self.need(kr, "K", "right of " + op)
            l = "(%s %s %s)" % (l, op, r)
        return l, k

    def p_mul(self):
        l, k = self.p_un()
        while self.peek() == "*":
            self.eat()
            r, kr = self.p_un()
            self.need(k, "K", "left of *")
            self.need(kr, "K", "right of *")
            l = "(%s * %s)" % (l, r)
        return l, k

    def p_un(self):
        if self.peek() == "!":
            self.eat()
            e, k = self.p_un()
            self.need(k, "B", "operand of !")
            return "(!%s)" % e, "B"
        if self.peek() == "-":
            self.eat()
            e, k = self.p_un()
            self.need(k, "K", "operand of unary -")
            return "(-%s)" % e, "K"
        return self.p_prim()

    def p_prim(self):
        tok = self.eat()
        if tok == "(":
            e, k = self.p_or()
            self.eat(")")
            return e, k
        if not re.fullmatch(r"[A-Za-z_][A-Za-z_0-9]*", tok):
            raise TranslateError("%s: unexpected token %r" % (self.what, tok))
        if self.peek() == "(":
            self.eat("(")
            args = [self.p_or()]
            while self.peek() == ",":
                self.eat()
                args.append(self.p_or())
            self.eat(")")
            if tok in CALLS:
                name, n, ak, rk = CALLS[tok]
                if len(args) != n:
                    raise TranslateError("%s: %s takes %d arguments" % (self.what, tok, n))
                for a, k in args:
                    self.need(k, ak, "argument of " + tok)
                return "(%s %s)" % (name, " ".join(a for a, _ in args)), rk
            if tok.startswith("CALL_") and tok[5:] in CMPCALLS:
                if [a for a, _ in args] != list(VARS):
                    raise TranslateError("%s: %s called with %r" % (self.what, tok, args))
                f = tok[5:]
                return ("(eq first second epsilon)" if f == "eq" else "(%s eq first second epsilon)" % f), "B"
            raise TranslateError("%s: unknown function %r" % (self.what, tok))
        if tok in VARS:
            return tok, "K"
        raise TranslateError("%s: unknown identifier %r" % (self.what, tok))


def to_lean(expr, what):
    p = P(tokenize(expr), what)
    e, k = p.p_or()
    if p.peek() is not None:
        raise TranslateError("%s: trailing tokens %r" % (what, p.t[p.i:]))
    if k != "B":
        raise TranslateError("%s: formula is not boolean" % what)
    return e


# ---------------------------------------------------------------------------------------------------------
def dyadic(x):
    """exact (m, e) with x = m * 2^e, m odd"""
    if x == 0:
        return (0, 0)
    n, d = float(x).as_integer_ratio()
    e = 0
    while n % 2 == 0:
        n //= 2
        e += 1
    e -= d.bit_length() - 1
    return (n, e)


def f32(x):
    return struct.unpack("f", struct.pack("f", x))[0]


def round_fmt(x, prec, emin):
    """round the non-negative Fraction x to a binary format (nearest, ties to even); returns a Fraction"""
    from fractions import Fraction
    if x == 0:
        return Fraction(0)
    e = 0                                   # 2^e <= x < 2^(e+1)
    while Fraction(2) ** (e + 1) <= x:
        e += 1
    while Fraction(2) ** e > x:
        e -= 1
    u = max(e, emin) - (prec - 1)           # exponent of one ulp
    q = x / Fraction(2) ** u
    n = q.numerator // q.denominator
    r = q - n
    if r > Fraction(1, 2) or (r == Fraction(1, 2) and n % 2 == 1):
        n += 1
    return n * Fraction(2) ** u


def dyadic_fr(x):
    """exact (m, e) of a dyadic Fraction"""
    if x == 0:
        return (0, 0)
    n, d = x.numerator, x.denominator
    e = 0
    while n % 2 == 0:
        n //= 2
        e += 1
    e -= d.bit_length() - 1
    if d & (d - 1):
        raise TranslateError("not a dyadic number: %r" % x)
    return (n, e)


# the floating-point types the harness instantiates: name -> (precision, emin).  For `mf8` (the harness' 8-bit class)
# literals of type double are converted by rounding to the format, `numeric_limits<MF8>::epsilon()` is 2^-3.
FORMATS = (("f32", 24, -126), ("f64", 53, -1022), ("f80", 64, -16382), ("mf8", 4, -6))


def default_eps(expr, what):
    """evaluate DefaultEpsilon<T,style>::value() for float, double, long double and the minifloat; returns {T: (m,e)}"""
    from fractions import Fraction
    e = re.sub(r"\s+", "", expr)
    EPS = "std::numeric_limits<typenameEpsilonType<T>::Type>::epsilon()"
    LIT = r"(\d+(?:\.\d*)?(?:[eE][-+]?\d+)?)"
    res = {}
    m = re.fullmatch(re.escape(EPS) + r"\*" + LIT, e)
    if m:
        c = Fraction(float(m.group(1)))      # the literal is a double
        for T, prec, emin in FORMATS:
            me = Fraction(2) ** (1 - prec)
            if T == "f32":                   # float * double is computed in double, converted to float on return
                v = round_fmt(round_fmt(me * c, 53, -1022), prec, emin)
            elif T == "mf8":                 # MF8 * double: the double is converted to MF8 first
                v = round_fmt(me * round_fmt(c, prec, emin), prec, emin)
            else:
                v = round_fmt(me * c, prec, emin)
            res[T] = dyadic_fr(v)
        return res, "machine epsilon * %s" % m.group(1)
    m = re.fullmatch(r"std::max<typenameEpsilonType<T>::Type>\(" + re.escape(EPS) + "," + LIT + r"\)", e)
    if m:
        c = Fraction(float(m.group(1)))
        for T, prec, emin in FORMATS:
            me = Fraction(2) ** (1 - prec)
            res[T] = dyadic_fr(max(me, round_fmt(c, prec, emin)))
        return res, "max(machine epsilon, %s)" % m.group(1)
    raise TranslateError("%s: default epsilon expression outside the grammar: %r" % (what, expr))


STYLES = ("relativeWeak", "relativeStrong", "absolute")


def translate(repo):
    src = strip_comments(open(os.path.join(repo, "dune/common/float_cmp.cc")).read())
    out = ["-- GENERATED by tools/translators/tr_c17.py from dune/common/float_cmp.cc -- do not edit",
           "import DuneVerif.Model.C17.Base",
           "namespace DV.C17.Gen",
           "open DV.C17",
           "",
           "section formulas",
           "variable {K : Type} [Zero K] [Neg K] [Sub K] [Mul K] [LT K] [LE K] [DecidableLT K] [DecidableLE K]",
           ""]
    # --- eq_t<T, style>::eq
    for st in STYLES:
        ms = re.findall(r"template\s*<\s*class\s+T\s*>\s*struct\s+eq_t\s*<\s*T\s*,\s*%s\s*>\s*\{(.*?)\}\s*;" % st, src, flags=re.S)
        if len(ms) != 1:
            raise TranslateError("eq_t<T, %s> not found exactly once" % st)
        body = ms[0]
        m = re.search(r"static\s+bool\s+eq\s*\(\s*const\s+T\s*&\s*first\s*,\s*const\s+T\s*&\s*second\s*,\s*typename\s+"
                      r"EpsilonType<T>::Type\s+epsilon\s*=\s*DefaultEpsilon<T>::value\(\)\s*\)\s*\{(.*)\}\s*$", body, flags=re.S)
        if not m:
            raise TranslateError("eq_t<T, %s>::eq signature changed" % st)
        stmts = [s.strip() for s in m.group(1).split(";") if s.strip()]
        stmts = [s for s in stmts if s != "using std::abs"]
        if len(stmts) != 1 or not stmts[0].startswith("return "):
            raise TranslateError("eq_t<T, %s>::eq is no longer a single return statement: %r" % (st, stmts))
        lean = to_lean(stmts[0][len("return "):], "eq_t<T,%s>::eq" % st)
        out.append("/-- `eq_t<T, %s>::eq` : `%s` -/" % (st, re.sub(r"\s+", " ", stmts[0])))
        out.append("def eq_%s (first second epsilon : K) : Bool :=\n  %s" % (st, lean))
        out.append("")
    # --- derived comparisons (templates over the style)
    for f in ("ne", "gt", "lt", "ge", "le"):
        ms = re.findall(r"template\s*<\s*class\s+T\s*,\s*CmpStyle\s+style\s*>\s*bool\s+%s\s*\(\s*const\s+T\s*&\s*first\s*,\s*const\s+T\s*&\s*second\s*,"
                        r"\s*typename\s+EpsilonType<T>::Type\s+epsilon\s*\)\s*\{(.*?)\}" % f, src, flags=re.S)
        if len(ms) != 1:
            raise TranslateError("template <class T, CmpStyle style> bool %s(...) not found exactly once" % f)
        stmts = [s.strip() for s in ms[0].split(";") if s.strip()]
        if len(stmts) != 1 or not stmts[0].startswith("return "):
            raise TranslateError("%s<T, style> is no longer a single return statement" % f)
        lean = to_lean(stmts[0][len("return "):], "%s<T,style>" % f)
        out.append("/-- `%s<T, style>` : `%s`   (`eq` = `eq<T, style>`) -/" % (f, re.sub(r"\s+", " ", stmts[0])))
        out.append("def %s (eq : K → K → K → Bool) (first second epsilon : K) : Bool :=\n  %s" % (f, lean))
        out.append("")
    out.append("end formulas")
    out.append("")
    # --- default epsilons
    out.append("/-! default epsilons `DefaultEpsilon<T, style>::value()` as exact dyadic numbers `m · 2^e` -/")
    for st in STYLES:
        ms = re.findall(r"struct\s+DefaultEpsilon\s*<\s*T\s*,\s*%s\s*>\s*\{\s*static\s+typename\s+EpsilonType<T>::Type\s+value\s*\(\s*\)\s*\{\s*return\s+(.*?);\s*\}\s*\}\s*;" % st,
                        src, flags=re.S)
        if len(ms) != 1:
            raise TranslateError("DefaultEpsilon<T, %s> not found exactly once" % st)
        vals, how = default_eps(ms[0], "DefaultEpsilon<T,%s>" % st)
        for T, _, _ in FORMATS:
            out.append("/-- %s -/" % how)
            out.append("def defaultEps_%s_%s : Dy := Dy.mk2 (%d) (%d)" % (st, T, vals[T][0], vals[T][1]))
    out.append("")
    out.append("end DV.C17.Gen")
    return [("DuneVerif/Gen/C17.lean", "\n".join(out) + "\n")]


if __name__ == "__main__":
    import sys
    for p, c in translate(sys.argv[1] if len(sys.argv) > 1 else "/repo"):
        print("-----", p)
        print(c)
