"""Translator for C17: the straight-line formulas of dune/common/float_cmp.cc are re-read from the source on
every run and emitted as lean/DuneVerif/Gen/C17.lean:

* the three `eq_t<T, style>::eq` return expressions (relativeWeak / relativeStrong / absolute),
* the return expressions of the derived comparisons `ne gt lt ge le` (templates over the style, which call
  `eq<T, style>` / `ne<T, style>`),
* the default epsilons `DefaultEpsilon<T, style>::value()` evaluated for `float` and `double`.

The property theorems (documented definitions, symmetry, trichotomy, ...) are stated about these generated
definitions, so an edit of a formula in the source changes what Lean has to prove.  Anything outside the small
expression grammar makes the translator fail loudly."""
import os
import re
import struct


class TranslateError(Exception):
    pass


def strip_comments(src):
    src = re.sub(r"/\*.*?\*/", " ", src, flags=re.S)
    src = re.sub(r"//[^\n]*", " ", src)
    return src


# ---------------------------------------------------------------------------------------------------------
# expression grammar:  or := and ('||' and)* ; and := cmp ('&&' cmp)* ; cmp := add (relop add)? ;
# add := mul (('+'|'-') mul)* ; mul := un ('*' un)* ; un := '!' un | '-' un | prim ;
# prim := NAME '(' or (',' or)* ')' | NAME | '(' or ')'
# value kinds: 'K' (scalar), 'B' (Bool)
# ---------------------------------------------------------------------------------------------------------
TOK = re.compile(r"\s*(<=|>=|&&|\|\||[A-Za-z_][A-Za-z_0-9]*|[-+*!<>(),])")
CALLS = {"abs": ("absK", 1, "K", "K"), "maxK": ("maxK", 2, "K", "K"), "minK": ("minK", 2, "K", "K")}
CMPCALLS = ("eq", "ne", "lt", "gt", "le", "ge")
VARS = ("first", "second", "epsilon")


def tokenize(e):
    e = e.strip()
    e = re.sub(r"std::max\b", "maxK", e)
    e = re.sub(r"std::min\b", "minK", e)
    e = re.sub(r"std::abs\b", "abs", e)
    e = re.sub(r"\bImpl::eq_t\s*<\s*T\s*,\s*style\s*>\s*::\s*eq\b", "CALL_eq", e)
    e = re.sub(r"\b(eq|ne|lt|gt|le|ge)\s*<\s*T\s*,\s*style\s*>", r"CALL_\1", e)
    pos, out = 0, []
    while pos < len(e):
        m = TOK.match(e, pos)
        if not m:
            raise TranslateError("cannot tokenise %r at %r" % (e, e[pos:pos + 20]))
        out.append(m.group(1))
        pos = m.end()
        while pos < len(e) and e[pos].isspace():
            pos += 1
    return out


class P:
    def __init__(self, toks, what):
        self.t, self.i, self.what = toks, 0, what

    def peek(self):
        return self.t[self.i] if self.i < len(self.t) else None

    def eat(self, x=None):
        tok = self.peek()
        if tok is None or (x is not None and tok != x):
            raise TranslateError("%s: expected %r, found %r" % (self.what, x, tok))
        self.i += 1
        return tok

    def need(self, got, want, ctx):
        if got != want:
            raise TranslateError("%s: %s has kind %s, expected %s" % (self.what, ctx, got, want))

    def p_or(self):
        l, k = self.p_and()
        while self.peek() == "||":
            self.eat()
            r, kr = self.p_and()
            self.need(k, "B", "left of ||")
            self.need(kr, "B", "right of ||")
            l = "(%s || %s)" % (l, r)
        return l, k

    def p_and(self):
        l, k = self.p_cmp()
        while self.peek() == "&&":
            self.eat()
            r, kr = self.p_cmp()
            self.need(k, "B", "left of &&")
            self.need(kr, "B", "right of &&")
            l = "(%s && %s)" % (l, r)
        return l, k

    def p_cmp(self):
        l, k = self.p_add()
        if self.peek() in ("<=", ">=", "<", ">"):
            op = self.eat()
            r, kr = self.p_add()
            self.need(k, "K", "left of " + op)
            self.need(kr, "K", "right of " + op)
            lop = {"<=": "≤", ">=": "≥", "<": "<", ">": ">"}[op]
            return "decide (%s %s %s)" % (l, lop, r), "B"
        return l, k

    def p_add(self):
        l, k = self.p_mul()
        while self.peek() in ("+", "-"):
            op = self.eat()
            if op == "+":
                raise TranslateError("%s: '+' is not used by the known formulas" % self.what)
            r, kr = self.p_mul()
            self.need(k, "K", "left of " + op)
            self.need(kr, "K", "right of " + op)
            l = "(%s %s %s)" % (l, op, r)
        return l, k

    def p_mul(self):
        l, k = self.p_un()
        while self.peek() == "*":
            self.eat()
            r, kr = self.p_un()
            self.need(k, "K", "left of *")
            self.need(kr, "K", "right of *")
            l = "(%s * %s)" % (l, r)
        return l, k

    def p_un(self):
        if self.peek() == "!":
            self.eat()
            e, k = self.p_un()
            self.need(k, "B", "operand of !")
            return "(!%s)" % e, "B"
        if self.peek() == "-":
            self.eat()
            e, k = self.p_un()
            self.need(k, "K", "operand of unary -")
            return "(-%s)" % e, "K"
        return self.p_prim()

    def p_prim(self):
        tok = self.eat()
        if tok == "(":
            e, k = self.p_or()
            self.eat(")")
            return e, k
        if not re.fullmatch(r"[A-Za-z_][A-Za-z_0-9]*", tok):
            raise TranslateError("%s: unexpected token %r" % (self.what, tok))
        if self.peek() == "(":
            self.eat("(")
            args = [self.p_or()]
            while self.peek() == ",":
                self.eat()
                args.append(self.p_or())
            self.eat(")")
            if tok in CALLS:
                name, n, ak, rk = CALLS[tok]
                if len(args) != n:
                    raise TranslateError("%s: %s takes %d arguments" % (self.what, tok, n))
                for a, k in args:
                    self.need(k, ak, "argument of " + tok)
                return "(%s %s)" % (name, " ".join(a for a, _ in args)), rk
            if tok.startswith("CALL_") and tok[5:] in CMPCALLS:
                if [a for a, _ in args] != list(VARS):
                    raise TranslateError("%s: %s called with %r" % (self.what, tok, args))
                f = tok[5:]
                return ("(eq first second epsilon)" if f == "eq" else "(%s eq first second epsilon)" % f), "B"
            raise TranslateError("%s: unknown function %r" % (self.what, tok))
        if tok in VARS:
            return tok, "K"
        raise TranslateError("%s: unknown identifier %r" % (self.what, tok))


def to_lean(expr, what):
    p = P(tokenize(expr), what)
    e, k = p.p_or()
    if p.peek() is not None:
        raise TranslateError("%s: trailing tokens %r" % (what, p.t[p.i:]))
    if k != "B":
        raise TranslateError("%s: formula is not boolean" % what)
    return e


# ---------------------------------------------------------------------------------------------------------
def dyadic(x):
    """exact (m, e) with x = m * 2^e, m odd"""
    if x == 0:
        return (0, 0)
    n, d = float(x).as_integer_ratio()
    e = 0
    while n % 2 == 0:
        n //= 2
        e += 1
    e -= d.bit_length() - 1
    return (n, e)


def f32(x):
    return struct.unpack("f", struct.pack("f", x))[0]


def round_fmt(x, prec, emin):
    """round the non-negative Fraction x to a binary format (nearest, ties to even); returns a Fraction"""
    from fractions import Fraction
    if x == 0:
        return Fraction(0)
    e = 0                                   # 2^e <= x < 2^(e+1)
    while Fraction(2) ** (e + 1) <= x:
        e += 1
    while Fraction(2) ** e > x:
        e -= 1
    u = max(e, emin) - (prec - 1)           # exponent of one ulp
    q = x / Fraction(2) ** u
    n = q.numerator // q.denominator
    r = q - n
    if r > Fraction(1, 2) or (r == Fraction(1, 2) and n % 2 == 1):
        n += 1
    return n * Fraction(2) ** u


def dyadic_fr(x):
    """exact (m, e) of a dyadic Fraction"""
    if x == 0:
        return (0, 0)
    n, d = x.numerator, x.denominator
    e = 0
    while n % 2 == 0:
        n //= 2
        e += 1
    e -= d.bit_length() - 1
    if d & (d - 1):
        raise TranslateError("not a dyadic number: %r" % x)
    return (n, e)


# the floating-point types the harness instantiates: name -> (precision, emin).  For `mf8` (the harness' 8-bit class)
# literals of type double are converted by rounding to the format, `numeric_limits<MF8>::epsilon()` is 2^-3.
FORMATS = (("f32", 24, -126), ("f64", 53, -1022), ("f80", 64, -16382), ("mf8", 4, -6))


def default_eps(expr, what):
    """evaluate DefaultEpsilon<T,style>::value() for float, double, long double and the minifloat; returns {T: (m,e)}"""
    from fractions import Fraction
    e = re.sub(r"\s+", "", expr)
    EPS = "std::numeric_limits<typenameEpsilonType<T>::Type>::epsilon()"
    LIT = r"(\d+(?:\.\d*)?(?:[eE][-+]?\d+)?)"
    res = {}
    m = re.fullmatch(re.escape(EPS) + r"\*" + LIT, e)
    if m:
        c = Fraction(float(m.group(1)))      # the literal is a double
        for T, prec, emin in FORMATS:
            me = Fraction(2) ** (1 - prec)
            if T == "f32":                   # float * double is computed in double, converted to float on return
                v = round_fmt(round_fmt(me * c, 53, -1022), prec, emin)
            elif T == "mf8":                 # MF8 * double: the double is converted to MF8 first
                v = round_fmt(me * round_fmt(c, prec, emin), prec, emin)
            else:
                v = round_fmt(me * c, prec, emin)
            res[T] = dyadic_fr(v)
        return res, "machine epsilon * %s" % m.group(1)
    m = re.fullmatch(r"std::max<typenameEpsilonType<T>::Type>\(" + re.escape(EPS) + "," + LIT + r"\)", e)
    if m:
        c = Fraction(float(m.group(1)))
        for T, prec, emin in FORMATS:
            me = Fraction(2) ** (1 - prec)
            res[T] = dyadic_fr(max(me, round_fmt(c, prec, emin)))
        return res, "max(machine epsilon, %s)" % m.group(1)
    raise TranslateError("%s: default epsilon expression outside the grammar: %r" % (what, expr))


STYLES = ("relativeWeak", "relativeStrong", "absolute")


def translate(repo):
    src = strip_comments(open(os.path.join(repo, "dune/common/float_cmp.cc")).read())
    out = ["-- GENERATED by tools/translators/tr_c17.py from dune/common/float_cmp.cc -- do not edit",
           "import DuneVerif.Model.C17.Base",
           "namespace DV.C17.Gen",
           "open DV.C17",
           "",
           "section formulas",
           "variable {K : Type} [Zero K] [Neg K] [Sub K] [Mul K] [LT K] [LE K] [DecidableLT K] [DecidableLE K]",
           ""]
    # --- eq_t<T, style>::eq
    for st in STYLES:
        ms = re.findall(r"template\s*<\s*class\s+T\s*>\s*struct\s+eq_t\s*<\s*T\s*,\s*%s\s*>\s*\{(.*?)\}\s*;" % st, src, flags=re.S)
        if len(ms) != 1:
            raise TranslateError("eq_t<T, %s> not found exactly once" % st)
        body = ms[0]
        m = re.search(r"static\s+bool\s+eq\s*\(\s*const\s+T\s*&\s*first\s*,\s*const\s+T\s*&\s*second\s*,\s*typename\s+"
                      r"EpsilonType<T>::Type\s+epsilon\s*=\s*DefaultEpsilon<T>::value\(\)\s*\)\s*\{(.*)\}\s*$", body, flags=re.S)
        if not m:
            raise TranslateError("eq_t<T, %s>::eq signature changed" % st)
        stmts = [s.strip() for s in m.group(1).split(";") if s.strip()]
        stmts = [s for s in stmts if s != "using std::abs"]
        if len(stmts) != 1 or not stmts[0].startswith("return "):
            raise TranslateError("eq_t<T, %s>::eq is no longer a single return statement: %r" % (st, stmts))
        lean = to_lean(stmts[0][len("return "):], "eq_t<T,%s>::eq" % st)
        out.append("/-- `eq_t<T, %s>::eq` : `%s` -/" % (st, re.sub(r"\s+", " ", stmts[0])))
        out.append("def eq_%s (first second epsilon : K) : Bool :=\n  %s" % (st, lean))
        out.append("")
    # --- derived comparisons (templates over the style)
    for f in ("ne", "gt", "lt", "ge", "le"):
        ms = re.findall(r"template\s*<\s*class\s+T\s*,\s*CmpStyle\s+style\s*>\s*bool\s+%s\s*\(\s*const\s+T\s*&\s*first\s*,\s*const\s+T\s*&\s*second\s*,"
                        r"\s*typename\s+EpsilonType<T>::Type\s+epsilon\s*\)\s*\{(.*?)\}" % f, src, flags=re.S)
        if len(ms) != 1:
            raise TranslateError("template <class T, CmpStyle style> bool %s(...) not found exactly once" % f)
        stmts = [s.strip() for s in ms[0].split(";") if s.strip()]
        if len(stmts) != 1 or not stmts[0].startswith("return "):
            raise TranslateError("%s<T, style> is no longer a single return statement" % f)
        lean = to_lean(stmts[0][len("return "):], "%s<T,style>" % f)
        out.append("/-- `%s<T, style>` : `%s`   (`eq` = `eq<T, style>`) -/" % (f, re.sub(r"\s+", " ", stmts[0])))
        out.append("def %s (eq : K → K → K → Bool) (first second epsilon : K) : Bool :=\n  %s" % (f, lean))
        out.append("")
    out.append("end formulas")
    out.append("")
    # --- default epsilons
    out.append("/-! default epsilons `DefaultEpsilon<T, style>::value()` as exact dyadic numbers `m · 2^e` -/")
    for st in STYLES:
        ms = re.findall(r"struct\s+DefaultEpsilon\s*<\s*T\s*,\s*%s\s*>\s*\{\s*static\s+typename\s+EpsilonType<T>::Type\s+value\s*\(\s*\)\s*\{\s*return\s+(.*?);\s*\}\s*\}\s*;" % st,
                        src, flags=re.S)
        if len(ms) != 1:
            raise TranslateError("DefaultEpsilon<T, %s> not found exactly once" % st)
        vals, how = default_eps(ms[0], "DefaultEpsilon<T,%s>" % st)
        for T, _, _ in FORMATS:
            out.append("/-- %s -/" % how)
            out.append("def defaultEps_%s_%s : Dy := Dy.mk2 (%d) (%d)" % (st, T, vals[T][0], vals[T][1]))
    out.append("")
    out.append("end DV.C17.Gen")
    return [("DuneVerif/Gen/C17.lean", "\n".join(out) + "\n")]


# ---------------------------------------------------------------------------------------------------------
# round_t / trunc_t: the rounding-style dispatch (towardZero / towardInf) and the vector loops  ->  Gen/C17RT.lean
# ---------------------------------------------------------------------------------------------------------
RSTYLES = ("downward", "upward", "towardZero", "towardInf")
ZERO_TESTS = {("val", ">", "T(0)"): "gt", ("T(0)", "<", "val"): "gt", ("val", ">=", "T(0)"): "ge", ("T(0)", "<=", "val"): "ge",
              ("val", "<", "T(0)"): "lt", ("T(0)", ">", "val"): "lt", ("val", "<=", "T(0)"): "le", ("T(0)", ">=", "val"): "le"}


def _squash(x):
    return re.sub(r"\s+", "", x)


def _struct_body(src, head_re, what):
    """body of the unique struct whose head matches head_re (brace matching)"""
    ms = list(re.finditer(head_re + r"\s*\{", src))
    if len(ms) != 1:
        raise TranslateError("%s not found exactly once (%d)" % (what, len(ms)))
    i = ms[0].end()
    depth, j = 1, i
    while depth:
        if j >= len(src):
            raise TranslateError("%s: unbalanced braces" % what)
        depth += {"{": 1, "}": -1}.get(src[j], 0)
        j += 1
    return src[i:j - 1]


def _fn_body(body, fn, argtype_re, what):
    m = re.search(r"static\s+[\w:<>, ]+?\s+%s\s*\(\s*const\s+%s\s*&\s*val\s*,\s*typename\s+EpsilonType<T>::Type\s+epsilon\s*=\s*"
                  r"\(?\s*DefaultEpsilon<T,\s*cstyle>::value\(\)\s*\)?\s*\)\s*\{(.*)\}\s*$" % (fn, argtype_re), body, flags=re.S)
    if not m:
        raise TranslateError("%s: signature of %s(val, epsilon) changed" % (what, fn))
    return m.group(1)


def _callee(expr, fam, what):
    """`fam_t<I, T, cstyle, STYLE>::fam(val, epsilon)` -> STYLE"""
    m = re.fullmatch(r"%s_t<I,T,cstyle,(\w+)>::%s\(val,epsilon\)" % (fam, fam), _squash(expr))
    if not m or m.group(1) not in RSTYLES:
        raise TranslateError("%s: branch is not a call %s_t<I, T, cstyle, STYLE>::%s(val, epsilon): %r" % (what, fam, fam, expr))
    return m.group(1)


def dispatch(src, fam, rs):
    what = "%s_t<I,T,cstyle,%s>" % (fam, rs)
    body = _struct_body(src, r"template\s*<\s*class\s+I\s*,\s*class\s+T\s*,\s*CmpStyle\s+cstyle\s*>\s*struct\s+%s_t\s*<\s*I\s*,\s*T\s*,\s*cstyle\s*,\s*%s\s*>" % (fam, rs), what)
    code = _fn_body(body, fam, "T", what).strip()
    m = re.fullmatch(r"if\s*\((.*?)\)\s*\{?\s*return\s+(.*?);\s*\}?\s*else\s*\{?\s*return\s+(.*?);\s*\}?", code, flags=re.S)
    if not m:
        m = re.fullmatch(r"return\s+(.*?)\s*\?\s*(.*?)\s*(?<!:):(?!:)\s*(.*?);", code, flags=re.S)   # `:` but not `::`
        if m and re.fullmatch(r"\((.*)\)", m.group(1).strip(), flags=re.S):
            m = re.fullmatch(r"return\s+\(\s*(.*?)\s*\)\s*\?\s*(.*?)\s*(?<!:):(?!:)\s*(.*?);", code, flags=re.S)
    if not m:
        raise TranslateError("%s: body is not `if(TEST) return A; else return B;` / `return TEST ? A : B;`: %r" % (what, code))
    c = re.fullmatch(r"(val|T\(0\))(>=|<=|>|<)(val|T\(0\))", _squash(m.group(1)))
    if not c or (c.group(1), c.group(2), c.group(3)) not in ZERO_TESTS:
        raise TranslateError("%s: test %r is not a comparison of val with T(0)" % (what, m.group(1)))
    return ZERO_TESTS[(c.group(1), c.group(2), c.group(3))], _callee(m.group(2), fam, what), _callee(m.group(3), fam, what), re.sub(r"\s+", " ", code)


def vec_loop(src, fam, kind):
    """the helper class with the component loop; returns (lean definition, quoted source)"""
    if kind == "std_vec":
        head = r"template\s*<\s*class\s+I\s*,\s*class\s+T\s*,\s*CmpStyle\s+cstyle\s*,\s*RoundingStyle\s+rstyle\s*>\s*struct\s+%s_t_std_vec" % fam
        argt = r"std::vector<\s*T\s*>"
    else:
        head = r"template\s*<\s*class\s+I\s*,\s*class\s+T\s*,\s*int\s+n\s*,\s*CmpStyle\s+cstyle\s*,\s*RoundingStyle\s+rstyle\s*>\s*struct\s+%s_t_fvec" % fam
        argt = r"(?:Dune::)?FieldVector<\s*T\s*,\s*n\s*>"
    what = "%s_t_%s" % (fam, kind)
    body = _struct_body(src, head, what)
    code = _fn_body(body, fam, argt, what)
    m = re.search(r"for\s*\(", code)
    if not m:
        raise TranslateError("%s: no for loop" % what)
    pre = [_squash(x) for x in code[:m.start()].split(";") if x.strip()]
    loop = re.fullmatch(r"for\s*\(\s*(?:unsigned\s+int|int|unsigned|std::size_t|size_t)\s+i\s*=\s*(\d+)\s*;\s*i\s*(<|<=)\s*([^;]+?)\s*;\s*(\+\+i|i\+\+)\s*\)"
                        r"\s*\{?\s*res\s*\[\s*i\s*\]\s*=\s*(.*?);\s*\}?\s*return\s+res\s*;", code[m.start():].strip(), flags=re.S)
    if not loop:
        raise TranslateError("%s: loop is not `for(i = LO; i < HI; ++i) res[i] = CALL; return res;`: %r" % (what, code[m.start():]))
    lo, rel, hi, _, call = loop.groups()
    # declarations before the loop: the result has as many entries as the argument
    size_names = {"val.size()"}
    if kind == "std_vec":
        decl_ok = False
        for d in pre:
            dm = re.fullmatch(r"(?:const)?(?:unsignedint|unsigned|auto|std::size_t|size_t)(\w+)=val\.size\(\)", d)
            if dm:
                size_names.add(dm.group(1))
                continue
            rm = re.fullmatch(r"std::vector<I>res\((.+)\)", d)
            if rm and rm.group(1) in size_names:
                decl_ok = True
                continue
            raise TranslateError("%s: unknown statement before the loop: %r" % (what, d))
        if not decl_ok:
            raise TranslateError("%s: `std::vector<I> res(size)` not found" % what)
    else:
        size_names = {"n"}
        if pre != ["Dune::FieldVector<I,n>res"] and pre != ["FieldVector<I,n>res"]:
            raise TranslateError("%s: statements before the loop changed: %r" % (what, pre))
    hs = _squash(hi)
    hm = re.fullmatch(r"(.+?)(?:([-+])(\d+))?", hs)
    if hs in size_names:
        hi_lean = "val.length"
    elif hm and hm.group(1) in size_names and hm.group(2):
        hi_lean = "(val.length %s %s)" % (hm.group(2), hm.group(3))
    else:
        raise TranslateError("%s: loop bound %r is not the size of the argument (+- a constant)" % (what, hi))
    if rel == "<=":
        hi_lean = "(%s + 1)" % hi_lean
    cm = re.fullmatch(r"(round|trunc)_t<I,T,(\w+),(\w+)>::(round|trunc)\(val\[i\],(\w+)\)", _squash(call))
    if not cm or cm.group(1) != cm.group(4):
        raise TranslateError("%s: loop body is not `res[i] = X_t<I, T, CS, RS>::X(val[i], EPS)`: %r" % (what, call))
    callee, cs, rs, _, eps = cm.groups()
    cs_lean = "cstyle" if cs == "cstyle" else (".%s" % cs if cs in STYLES else None)
    rs_lean = "rstyle" if rs == "rstyle" else (".%s" % rs if rs in RSTYLES else None)
    if cs_lean is None or rs_lean is None or eps != "epsilon":
        raise TranslateError("%s: styles / epsilon passed to the component call changed: %r" % (what, call))
    lean = ("def %s_t_%s (round_t trunc_t : Style → RStyle → K → K → Int) (cstyle : Style) (rstyle : RStyle) (val : List K) (epsilon : K) : List Int :=\n"
            "  fillLoop val.length %s %s (fun i => %s_t %s %s (val.getD i 0) epsilon)" % (fam, kind, lo, hi_lean, callee, cs_lean, rs_lean))
    return lean, re.sub(r"\s+", " ", code.strip())


def vec_specialisations(src, fam, kind):
    """round_t<std::vector<I>, std::vector<T>, cstyle, RS> : round_t_std_vec<I, T, cstyle, RS'> {}  ->  RS -> RS'"""
    tab = {}
    for rs in RSTYLES:
        if kind == "std_vec":
            pat = (r"template\s*<\s*class\s+I\s*,\s*class\s+T\s*,\s*CmpStyle\s+cstyle\s*>\s*struct\s+%s_t\s*<\s*std::vector<\s*I\s*>\s*,\s*std::vector<\s*T\s*>\s*,\s*cstyle\s*,\s*%s\s*>"
                   r"\s*:\s*(?:public\s+)?(\w+)\s*<\s*I\s*,\s*T\s*,\s*cstyle\s*,\s*(\w+)\s*>\s*\{\s*\}\s*;" % (fam, rs))
        else:
            pat = (r"template\s*<\s*class\s+I\s*,\s*class\s+T\s*,\s*int\s+n\s*,\s*CmpStyle\s+cstyle\s*>\s*struct\s+%s_t\s*<\s*(?:Dune::)?FieldVector<\s*I\s*,\s*n\s*>\s*,\s*(?:Dune::)?FieldVector<\s*T\s*,\s*n\s*>\s*,\s*cstyle\s*,\s*%s\s*>"
                   r"\s*:\s*(?:public\s+)?(\w+)\s*<\s*I\s*,\s*T\s*,\s*n\s*,\s*cstyle\s*,\s*(\w+)\s*>\s*\{\s*\}\s*;" % (fam, rs))
        ms = re.findall(pat, src)
        if len(ms) != 1:
            raise TranslateError("%s_t<%s of I, %s of T, cstyle, %s> : helper<...> {} not found exactly once (the vector overloads of round/trunc "
                                 "cannot be instantiated without it, see fixes/C17_vector_round_trunc.patch)" % (fam, kind, kind, rs))
        helper, to = ms[0]
        m = re.fullmatch(r"(round|trunc)_t_(std_vec|fvec)", helper)
        if not m or to not in RSTYLES:
            raise TranslateError("%s_t vector specialisation for %s derives from %s<.., %s>" % (fam, rs, helper, to))
        tab[rs] = (helper, to)
    return tab


def translate_rt(repo):
    """the rounding-style dispatch of round_t / trunc_t  ->  Gen/C17RT.lean"""
    src = strip_comments(open(os.path.join(repo, "dune/common/float_cmp.cc")).read())
    out = ["-- GENERATED by tools/translators/tr_c17.py from dune/common/float_cmp.cc (round_t / trunc_t) -- do not edit",
           "import DuneVerif.Model.C17",
           "namespace DV.C17.GenRT",
           "open DV.C17",
           "",
           "/-! the specialisations of `round_t` / `trunc_t` that only dispatch on the sign of the argument -/"]
    for fam in ("round", "trunc"):
        for rs in ("towardZero", "towardInf"):
            test, a, b, code = dispatch(src, fam, rs)
            out.append("/-- `%s_t<I, T, cstyle, %s>::%s` : `%s` -/" % (fam, rs, fam, code))
            out.append("def %s_%s : Dispatch := ⟨.%s, .%s, .%s⟩" % (fam, rs, test, a, b))
    out += ["", "end DV.C17.GenRT"]
    return [("DuneVerif/Gen/C17RT.lean", "\n".join(out) + "\n")]


def translate_vec(repo):
    """the component loops of the vector overloads of round / trunc  ->  Gen/C17Vec.lean"""
    src = strip_comments(open(os.path.join(repo, "dune/common/float_cmp.cc")).read())
    out = ["-- GENERATED by tools/translators/tr_c17.py from dune/common/float_cmp.cc (vector overloads of round_t / trunc_t) -- do not edit",
           "import DuneVerif.Model.C17",
           "namespace DV.C17.GenVec",
           "open DV.C17",
           "",
           "set_option linter.unusedVariables false",
           "variable {K : Type} [Zero K]", "",
           "/-! the component loops of the vector overloads and the specialisations of `round_t` / `trunc_t` that derive from them -/"]
    for fam in ("round", "trunc"):
        for kind in ("std_vec", "fvec"):
            lean, code = vec_loop(src, fam, kind)
            out.append("/-- `%s_t_%s<…>::%s` : `%s` -/" % (fam, kind, fam, code))
            out.append(lean)
            tab = vec_specialisations(src, fam, kind)
            out.append("/-- `%s_t<%s, cstyle, rstyle>` for the four rounding styles: the helper each specialisation derives from -/" % (fam, "std::vector<I>, std::vector<T>" if kind == "std_vec" else "FieldVector<I,n>, FieldVector<T,n>"))
            out.append("def %s_%s (round_t trunc_t : Style → RStyle → K → K → Int) (cstyle : Style) : RStyle → List K → K → List Int" % (fam, kind))
            for rs in RSTYLES:
                helper, to = tab[rs]
                out.append("  | .%s => %s round_t trunc_t cstyle .%s" % (rs, helper, to))
            out.append("")
    out += ["end DV.C17.GenVec"]
    return [("DuneVerif/Gen/C17Vec.lean", "\n".join(out) + "\n")]


# ---------------------------------------------------------------------------------------------------------
# eq_t_std_vec / eq_t_fvec: the component loops of the vector comparisons and the derived eq_t specialisations -> Gen/C17EqVec.lean
# ---------------------------------------------------------------------------------------------------------
def eqvec_loop(src, kind):
    what = "eq_t_%s" % kind
    if kind == "std_vec":
        head = r"template\s*<\s*class\s+T\s*,\s*CmpStyle\s+cstyle\s*>\s*struct\s+eq_t_std_vec"
    else:
        head = r"template\s*<\s*class\s+T\s*,\s*int\s+n\s*,\s*CmpStyle\s+cstyle\s*>\s*struct\s+eq_t_fvec"
    body = _struct_body(src, head, what)
    m = re.search(r"static\s+bool\s+eq\s*\(\s*const\s+V\s*&\s*first\s*,\s*const\s+V\s*&\s*second\s*,\s*typename\s+EpsilonType<V>::Type\s+epsilon\s*=\s*"
                  r"DefaultEpsilon<V>::value\(\)\s*\)\s*\{(.*)\}\s*$", body, flags=re.S)
    td = re.search(r"typedef\s+(.*?)\s+V\s*;|using\s+V\s*=\s*(.*?)\s*;", body)
    want = "std::vector<T>" if kind == "std_vec" else "FieldVector<T,n>"
    if not m or not td or _squash(td.group(1) or td.group(2)).replace("Dune::", "") != want:
        raise TranslateError("%s: typedef V / signature of eq(first, second, epsilon) changed" % what)
    code = m.group(1)
    fm = re.search(r"for\s*\(", code)
    if not fm:
        raise TranslateError("%s: no for loop" % what)
    pre = [_squash(x) for x in code[:fm.start()].split(";") if x.strip()]
    loop = re.fullmatch(r"for\s*\(\s*(?:unsigned\s+int|int|unsigned|std::size_t|size_t)\s+i\s*=\s*(\d+)\s*;\s*i\s*(<|<=)\s*([^;]+?)\s*;\s*(\+\+i|i\+\+)\s*\)"
                        r"\s*\{?\s*if\s*\(\s*!\s*(.*?)\)\s*\{?\s*return\s+false\s*;\s*\}?\s*\}?\s*return\s+true\s*;", code[fm.start():].strip(), flags=re.S)
    if not loop:
        raise TranslateError("%s: loop is not `for(i = LO; i < HI; ++i) if(!CALL) return false; return true;`: %r" % (what, code[fm.start():]))
    lo, rel, hi, _, call = loop.groups()
    size_names = {"first.size()"}
    sizecheck = False
    if kind == "std_vec":
        for d in pre:
            dm = re.fullmatch(r"(?:const)?(?:unsignedint|unsigned|auto|std::size_t|size_t)(\w+)=first\.size\(\)", d)
            if dm:
                size_names.add(dm.group(1))
                continue
            cm = re.fullmatch(r"if\((.+?)!=(.+?)\)returnfalse", d)
            if cm and ((cm.group(1) in size_names and cm.group(2) == "second.size()") or (cm.group(2) in size_names and cm.group(1) == "second.size()")):
                sizecheck = True
                continue
            raise TranslateError("%s: unknown statement before the loop: %r" % (what, d))
    else:
        size_names = {"n"}
        if pre:
            raise TranslateError("%s: statements before the loop: %r" % (what, pre))
    hs = _squash(hi)
    hm = re.fullmatch(r"(.+?)(?:([-+])(\d+))?", hs)
    if hs in size_names:
        hi_lean = "first.length"
    elif hm and hm.group(1) in size_names and hm.group(2):
        hi_lean = "(first.length %s %s)" % (hm.group(2), hm.group(3))
    else:
        raise TranslateError("%s: loop bound %r is not the size of the first operand (+- a constant)" % (what, hi))
    if rel == "<=":
        hi_lean = "(%s + 1)" % hi_lean
    cm = re.fullmatch(r"eq_t<T,(\w+)>::eq\((first|second)\[i\],(first|second)\[i\],(\w+)\)", _squash(call))
    if not cm or cm.group(2) == cm.group(3) or cm.group(4) != "epsilon":
        raise TranslateError("%s: loop test is not `!eq_t<T, CS>::eq(first[i], second[i], epsilon)`: %r" % (what, call))
    cs = cm.group(1)
    cs_lean = "cstyle" if cs == "cstyle" else (".%s" % cs if cs in STYLES else None)
    if cs_lean is None:
        raise TranslateError("%s: style passed to the component comparison: %r" % (what, cs))
    test = "allLoop %s %s (fun i => eq_t %s (%s.getD i 0) (%s.getD i 0) epsilon)" % (lo, hi_lean, cs_lean, cm.group(2), cm.group(3))
    if sizecheck:
        test = "if first.length != second.length then false else\n  " + test
    lean = ("def eq_t_%s (eq_t : Style → K → K → K → Bool) (cstyle : Style) (first second : List K) (epsilon : K) : Bool :=\n  %s" % (kind, test))
    return lean, re.sub(r"\s+", " ", code.strip())


def eqvec_specialisations(src, kind):
    tab = {}
    for st in STYLES:
        if kind == "std_vec":
            pat = (r"template\s*<\s*class\s+T\s*>\s*struct\s+eq_t\s*<\s*std::vector<\s*T\s*>\s*,\s*%s\s*>\s*:\s*(?:public\s+)?(\w+)\s*<\s*T\s*,\s*(\w+)\s*>\s*\{\s*\}\s*;" % st)
        else:
            pat = (r"template\s*<\s*class\s+T\s*,\s*int\s+n\s*>\s*struct\s+eq_t\s*<\s*(?:Dune::)?FieldVector<\s*T\s*,\s*n\s*>\s*,\s*%s\s*>\s*:\s*(?:public\s+)?(\w+)\s*<\s*T\s*,\s*n\s*,\s*(\w+)\s*>\s*\{\s*\}\s*;" % st)
        ms = re.findall(pat, src)
        if len(ms) != 1:
            raise TranslateError("eq_t<%s of T, %s> : helper<...> {} not found exactly once" % (kind, st))
        helper, to = ms[0]
        if helper != "eq_t_%s" % kind or to not in STYLES:
            raise TranslateError("eq_t vector specialisation for %s derives from %s<.., %s>" % (st, helper, to))
        tab[st] = to
    return tab


def translate_eqvec(repo):
    src = strip_comments(open(os.path.join(repo, "dune/common/float_cmp.cc")).read())
    out = ["-- GENERATED by tools/translators/tr_c17.py from dune/common/float_cmp.cc (vector overloads of eq_t) -- do not edit",
           "import DuneVerif.Model.C17",
           "namespace DV.C17.GenEqVec",
           "open DV.C17",
           "",
           "variable {K : Type} [Zero K]", ""]
    for kind in ("std_vec", "fvec"):
        lean, code = eqvec_loop(src, kind)
        out.append("/-- `eq_t_%s<…>::eq` : `%s` -/" % (kind, code))
        out.append(lean)
        tab = eqvec_specialisations(src, kind)
        out.append("/-- `eq_t<%s, style>` for the three compare styles: the helper each specialisation derives from -/" % ("std::vector<T>" if kind == "std_vec" else "FieldVector<T,n>"))
        out.append("def eq_%s (eq_t : Style → K → K → K → Bool) : Style → List K → List K → K → Bool" % kind)
        for st in STYLES:
            out.append("  | .%s => eq_t_%s eq_t .%s" % (st, kind, tab[st]))
        out.append("")
    out += ["end DV.C17.GenEqVec"]
    return [("DuneVerif/Gen/C17EqVec.lean", "\n".join(out) + "\n")]


if __name__ == "__main__":
    import sys
    repo = sys.argv[1] if len(sys.argv) > 1 else "/repo"
    for p, c in translate(repo) + translate_rt(repo) + translate_eqvec(repo) + translate_vec(repo):
        print("-----", p)
        print(c)
