"""Translator for C06 (VariableSizeCommunicator): regenerates lean/DuneVerif/Gen/C06.lean from
dune/common/parallel/variablesizecommunicator.hh on every run.

What is read (comments and preprocessor lines removed, bodies found by brace matching, statements and expressions parsed
by a small recursive-descent parser - formatting, renaming of parameters/locals and commuted operands do not matter):

  MessageBuffer      hasSpaceForItems (the comparison), reset (the value position_ gets), write/read (shape only)
  InterfaceTracker   finished, empty, indicesLeft, offset (single-return expressions over index_, interface_.size(),
                     sizes_.size()), skipZeroIndices (loop condition and step), moveToNextIndex and increment (statement
                     sequence over index_ / skipZeroIndices()), index()/size() (shape only)
  PackEntries        the whole body: branch condition, `noIndices`, loop bounds, loop conditions incl. the
                     `if(hasSpaceForItems(..)) .. else break` test, the statements of the loop bodies in their order,
                     the returned count (helper member functions are inlined)
  UnpackEntries      the same (fixed and variable branch, the arguments of every scatter call)
  UnpackSizeEntries  noIndices, source/destination/length of the std::copy, the increment
  SetupSendRequest   reset, the PackEntries call, the skip loop (condition, body), the guard and the count of MPI_Issend
  SetupRecvRequest   reset / skipZeroIndices in their order, the guard and the count of MPI_Irecv
  tags               of the data MPI_Issend/MPI_Irecv and of the scalar ones in sendFixedSize, the scalar counts
  buffers            the size argument of every MessageBuffer<..>(..) constructed in communicateFixedSize,
                     communicateSizes and communicateVariableSize
  default size       the numeric maxBufferSize_ initialisers of the constructors
  progress loops     (data) which counter is initialised by count_if over which request vector, which wrapper passes
                     which functors/flags to checkAndContinue

Every function body is translated into a Lean definition over the model's primitives (Model/C06.lean, Model/C06Src.lean);
Props/C06.lean proves, for all inputs, that the generated definitions equal the hand-written model functions the delivery
and termination theorems are about (`src_*` theorems) - so those theorems are re-checked against what the source says now.
Anything outside the grammar (unknown statement, unknown identifier, other loop shape) raises TranslateError = a broken
obligation; check.py then searches for a failing input.

Tolerance (round five; every rule is a semantic identity of the C++ subset, nothing is guessed):
  * statements that follow an `if` are continued into both arms: guard clause = if/else, common tail = duplicated tail;
    `...; if(c) return; S;` at the end of a void functor = `...; if(!c) S;`; `if(c) return a; return b;` in an accessor =
    `return c ? a : b;`
  * loops: `while(c) if(d) S else break` = `while(c && d) S`; counted `for` ascending or descending by one with an unused
    counter and a loop-invariant bound (literal / unmodified local / parameter) = trip count; every other
    `for(init; c; step) body` = `init; while(c) { body; step; }`.  Loop conditions and bodies are emitted as local lambdas
    (closures over the enclosing function's locals); Proofs/C06Tie.lean replaces them by canonical ones with
    `loopG_congr`, so their spelling (order of independent statements, hoisted values, `a+b` vs `b+a`) does not matter
  * an integral local that is never modified afterwards (assignment, op=, ++/--, address taken all count as modification)
    is a Lean `let` with the value of its initialiser at the point of declaration (also inside loop bodies); shadowing and
    reference locals are errors
  * a call `helper(a, b, c)` of another member function of the same functor with plain names as arguments is inlined
    (the helper must not assign to its parameters)
  * checkAndContinue: the loop over the completed requests may be an iterator loop or an index loop (bound `indices.size()`
    or a local initialised with it, never the counter the body decrements); `*it` / `indices[k]` and `it-indices.begin()` /
    `k` get canonical names, references to trackers[i] / buffers[i] / requests2[i] / statuses[k] and unmodified copies of i / k
    are substituted before the shape checks
  * setupInterfaceTrackers: iterator loop or range-for over `*interface_`, `x->second` = `x.second`, typedef/using for the
    chooser, `const&` locals for the two index lists, unmodified locals before the loop
  * communicateFixedSize: the empty-tracker reduction as iterator / index / range-for loop or `c -= std::count_if(.., empty)`
  * InterfaceTracker accessors may be written through each other (emitted in dependency order); `increment(e)` inside
    moveToNextIndex; `std::copy_n` for `std::copy`; `sizes_.empty()`; `this->`; functional / static casts between integral
    types (values are read as naturals without wrap-around)
"""
import os
import re


class TranslateError(Exception):
    pass


SRC = "dune/common/parallel/variablesizecommunicator.hh"


# ------------------------------------------------------------------------------------------------------------------
# text level
def _strip(src):
    src = re.sub(r"/\*.*?\*/", " ", src, flags=re.S)
    src = re.sub(r"//[^\n]*", "", src)
    return "\n".join(l for l in src.split("\n") if not l.lstrip().startswith("#"))


def _match(s, i, o="{", c="}"):
    depth = 0
    for j in range(i, len(s)):
        if s[j] == o:
            depth += 1
        elif s[j] == c:
            depth -= 1
            if depth == 0:
                return j
    raise TranslateError("unbalanced " + o)


def _norm(text):
    text = text.replace("[[maybe_unused]]", " ")
    text = re.sub(r"\bthis\s*->\s*", "", text)
    text = re.sub(r"\(\s*\*\s*this\s*\)\s*\.\s*", "", text)
    text = re.sub(r"std\s*::\s*min\s*<[^<>]*>", "std::min", text)
    text = re.sub(r"std\s*::\s*max\s*<[^<>]*>", "std::max", text)
    text = re.sub(r"static_cast\s*<[^<>()]*>", " ", text)
    text = re.sub(r"MPITraits\s*<[^;]*?>\s*::\s*getType\s*\(\s*\)", "MPITYPE", text)
    text = re.sub(r"\b(\w+)\s*<[^;()]*?>\s*\(\s*\)\s*\(", r"\1(", text)   # Functor<T>()( -> Functor(
    return text


def _region(src, rx, what):
    m = re.search(rx, src)
    if not m:
        raise TranslateError("not found: " + what)
    i = src.index("{", m.end() - 1)
    return src[i + 1:_match(src, i)], m


def _params(text):
    out, depth, cur = [], 0, ""
    for ch in text:
        if ch in "(<[":
            depth += 1
        elif ch in ")>]":
            depth -= 1
        if ch == "," and depth == 0:
            out.append(cur)
            cur = ""
        else:
            cur += ch
    if cur.strip():
        out.append(cur)
    names = []
    for p in out:
        p = p.split("=")[0]
        ids = re.findall(r"[A-Za-z_]\w*", p)
        names.append(ids[-1] if ids else "")
    return names


def _member(cls_body, name, what, pick=None):
    """(parameter names, normalised body) of member function `name`; `pick` chooses among overloads"""
    found = []
    for m in re.finditer(r"(?<![\w~])" + name + r"\s*\(", cls_body):
        j = _match(cls_body, m.end() - 1, "(", ")")
        rest = cls_body[j + 1:]
        mm = re.match(r"\s*(?:const\b)?\s*(?:noexcept\b)?\s*\{", rest)
        if not mm:
            continue
        k = j + 1 + mm.end() - 1
        e = _match(cls_body, k)
        found.append((_params(cls_body[m.end():j]), _norm(cls_body[k + 1:e])))
    if pick:
        found = [f for f in found if pick(f)]
    if len(found) != 1:
        raise TranslateError("%s: expected one definition, found %d" % (what, len(found)))
    return found[0]


# ------------------------------------------------------------------------------------------------------------------
# tokens, expressions, statements
_TOK = re.compile(r"\s*(?:(\d+)[uUlL]*|([A-Za-z_]\w*(?:\s*::\s*[A-Za-z_]\w*)*)|"
                  r"(\+\+|--|\+=|-=|\*=|/=|==|!=|<=|>=|&&|\|\||->|[-+*/%<>=!&|(){}\[\];,.?:~]))")


def _tokens(text):
    out, i = [], 0
    text = text.rstrip()
    while i < len(text):
        m = _TOK.match(text, i)
        if not m:
            if text[i:].strip() == "":
                break
            raise TranslateError("cannot tokenise near %r" % text[i:i + 30])
        if m.group(1) is not None:
            out.append(("num", int(m.group(1))))
        elif m.group(2) is not None:
            out.append(("id", re.sub(r"\s+", "", m.group(2))))
        else:
            out.append(("op", m.group(3)))
        i = m.end()
    return out


_TYPES = {"int", "std::size_t", "size_t", "bool", "auto", "unsigned", "long", "std::ptrdiff_t", "short"}


class _P:
    def __init__(self, toks, general_decl=False):
        self.t, self.i = toks, 0
        self.general_decl = general_decl

    def _try_general_decl(self, j):
        """`[const] Type[<..>][::name]* [const] [&|*] name` followed by `=`, `(` or `;` starting at token j ->
        (name, index of the token after the name, is it a reference/pointer?) or None"""
        t = self.t

        def tok(k):
            return t[k] if k < len(t) else ("eof", None)
        if tok(j)[0] != "id" or tok(j)[1] in ("return", "if", "while", "for", "else", "break", "do", "delete", "new", "throw"):
            return None
        k = j + 1
        if tok(k) == ("op", "<"):
            depth = 0
            while True:
                if tok(k)[0] == "eof" or tok(k) in (("op", ";"), ("op", "{"), ("op", "}")):
                    return None
                if tok(k) == ("op", "<"):
                    depth += 1
                elif tok(k) == ("op", ">"):
                    depth -= 1
                    if depth == 0:
                        break
                k += 1
            k += 1
            while tok(k) == ("op", ":") and tok(k + 1) == ("op", ":") and tok(k + 2)[0] == "id":
                k += 3
        ref = False
        while tok(k) in (("id", "const"), ("op", "&"), ("op", "*")):
            ref = ref or tok(k)[0] == "op"
            k += 1
        if tok(k)[0] != "id" or k == j + 1 and False:
            return None
        if k == j:
            return None
        name = tok(k)[1]
        if tok(k + 1) not in (("op", "="), ("op", "("), ("op", ";")) or "::" in name:
            return None
        if k == j + 1 or ref or tok(j + 1) == ("op", "<"):
            return name, k + 1, ref
        return None

    def peek(self, k=0):
        return self.t[self.i + k] if self.i + k < len(self.t) else ("eof", None)

    def isop(self, *ops):
        p = self.peek()
        return p[0] == "op" and p[1] in ops

    def eat(self, op):
        if not self.isop(op):
            raise TranslateError("expected %r, found %r" % (op, self.peek()[1]))
        self.i += 1

    # expressions -------------------------------------------------------------------------
    def expr(self):
        lhs = self.cond()
        if self.isop("=", "+=", "-=", "*=", "/="):
            op = self.peek()[1]
            self.i += 1
            return ("asg", op, lhs, self.expr())
        return lhs

    def cond(self):
        c = self.binary(0)
        if self.isop("?"):
            self.i += 1
            a = self.expr()
            self.eat(":")
            return ("cond", c, a, self.cond())
        return c

    LEVELS = [("||",), ("&&",), ("==", "!="), ("<", "<=", ">", ">="), ("+", "-"), ("*", "/", "%")]

    def binary(self, lvl):
        if lvl == len(self.LEVELS):
            return self.unary()
        a = self.binary(lvl + 1)
        while self.isop(*self.LEVELS[lvl]):
            op = self.peek()[1]
            self.i += 1
            a = ("bin", op, a, self.binary(lvl + 1))
        return a

    def unary(self):
        if self.isop("!", "-", "+", "++", "--", "*", "&"):
            op = self.peek()[1]
            self.i += 1
            return ("un", op, self.unary())
        return self.postfix()

    def postfix(self):
        p = self.peek()
        if p[0] == "num":
            self.i += 1
            e = ("num", p[1])
        elif p[0] == "id":
            self.i += 1
            e = ("id", p[1])
        elif self.isop("("):
            self.i += 1
            e = self.expr()
            self.eat(")")
        else:
            raise TranslateError("unexpected token %r in expression" % (p[1],))
        while True:
            if self.isop("("):
                self.i += 1
                args = []
                if not self.isop(")"):
                    args.append(self.expr())
                    while self.isop(","):
                        self.i += 1
                        args.append(self.expr())
                self.eat(")")
                e = ("call", e, args)
            elif self.isop(".", "->"):
                self.i += 1
                n = self.peek()
                if n[0] != "id":
                    raise TranslateError("member name expected")
                self.i += 1
                e = ("mem", e, n[1])
            elif self.isop("["):
                self.i += 1
                ix = self.expr()
                self.eat("]")
                e = ("idx", e, ix)
            elif self.isop("++", "--"):
                op = self.peek()[1]
                self.i += 1
                e = ("post", op, e)
            else:
                return e

    # statements --------------------------------------------------------------------------
    def block_items(self):
        out = []
        while not self.isop("}") and self.peek()[0] != "eof":
            out.append(self.stmt())
        return out

    def stmt(self):
        p = self.peek()
        if self.isop("{"):
            self.i += 1
            items = self.block_items()
            self.eat("}")
            return ("block", items)
        if self.isop(";"):
            self.i += 1
            return ("block", [])
        if p[0] == "id" and p[1] == "if":
            self.i += 1
            self.eat("(")
            c = self.expr()
            self.eat(")")
            th = self.stmt()
            el = None
            if self.peek() == ("id", "else"):
                self.i += 1
                el = self.stmt()
            return ("if", c, th, el)
        if p[0] == "id" and p[1] == "while":
            self.i += 1
            self.eat("(")
            c = self.expr()
            self.eat(")")
            return ("while", c, self.stmt())
        if p[0] == "id" and p[1] == "for":
            self.i += 1
            self.eat("(")
            init = None if self.isop(";") else self.simple()
            self.eat(";")
            c = None if self.isop(";") else self.expr()
            self.eat(";")
            step = None if self.isop(")") else self.expr()
            self.eat(")")
            return ("for", init, c, step, self.stmt())
        if p[0] == "id" and p[1] == "return":
            self.i += 1
            e = None if self.isop(";") else self.expr()
            self.eat(";")
            return ("return", e)
        if p[0] == "id" and p[1] == "break":
            self.i += 1
            self.eat(";")
            return ("break",)
        if p[0] == "id" and p[1] in ("do", "switch", "goto", "continue", "try", "throw"):
            raise TranslateError("statement '%s' is outside the translator's grammar" % p[1])
        s = self.simple()
        self.eat(";")
        return s

    def simple(self):
        """declaration `T x = e` / `T x(e)` or expression statement"""
        j = self.i
        while self.peek(j - self.i) in (("id", "const"), ("id", "constexpr"), ("id", "static")):
            j += 1
        t0 = self.t[j] if j < len(self.t) else ("eof", None)
        t1 = self.t[j + 1] if j + 1 < len(self.t) else ("eof", None)
        if t0[0] == "id" and t0[1] in _TYPES and t1[0] == "id":
            # possibly `unsigned int x`, `long long x`
            k = j + 1
            while self.t[k][0] == "id" and self.t[k][1] in _TYPES and self.t[k + 1][0] == "id":
                k += 1
            name = self.t[k][1]
            self.i = k + 1
            init = None
            if self.isop("="):
                self.i += 1
                init = self.expr()
            elif self.isop("("):
                self.i += 1
                init = self.expr()
                self.eat(")")
            return ("decl", name, init)
        if self.general_decl:
            g = self._try_general_decl(j)
            if g is not None:
                name, self.i, ref = g
                init = None
                if self.isop("="):
                    self.i += 1
                    init = self.expr()
                elif self.isop("("):
                    self.i += 1
                    init = self.expr()
                    self.eat(")")
                return ("decl", name, init, ref)
        return ("expr", self.expr())


def _parse_body(text, general_decl=False):
    p = _P(_tokens(text), general_decl)
    items = p.block_items()
    if p.peek()[0] != "eof":
        raise TranslateError("trailing tokens in function body")
    return _flat(items)


def _flat(items):
    out = []
    for s in items:
        if s[0] == "block":
            out.extend(_flat(s[1]))
        else:
            out.append(s)
    return out


def _unblock(s):
    """statement -> list of statements"""
    return _flat([s])


def key(e):
    k = e[0]
    if k == "num":
        return str(e[1])
    if k == "id":
        return e[1]
    if k == "call":
        return key(e[1]) + "(" + ",".join(key(a) for a in e[2]) + ")"
    if k == "mem":
        return key(e[1]) + "." + e[2]
    if k == "idx":
        return key(e[1]) + "[" + key(e[2]) + "]"
    if k == "un":
        return e[1] + key(e[2])
    if k == "post":
        return key(e[1]) + e[1 + 0] if False else key(e[2]) + e[1]
    if k == "bin":
        return "(" + key(e[2]) + e[1] + key(e[3]) + ")"
    if k == "asg":
        return key(e[2]) + e[1] + key(e[3])
    if k == "cond":
        return "(" + key(e[1]) + "?" + key(e[2]) + ":" + key(e[3]) + ")"
    raise TranslateError("key: " + repr(e))


def _is_assert(s):
    return s[0] == "expr" and s[1][0] == "call" and s[1][1] == ("id", "assert")


# ------------------------------------------------------------------------------------------------------------------
# expression -> Lean
class Env:
    def __init__(self, atoms=None, fns=None):
        self.atoms = dict(atoms or {})   # key -> (lean, "nat"|"bool")
        self.fns = dict(fns or {})       # key of callee -> function(list of (lean, ty)) -> (lean, ty)

    def child(self):
        return Env(self.atoms, self.fns)


def nat(x):
    return x[0] if x[1] == "nat" else "(if %s then 1 else 0)" % x[0]


def boo(x):
    return x[0] if x[1] == "bool" else "(decide (%s ≠ 0))" % x[0]


_CMP = {"==": "=", "!=": "≠", "<": "<", "<=": "≤", ">": ">", ">=": "≥"}


def conv(e, env):
    k = key(e)
    if k in env.atoms:
        return env.atoms[k]
    t = e[0]
    if t == "num":
        return (str(e[1]), "nat")
    if t == "id":
        if e[1] in ("true", "false"):
            return (e[1], "bool")
        raise TranslateError("unknown identifier '%s'" % e[1])
    if t == "bin":
        op = e[1]
        a, b = conv(e[2], env), conv(e[3], env)
        if op in ("+", "-", "*", "/", "%"):
            return ("(%s %s %s)" % (nat(a), op, nat(b)), "nat")
        if op in _CMP:
            if a[1] == "bool" and b[1] == "bool" and op in ("==", "!="):
                return ("(%s %s %s)" % (a[0], "==" if op == "==" else "!=", b[0]), "bool")
            return ("(decide (%s %s %s))" % (nat(a), _CMP[op], nat(b)), "bool")
        if op == "&&":
            return ("(%s && %s)" % (boo(a), boo(b)), "bool")
        if op == "||":
            return ("(%s || %s)" % (boo(a), boo(b)), "bool")
    if t == "un" and e[1] == "!":
        return ("(!%s)" % boo(conv(e[2], env)), "bool")
    if t == "un" and e[1] == "+":
        return conv(e[2], env)
    if t == "cond":
        c, a, b = conv(e[1], env), conv(e[2], env), conv(e[3], env)
        if a[1] == "bool" and b[1] == "bool":
            return ("(if %s then %s else %s)" % (boo(c), a[0], b[0]), "bool")
        return ("(if %s then %s else %s)" % (boo(c), nat(a), nat(b)), "nat")
    if t == "call":
        ck = key(e[1])
        if ck in env.fns:
            return env.fns[ck]([conv(a, env) for a in e[2]])
        raise TranslateError("unknown call '%s'" % k)
    raise TranslateError("expression outside the grammar: %s" % k)


def _minmax(name):
    def f(args):
        if len(args) != 2:
            raise TranslateError("std::%s with %d arguments" % (name, len(args)))
        return ("(%s %s %s)" % (name, nat(args[0]), nat(args[1])), "nat")
    return f


def _cast(args):
    """functional cast to an integral type `std::size_t(x)`, `int(x)` (values are read as naturals without wrap-around)"""
    if len(args) != 1:
        raise TranslateError("cast with %d arguments" % len(args))
    return (nat(args[0]), "nat")


_STD = {"std::min": _minmax("min"), "std::max": _minmax("max"), "min": _minmax("min"), "max": _minmax("max"),
        "std::size_t": _cast, "size_t": _cast, "int": _cast, "unsigned": _cast, "long": _cast, "std::ptrdiff_t": _cast}


def _leaf(body, env, what):
    """`[T x = e;]* return e;` -> converted e.  `if(c) return a; [else] return b;` is read as `return c ? a : b;`"""
    env = env.child()
    st = [s for s in _parse_body(body) if not _is_assert(s)]
    i = 0
    while i < len(st) and st[i][0] == "decl":
        s = st[i]
        if s[2] is None or len(s) > 3:
            raise TranslateError("%s: only initialised value declarations may precede the return" % what)
        if s[1] in env.atoms or any(_mods(r, s[1]) for r in st[i + 1:]):
            raise TranslateError("%s: local '%s' shadows a name or is modified" % (what, s[1]))
        env.atoms[s[1]] = conv(s[2], env)
        i += 1

    def tail(rest):
        if not rest:
            raise TranslateError("%s: body does not end in `return <expr>;`" % what)
        s = rest[0]
        if s[0] == "return" and s[1] is not None:
            return s[1]
        if s[0] == "if":
            th = [x for x in _unblock(s[2]) if not _is_assert(x)]
            el = [x for x in _unblock(s[3]) if not _is_assert(x)] if s[3] is not None else []
            return ("cond", s[1], tail(th), tail(el if _returns(el) else el + rest[1:]))
        raise TranslateError("%s: only declarations may precede the return" % what)
    return conv(tail(st[i:]), env)


def _inc_of(e, var):
    """if expression e increments `var`, the increment (AST), else None"""
    if e[0] in ("post", "un") and e[1] == "++" and key(e[2]) == var:
        return ("num", 1)
    if e[0] == "asg" and key(e[2]) == var:
        if e[1] == "+=":
            return e[3]
        if e[1] == "=" and e[3][0] == "bin" and e[3][1] == "+":
            if key(e[3][2]) == var:
                return e[3][3]
            if key(e[3][3]) == var:
                return e[3][2]
    return None


# ------------------------------------------------------------------------------------------------------------------
# MessageBuffer / InterfaceTracker
def _message_buffer(src, out):
    cls, _ = _region(src, r"class\s+MessageBuffer\b[^;{]*\{", "class MessageBuffer")
    ps, body = _member(cls, "hasSpaceForItems", "MessageBuffer::hasSpaceForItems")
    if len(ps) != 1:
        raise TranslateError("hasSpaceForItems: one parameter expected")
    env = Env({"position_": ("position", "nat"), "size_": ("size", "nat"), ps[0]: ("noItems", "nat")}, _STD)
    out.append("/-- `MessageBuffer::hasSpaceForItems` -/")
    out.append("def hasSpaceForItems (position size noItems : Nat) : Bool := " + boo(_leaf(body, env, "hasSpaceForItems")))
    ps, body = _member(cls, "reset", "MessageBuffer::reset")
    st = _parse_body(body)
    if len(st) != 1 or st[0][0] != "expr" or st[0][1][0] != "asg" or st[0][1][1] != "=" or key(st[0][1][2]) != "position_":
        raise TranslateError("MessageBuffer::reset: `position_ = <expr>;` expected")
    out.append("/-- `MessageBuffer::reset`: the new value of `position_` -/")
    out.append("def resetPosition : Nat := " + nat(conv(st[0][1][3], Env({"size_": ("size", "nat")}))))
    # write / read: shape only
    ps, body = _member(cls, "write", "MessageBuffer::write")
    ks = [key(s[1]) for s in _parse_body(body) if s[0] == "expr"]
    d = ps[0] if ps else "?"
    if ks not in (["buffer_[position_++]=" + d], ["buffer_[position_]=" + d, "++position_"],
                  ["buffer_[position_]=" + d, "position_++"], ["buffer_[position_]=" + d, "position_+=1"]):
        raise TranslateError("MessageBuffer::write: unexpected body %r" % ks)
    ps, body = _member(cls, "read", "MessageBuffer::read")
    ks = [key(s[1]) for s in _parse_body(body) if s[0] == "expr"]
    d = ps[0] if ps else "?"
    if ks not in ([d + "=buffer_[position_++]"], [d + "=buffer_[position_]", "++position_"],
                  [d + "=buffer_[position_]", "position_++"], [d + "=buffer_[position_]", "position_+=1"]):
        raise TranslateError("MessageBuffer::read: unexpected body %r" % ks)
    ps, body = _member(cls, "size", "MessageBuffer::size")
    if _leaf(body, Env({"size_": ("size", "nat")}), "MessageBuffer::size")[0] != "size":
        raise TranslateError("MessageBuffer::size does not return size_")
    # constructors: member initialisers
    def inits(rx, what, pname_group):
        m = re.search(rx, cls)
        if not m:
            raise TranslateError("MessageBuffer: %s not found" % what)
        i = cls.index("{", m.end())
        text = _norm(cls[m.end():i])
        res = {}
        for mm in re.finditer(r"\b(buffer_|size_|position_)\s*[({]", text):
            j = _match(text, mm.end() - 1, text[mm.end() - 1], ")" if text[mm.end() - 1] == "(" else "}")
            res[mm.group(1)] = text[mm.end():j]
        if set(res) != {"buffer_", "size_", "position_"}:
            raise TranslateError("MessageBuffer %s: initialisers of buffer_, size_, position_ expected" % what)
        return m.group(pname_group), res
    for what, rx, grp, pre in (("constructor", r"explicit\s+MessageBuffer\s*\(\s*(?:int|std::size_t|size_t|unsigned)\s+(\w+)\s*\)\s*:", 1, "ctor"),
                               ("copy constructor", r"MessageBuffer\s*\(\s*const\s+MessageBuffer\s*&\s*(\w+)\s*\)\s*:", 1, "copy")):
        pn, res = inits(rx, what, grp)
        if pre == "ctor":
            env = Env({pn: ("size", "nat")}, _STD)
        else:
            env = Env({pn + ".size_": ("size", "nat"), pn + ".position_": ("position", "nat")}, _STD)
        mm = re.fullmatch(r"\s*new\s+\w+\s*\[(.*)\]\s*", res["buffer_"], flags=re.S)
        if not mm:
            raise TranslateError("MessageBuffer %s: buffer_(new T[n]) expected" % what)
        out.append("set_option linter.unusedVariables false in")
        out.append("/-- `MessageBuffer` %s: (cells allocated, size_, position_) -/" % what)
        out.append("def %sBuffer (size position : Nat) : Nat × Nat × Nat := (%s, %s, %s)" % (
            pre, nat(conv(_P(_tokens(mm.group(1))).expr(), env)), nat(conv(_P(_tokens(res["size_"])).expr(), env)),
            nat(conv(_P(_tokens(res["position_"])).expr(), env))))


def _tracker_env():
    return Env({"index_": ("index", "nat"), "interface_.size()": ("ifaceSize", "nat"),
                "sizes_.empty()": ("(decide (sizesSize = 0))", "bool"),
                "sizes_.size()": ("sizesSize", "nat"), "size()": ("sizeHere", "nat"),
                "finished()": ("(trackerFinished index ifaceSize)", "bool"),
                "empty()": ("(trackerEmpty ifaceSize)", "bool"),
                "indicesLeft()": ("(indicesLeft index ifaceSize)", "nat"),
                "offset()": ("(trackerOffset index)", "nat")}, _STD)


def _interface_tracker(src, out):
    cls, _ = _region(src, r"class\s+InterfaceTracker\b[^;{]*\{", "class InterfaceTracker")
    env = _tracker_env()
    defs = []
    for cname, lname, sig, ty in (("finished", "trackerFinished", "(index ifaceSize : Nat) : Bool", "bool"),
                                  ("empty", "trackerEmpty", "(ifaceSize : Nat) : Bool", "bool"),
                                  ("indicesLeft", "indicesLeft", "(index ifaceSize : Nat) : Nat", "nat"),
                                  ("offset", "trackerOffset", "(index : Nat) : Nat", "nat")):
        ps, body = _member(cls, cname, "InterfaceTracker::" + cname)
        e = env.child()
        for a in ("finished()", "empty()", "indicesLeft()", "offset()"):
            if a.startswith(cname):
                del e.atoms[a]
        if cname in ("empty",):
            del e.atoms["index_"]
            for a in ("finished()", "indicesLeft()", "offset()"):    # they need index_, which empty() does not have
                e.atoms.pop(a, None)
        if cname == "offset":
            del e.atoms["interface_.size()"]
            for a in ("finished()", "indicesLeft()", "empty()"):
                e.atoms.pop(a, None)
        r = _leaf(body, e, "InterfaceTracker::" + cname)
        text = boo(r) if ty == "bool" else nat(r)
        defs.append((lname, ["/-- `InterfaceTracker::%s` -/" % cname, "def %s %s := %s" % (lname, sig, text)], text))
    # one accessor may be written through another one: emit them in dependency order (a cycle is an error)
    done = []
    while defs:
        ready = [d for d in defs if not any(re.search(r"\b%s\b" % o[0], d[2]) for o in defs if o is not d)]
        if not ready:
            raise TranslateError("InterfaceTracker: accessors defined through each other")
        for d in ready:
            out.extend(d[1])
            defs.remove(d)
    # index() / size(): shape
    ps, body = _member(cls, "index", "InterfaceTracker::index")
    st = [s for s in _parse_body(body) if not _is_assert(s)]
    if len(st) != 1 or st[0][0] != "return" or key(st[0][1]) != "interface_[index_]":
        raise TranslateError("InterfaceTracker::index does not return interface_[index_]")
    ps, body = _member(cls, "size", "InterfaceTracker::size")
    st = [s for s in _parse_body(body) if not _is_assert(s)]
    if len(st) != 1 or st[0][0] != "return" or key(st[0][1]) != "sizes_[index_]":
        raise TranslateError("InterfaceTracker::size does not return sizes_[index_]")
    # skipZeroIndices
    ps, body = _member(cls, "skipZeroIndices", "InterfaceTracker::skipZeroIndices")
    st = [s for s in _parse_body(body) if not _is_assert(s)]
    if len(st) == 1 and st[0][0] == "for" and st[0][1] is None and st[0][2] is not None:
        st = [("while", st[0][2], ("block", _unblock(st[0][4]) + ([("expr", st[0][3])] if st[0][3] is not None else [])))]
    if len(st) != 1 or st[0][0] != "while":
        raise TranslateError("skipZeroIndices: a single while loop expected")
    inner = [s for s in _unblock(st[0][2]) if not _is_assert(s)]
    if len(inner) != 1 or inner[0][0] != "expr" or _inc_of(inner[0][1], "index_") is None:
        raise TranslateError("skipZeroIndices: loop body must increment index_")
    out.append("/-- loop condition of `InterfaceTracker::skipZeroIndices` -/")
    out.append("def skipCond (sizesSize index ifaceSize sizeHere : Nat) : Bool := " + boo(conv(st[0][1], env)))
    out.append("/-- what the loop body adds to `index_` -/")
    out.append("def skipStep : Nat := " + nat(conv(_inc_of(inner[0][1], "index_"), Env())))
    out.append("def skipZeroIndices (t : Tracker) : Tracker :=")
    out.append("  loopG Tracker.okSkip (fun t => skipCond t.sizesSize t.index t.ifaceSize t.sizeHere)")
    out.append("    (fun t => Tracker.increment t skipStep) t.iface.length t")

    # moveToNextIndex / increment
    def tracker_seq(cname, lname, extra):
        ps, body = _member(cls, cname, "InterfaceTracker::" + cname)
        penv = Env({p: (p_l, "nat") for p, p_l in zip(ps, extra)}, _STD)
        lines = []
        for s in _parse_body(body):
            if _is_assert(s):
                continue
            if s[0] == "expr" and _inc_of(s[1], "index_") is not None:
                lines.append("  let t := Tracker.increment t %s" % nat(conv(_inc_of(s[1], "index_"), penv)))
            elif s[0] == "expr" and key(s[1]) == "skipZeroIndices()":
                lines.append("  let t := skipZeroIndices t")
            elif s[0] == "expr" and s[1][0] == "call" and key(s[1][1]) == "increment" and len(s[1][2]) == 1 \
                    and cname != "increment":
                lines.append("  let t := increment t %s" % nat(conv(s[1][2][0], penv)))
            else:
                raise TranslateError("InterfaceTracker::%s: statement outside the grammar: %s" %
                                     (cname, key(s[1]) if s[0] == "expr" else s[0]))
        if len(ps) != len(extra):
            raise TranslateError("InterfaceTracker::%s: %d parameter(s) expected" % (cname, len(extra)))
        out.append("/-- `InterfaceTracker::%s` -/" % cname)
        out.append("def %s (t : Tracker)%s : Tracker :=" % (lname, "".join(" (%s : Nat)" % x for x in extra)))
        out.extend(lines)
        out.append("  t")
    tracker_seq("increment", "increment", ["i"])
    tracker_seq("moveToNextIndex", "moveToNextIndex", [])


# ------------------------------------------------------------------------------------------------------------------
# state-level translation (PackEntries, UnpackEntries, SetupSendRequest, SetupRecvRequest)
class Ctx:
    def __init__(self, prefix, H, T, B, count=None, tv="α"):
        self.prefix, self.H, self.T, self.B, self.count, self.tv = prefix, H, T, B, count, tv
        self.aux = []       # (unused since round five: loop bodies / conditions are emitted as local lambdas)
        self.n = 0
        self.acc = None
        self.lets = {}
        self.struct = None   # text of the enclosing struct: other member functions may be called as helpers
        self.depth = 0

    def helper(self, e, as_statement):
        """`name(a, b, ..)` with `name` another member function of the same struct and plain identifiers as arguments ->
        the statements of its body with the parameters renamed to the arguments (the call is inlined); else None.
        A helper that assigns to one of its parameters is outside the grammar (by-value copies are not modelled)."""
        if self.struct is None or e[0] != "call" or e[1][0] != "id" or "::" in e[1][1]:
            return None
        name = e[1][1]
        if name in ("assert",) or not re.search(r"(?<![\w~])" + re.escape(name) + r"\s*\(", self.struct):
            return None
        try:
            ps, body = _member(self.struct, re.escape(name), self.prefix + ": helper " + name)
        except TranslateError:
            return None
        if self.depth > 3:
            raise TranslateError("%s: helper calls nested too deeply" % self.prefix)
        if len(ps) != len(e[2]) or any(a[0] != "id" for a in e[2]):
            raise TranslateError("%s: helper %s is not called with plain names" % (self.prefix, name))
        st = _parse_body(body)
        for p_ in ps:
            if any(_mods(x, p_) for x in st):
                raise TranslateError("%s: helper %s modifies its parameter '%s'" % (self.prefix, name, p_))
        ren = {p_: a for p_, a in zip(ps, e[2])}
        if len(set(ps)) != len(ps):
            raise TranslateError("%s: helper %s repeats a parameter name" % (self.prefix, name))

        def sub(x):
            if isinstance(x, tuple):
                if len(x) == 2 and x[0] == "id" and x[1] in ren:
                    return ren[x[1]]
                return tuple(sub(y) for y in x)
            if isinstance(x, list):
                return [sub(y) for y in x]
            return x
        st = [sub(x) for x in st]
        for x in st:
            if x[0] == "decl" and any(x[1] == a[1] for a in e[2]):
                raise TranslateError("%s: helper %s declares a local named like an argument" % (self.prefix, name))
        if as_statement and "'return'" in repr(st):
            raise TranslateError("%s: helper %s with a return statement is called as a statement" % (self.prefix, name))
        return st

    def env(self):
        T, B, H = self.T, self.B, self.H
        at = {T + ".fixedSize": ("s.t.fixedSize", "nat"),
              T + ".indicesLeft()": ("(indicesLeft s.t.index s.t.ifaceSize)", "nat"),
              T + ".finished()": ("(trackerFinished s.t.index s.t.ifaceSize)", "bool"),
              T + ".empty()": ("(trackerEmpty s.t.ifaceSize)", "bool"),
              T + ".index()": ("s.t.cur", "nat"), T + ".size()": ("s.t.sizeHere", "nat"),
              T + ".offset()": ("(trackerOffset s.t.index)", "nat"),
              B + ".size()": ("s.b.size", "nat")}
        if self.count:
            at[self.count] = ("count", "nat")
        if self.acc:
            at[self.acc] = ("s.acc", "nat")
        fns = dict(_STD)
        if H:
            fns[H + ".size"] = lambda a: ("(h.size %s)" % nat(a[0]), "nat")
        fns[B + ".hasSpaceForItems"] = lambda a: ("(hasSpaceForItems s.b.position s.b.size %s)" % nat(a[0]), "bool")
        e = Env(at, fns)
        e.atoms.update(self.lets)
        return e


def _sstmt(s, ctx, env):
    """one simple statement -> Lean term for the new state (or None when it has no effect)"""
    if _is_assert(s):
        return None
    if s[0] != "expr":
        raise TranslateError("%s: statement outside the grammar: %s" % (ctx.prefix, s[0]))
    e = s[1]
    H, T, B = ctx.H, ctx.T, ctx.B
    if e[0] == "call" and e[1][0] == "mem":
        obj, name, args = key(e[1][1]), e[1][2], e[2]
        if obj == H and name == "gather" and len(args) == 2 and key(args[0]) == B:
            return "{ s with b := s.b.write (h.data %s) }" % nat(conv(args[1], env))
        if obj == H and name == "scatter" and len(args) == 3 and key(args[0]) == B:
            i, n = nat(conv(args[1], env)), nat(conv(args[2], env))
            return "{ s with calls := s.calls ++ [Call.mk %s %s (s.b.read %s).1], b := (s.b.read %s).2 }" % (i, n, n, n)
        if obj == T and name == "moveToNextIndex" and not args:
            return "{ s with t := moveToNextIndex s.t }"
        if obj == T and name == "skipZeroIndices" and not args:
            return "{ s with t := skipZeroIndices s.t }"
        if obj == T and name == "increment" and len(args) == 1:
            return "{ s with t := increment s.t %s }" % nat(conv(args[0], env))
        if obj == B and name == "reset" and not args:
            return "{ s with b := s.b.reset }"
    if ctx.acc and _inc_of(e, ctx.acc) is not None:
        return "{ s with acc := s.acc + %s }" % nat(conv(_inc_of(e, ctx.acc), env))
    raise TranslateError("%s: statement outside the grammar: %s" % (ctx.prefix, key(e)))


def _uses(s, name):
    return name in repr(s)


def _decl_local(s, ctx, env, later):
    """`T x = e;` of a local that is never modified afterwards -> (lean name, converted e); anything else is loud"""
    name = s[1]
    if s[2] is None:
        raise TranslateError("%s: uninitialised local '%s'" % (ctx.prefix, name))
    if name in env.atoms or name in ctx.lets or name == ctx.acc or name == ctx.count:
        raise TranslateError("%s: local '%s' shadows another name" % (ctx.prefix, name))
    if any(_mods(r, name) for r in later):
        raise TranslateError("%s: local '%s' is modified inside a loop body" % (ctx.prefix, name))
    return "v_" + name, conv(s[2], env)


def _inline_helpers(stmts, ctx):
    """expression statements that call a helper member function are replaced by the helper's statements"""
    out = []
    for s in stmts:
        h = ctx.helper(s[1], True) if s[0] == "expr" else None
        if h is None:
            out.append(s)
        else:
            ctx.depth += 1
            out.extend(_inline_helpers([x for x in _flat(h) if not _is_assert(x)], ctx))
            ctx.depth -= 1
    return out


def _aux_body(stmts, ctx):
    """statements of a loop body -> (Lean lambda over the loop state, in-bounds predicate).  Locals of the enclosing
    function are captured by the lambda with the value they had when they were declared (they are Lean `let`s)."""
    ctx.n += 1
    env = ctx.env()
    parts = []
    stmts = _inline_helpers(stmts, ctx)
    for i, s in enumerate(stmts):
        if s[0] == "decl":
            nm, v = _decl_local(s, ctx, env, stmts[i + 1:])
            parts.append("let %s := %s" % (nm, v[0]))
            env.atoms[s[1]] = (nm, v[1])
            continue
        r = _sstmt(s, ctx, env)
        if r:
            parts.append("let s := " + r)
    lam = "(fun (s : St %s) => %s)" % (ctx.tv, "; ".join(parts + ["s"]))
    ok = "St.okSizes" if any((ctx.T + ".size()") in _keys(s).split(" ") for s in stmts) else "St.okIface"
    return lam, ok


def _keys(s):
    """all sub-expression keys of a statement (text)"""
    acc = []

    def walk(e):
        if isinstance(e, tuple):
            if e and e[0] in ("num", "id", "call", "mem", "idx", "un", "post", "bin", "asg", "cond"):
                try:
                    acc.append(key(e))
                except Exception:
                    pass
            for x in e:
                walk(x)
        elif isinstance(e, list):
            for x in e:
                walk(x)
    walk(s)
    return " ".join(acc)


def _aux_cond(e, ctx):
    return "(fun (s : St %s) => %s)" % (ctx.tv, boo(conv(e, ctx.env())))


def _dec_of(e, var):
    """if expression e decrements `var`, the decrement (AST), else None"""
    if e[0] in ("post", "un") and e[1] == "--" and key(e[2]) == var:
        return ("num", 1)
    if e[0] == "asg" and key(e[2]) == var:
        if e[1] == "-=":
            return e[3]
        if e[1] == "=" and e[3][0] == "bin" and e[3][1] == "-" and key(e[3][2]) == var:
            return e[3][3]
    return None


def _flip(c):
    """comparison with the operands exchanged (`a>b` -> `b<a`)"""
    return ("bin", {"<": ">", ">": "<", "<=": ">=", ">=": "<=", "==": "==", "!=": "!="}[c[1]], c[3], c[2])


def _counted(s, ctx):
    """`for(T v = a; v < N; ++v)` / `for(T v = N; v > a; --v)` (and the equivalent spellings of bound and step) whose
    body does not mention v -> Lean term for the number of iterations; None when the loop is not of this shape.
    The bound that is re-evaluated in every iteration must be a literal, an unmodified local or a parameter
    (its Lean term does not mention the loop state)."""
    init, c, step = s[1], s[2], s[3]
    if init is None or init[0] != "decl" or init[2] is None or c is None or step is None or len(init) > 3:
        return None
    v = init[1]
    body = [b for b in _unblock(s[4]) if not _is_assert(b)]
    if any(_uses(b, "'%s'" % v) for b in body):
        return None
    up = _inc_of(step, v) is not None and key(_inc_of(step, v)) == "1"
    down = _dec_of(step, v) is not None and key(_dec_of(step, v)) == "1"
    if not (up or down):
        return None
    env = ctx.env()

    def fixed(e):
        t = nat(conv(e, env))
        if "s." in t:
            raise TranslateError("%s: bound of a counted loop depends on the loop state: %s" % (ctx.prefix, key(e)))
        return t
    if key(c) == v:                                   # for(..; v; --v)
        c = ("bin", "!=", c, ("num", 0))
    if c[0] == "un" and c[1] == "!" and c[2][0] == "bin" and c[2][1] == "==":   # !(v == N)
        c = ("bin", "!=", c[2][2], c[2][3])
    if c[0] != "bin" or c[1] not in ("<", "<=", ">", ">=", "!="):
        return None
    if key(c[3]) == v and key(c[2]) != v:
        c = _flip(c)
    if key(c[2]) != v or _uses(c[3], "'%s'" % v):
        return None
    a = nat(conv(init[2], env))
    if up:
        if c[1] == "<":
            return "(%s - %s)" % (fixed(c[3]), a)
        if c[1] == "<=":
            return "(%s + 1 - %s)" % (fixed(c[3]), a)
        if c[1] == "!=" and key(init[2]) == "0":      # terminates at N only when it starts below
            return "(%s - %s)" % (fixed(c[3]), a)
        return None
    if c[1] == ">":
        return "(%s - %s)" % (a, fixed(c[3]))
    if c[1] == ">=" and c[3][0] == "num" and c[3][1] >= 1:
        return "(%s + 1 - %s)" % (a, fixed(c[3]))
    if c[1] == "!=" and key(c[3]) == "0":
        return "(%s - 0)" % a
    return None


def _loop(s, ctx, lines, ind):
    """for / while statement -> `let s := loopG ...`; the loop condition and body become local lambdas"""
    if s[0] == "for":
        trips = _counted(s, ctx)
        if trips is not None:
            body = [b for b in _unblock(s[4]) if not _is_assert(b)]
            bn, ok = _aux_body(body, ctx)
            lines.append("%slet s := loopG %s (fun _ => true) %s %s s" % (ind, ok, bn, trips))
            return
        # for(init; c; step) body  ==  init; while(c) { body; step; }   (`continue` is outside the grammar)
        init, c, step = s[1], s[2], s[3]
        if c is None:
            raise TranslateError("%s: for loop without condition" % ctx.prefix)
        loop = ("while", c, ("block", _unblock(s[4]) + ([("expr", step)] if step is not None else [])))
        own_acc = False
        if init is not None:
            if init[0] == "decl":
                if len(init) > 3:
                    raise TranslateError("%s: reference local '%s'" % (ctx.prefix, init[1]))
                before = ctx.acc
                _local(init, [loop], ctx, lines, ind)
                own_acc = ctx.acc is not None and before is None
            else:
                r = _sstmt(init, ctx, ctx.env())
                if r:
                    lines.append("%slet s := %s" % (ind, r))
        _loop(loop, ctx, lines, ind)
        if own_acc:
            ctx.acc = None
        return
    c, body = s[1], _unblock(s[2])
    body = [b for b in body if not _is_assert(b)]
    # while(C1) if(C2) S else break;   ==   while(C1) { if(!C2) break; S }   ==   while(C1 && C2) S
    if len(body) == 1 and body[0][0] == "if" and body[0][3] is not None and _unblock(body[0][3]) == [("break",)]:
        c = ("bin", "&&", c, body[0][1])
        body = _unblock(body[0][2])
    elif len(body) == 1 and body[0][0] == "if" and body[0][3] is not None and _unblock(body[0][2]) == [("break",)]:
        c = ("bin", "&&", c, ("un", "!", body[0][1]))
        body = _unblock(body[0][3])
    elif body and body[0][0] == "if" and body[0][3] is None and _unblock(body[0][2]) == [("break",)]:
        c = ("bin", "&&", c, ("un", "!", body[0][1]))
        body = body[1:]
    body = [b for b in body if not _is_assert(b)]
    cn = _aux_cond(c, ctx)
    bn, ok = _aux_body(body, ctx)
    if (ctx.T + ".size()") in _keys(c).split(" "):
        ok = "St.okSizes"
    lines.append("%slet s := loopG %s %s %s s.t.iface.length s" % (ind, ok, cn, bn))


def _local(s, rest, ctx, lines, ind):
    """declaration of an integral local: an accumulator (state component) when `rest` modifies it, else a Lean `let`
    holding the value of the initialiser at this point"""
    if s[2] is None:
        raise TranslateError("%s: uninitialised local '%s'" % (ctx.prefix, s[1]))
    if len(s) > 3:
        raise TranslateError("%s: reference local '%s'" % (ctx.prefix, s[1]))
    if s[1] in ctx.lets or s[1] == ctx.acc or s[1] == ctx.count:
        raise TranslateError("%s: local '%s' shadows another name" % (ctx.prefix, s[1]))
    if any(_mods(r, s[1]) for r in rest):
        if ctx.acc is not None:
            raise TranslateError("%s: two accumulators" % ctx.prefix)
        lines.append("%slet s := { s with acc := %s }" % (ind, nat(conv(s[2], ctx.env()))))
        ctx.acc = s[1]
    else:
        v = conv(s[2], ctx.env())
        lines.append("%slet %s := %s" % (ind, "v_" + s[1], v[0]))
        ctx.lets[s[1]] = ("v_" + s[1], v[1])


def _returns(stmts):
    """does this statement list return on every path (syntactically)?"""
    for s in stmts:
        if s[0] == "return":
            return True
        if s[0] == "if" and s[3] is not None and _returns(_unblock(s[2])) and _returns(_unblock(s[3])):
            return True
    return False


def _seq(stmts, ctx, lines, ind, ret):
    """statements of one branch; `ret(expr or None, env)` renders the result.  Returns True when the branch returned.
    An `if` is a two-way branch whose arms are continued with the statements that follow it (so a guard clause
    `if(c) {..; return x;} rest`, `if(c) {A} else {B} return y;` and `if(c) {A; return y;} else {B; return y;}` give the
    same Lean term up to dead code)."""
    for i, s in enumerate(stmts):
        if s[0] == "return":
            h = ctx.helper(s[1], False) if s[1] is not None else None
            if h is not None:      # `return helper(a, b, c);`: the helper's body ends the function
                saved = (dict(ctx.lets), ctx.acc)
                ctx.depth += 1
                r = _seq(_flat(h), ctx, lines, ind, ret)
                ctx.depth -= 1
                ctx.lets, ctx.acc = saved
                if not r:
                    raise TranslateError("%s: helper without return" % ctx.prefix)
                return True
            lines.append(ind + ret(s[1], ctx.env()))
            return True
        if s[0] == "expr":
            h = ctx.helper(s[1], True)
            if h is not None:
                ctx.depth += 1
                r = _seq(_flat(h) + stmts[i + 1:], ctx, lines, ind, ret)
                ctx.depth -= 1
                return r
        if s[0] == "if":
            rest = stmts[i + 1:]
            th = _unblock(s[2])
            el = _unblock(s[3]) if s[3] is not None else []
            th = th if _returns(th) else th + rest
            el = el if _returns(el) else el + rest
            lines.append("%sif %s then" % (ind, boo(conv(s[1], ctx.env()))))
            saved = (dict(ctx.lets), ctx.acc)
            if not _seq(th, ctx, lines, ind + "  ", ret):
                raise TranslateError("%s: branch without return" % ctx.prefix)
            ctx.lets, ctx.acc = dict(saved[0]), saved[1]
            lines.append(ind + "else")
            if not _seq(el, ctx, lines, ind + "  ", ret):
                raise TranslateError("%s: branch without return" % ctx.prefix)
            ctx.lets, ctx.acc = saved
            return True
        if s[0] in ("while", "for"):
            _loop(s, ctx, lines, ind)
            continue
        if s[0] == "decl":
            _local(s, stmts[i + 1:], ctx, lines, ind)
            continue
        if s[0] == "break":
            raise TranslateError("%s: `break` outside the one loop shape of the grammar" % ctx.prefix)
        r = _sstmt(s, ctx, ctx.env())
        if r:
            lines.append("%slet s := %s" % (ind, r))
    return False


def _mods(stmt, var):
    """may this statement change the local `var`?  (assignment, compound assignment, ++/--, or its address taken)"""
    found = []

    def walk(e):
        if isinstance(e, tuple):
            if e and e[0] == "asg" and key(e[2]) == var:
                found.append(1)
            if e and e[0] in ("post", "un") and len(e) >= 3 and e[1] in ("++", "--", "&") and key(e[2]) == var:
                found.append(1)
            for x in e:
                walk(x)
        elif isinstance(e, list):
            for x in e:
                walk(x)
    walk(stmt)
    return bool(found)


_STRUCTS = {}


def _functor(src, name, what, nparams):
    body, _ = _region(src, r"struct\s+" + name + r"\b[^;{]*\{", "struct " + name)
    _STRUCTS[name] = body

    def real(f):
        return not re.fullmatch(r"\s*return\s+operator\s*\(\s*\)\s*\([^;]*\)\s*;\s*", f[1])
    ps, b = _member(body, r"operator\s*\(\s*\)", what, pick=real)
    if len(ps) < nparams:
        raise TranslateError("%s: at least %d parameters expected" % (what, nparams))
    return ps, b


def _pack_unpack(src, out):
    # PackEntries
    ps, body = _functor(src, "PackEntries", "PackEntries::operator()", 3)
    ctx = Ctx("packEntries", ps[0], ps[1], ps[2])
    ctx.struct = _STRUCTS["PackEntries"]
    lines = []

    def ret_pack(e, env):
        if e is None:
            raise TranslateError("PackEntries: return without value")
        return "(%s, s.t, s.b)" % nat(conv(e, env))
    if not _seq(_parse_body(body), ctx, lines, "  ", ret_pack):
        raise TranslateError("PackEntries: no return")
    out.extend(ctx.aux)
    out.append("set_option linter.unusedVariables false in")
    out.append("/-- `PackEntries::operator()`: (items packed, tracker, buffer) -/")
    out.append("def packEntries {α : Type} (h : Handle α) (t : Tracker) (b : MessageBuffer α) : Nat × Tracker × MessageBuffer α :=")
    out.append("  let count := 0")
    out.append("  let s : St α := ⟨t, b, 0, []⟩")
    out.extend(lines)
    # UnpackEntries
    ps, body = _functor(src, "UnpackEntries", "UnpackEntries::operator()", 3)
    ctx = Ctx("unpackEntries", ps[0], ps[1], ps[2], ps[3] if len(ps) > 3 else None)
    ctx.struct = _STRUCTS["UnpackEntries"]
    lines = []

    def ret_unpack(e, env):
        if e is not None:
            conv(e, env)   # must be translatable; the value is not used by checkAndContinue
        return "(s.t, s.b, s.calls)"
    if not _seq(_parse_body(body), ctx, lines, "  ", ret_unpack):
        raise TranslateError("UnpackEntries: no return")
    out.extend(ctx.aux)
    out.append("set_option linter.unusedVariables false in")
    out.append("/-- `UnpackEntries::operator()`: (tracker, buffer, scatter calls so far) -/")
    out.append("def unpackEntries {α : Type} (t : Tracker) (b : MessageBuffer α) (count : Nat) (cs : List (Call α)) :")
    out.append("    Tracker × MessageBuffer α × List (Call α) :=")
    out.append("  let h : Handle α := ⟨false, fun _ => []⟩")
    out.append("  let s : St α := ⟨t, b, 0, cs⟩")
    out.extend(lines)
    # UnpackSizeEntries
    ps, body = _functor(src, "UnpackSizeEntries", "UnpackSizeEntries::operator()", 3)
    H, T, B = ps[0], ps[1], ps[2]
    env = Env({T + ".indicesLeft()": ("(indicesLeft t.index t.ifaceSize)", "nat"), B + ".size()": ("b.size", "nat"),
               T + ".offset()": ("(trackerOffset t.index)", "nat")}, _STD)
    lines = []
    copied = False
    for s in _parse_body(body):
        if _is_assert(s):
            continue
        if s[0] == "decl" and s[2] is not None:
            v = conv(s[2], env)
            lines.append("  let v_%s := %s" % (s[1], v[0]))
            env.atoms[s[1]] = ("v_" + s[1], v[1])
        elif s[0] == "expr" and s[1][0] == "call" and key(s[1][1]) == "std::copy" and len(s[1][2]) == 3:
            a0, a1, a2 = s[1][2]
            if key(a0) != "(" + B + ")" and key(a0) != B:
                raise TranslateError("UnpackSizeEntries: std::copy does not start at the buffer")
            if a1[0] != "bin" or a1[1] != "+" or key(a1[2]) not in (B, "(" + B + ")"):
                raise TranslateError("UnpackSizeEntries: end of the copied range outside the grammar")
            n = nat(conv(a1[3], env))
            if a2[0] != "bin" or a2[1] != "+" or key(a2[2]) != H + ".getSizesPointer()":
                raise TranslateError("UnpackSizeEntries: destination outside the grammar")
            lines.append("  let dst := writeAt dst %s (b.cells.take %s)" % (nat(conv(a2[3], env)), n))
            copied = True
        elif s[0] == "expr" and s[1][0] == "call" and key(s[1][1]) == "std::copy_n" and len(s[1][2]) == 3:
            a0, a1, a2 = s[1][2]
            if key(a0) != "(" + B + ")" and key(a0) != B:
                raise TranslateError("UnpackSizeEntries: std::copy_n does not start at the buffer")
            n = nat(conv(a1, env))
            if a2[0] != "bin" or a2[1] != "+" or key(a2[2]) != H + ".getSizesPointer()":
                raise TranslateError("UnpackSizeEntries: destination outside the grammar")
            lines.append("  let dst := writeAt dst %s (b.cells.take %s)" % (nat(conv(a2[3], env)), n))
            copied = True
        elif s[0] == "expr" and s[1][0] == "call" and key(s[1][1]) == T + ".increment" and len(s[1][2]) == 1:
            lines.append("  let t := increment t %s" % nat(conv(s[1][2][0], env)))
            env.atoms[T + ".indicesLeft()"] = ("(indicesLeft t.index t.ifaceSize)", "nat")
        elif s[0] == "return":
            break
        else:
            raise TranslateError("UnpackSizeEntries: statement outside the grammar")
    if not copied:
        raise TranslateError("UnpackSizeEntries: no std::copy / std::copy_n")
    out.append("/-- `UnpackSizeEntries::operator()`; `dst` = the size array `getSizesPointer()` points to -/")
    out.append("def unpackSizeEntries (t : Tracker) (b : MessageBuffer Nat) (dst : List Nat) : Tracker × List Nat :=")
    out.extend(lines)
    out.append("  (t, dst)")


def _mpi_call(stmt, fn):
    """the arguments (ASTs) of a statement `MPI_xxx(...)`"""
    if stmt[0] == "expr" and stmt[1][0] == "call" and key(stmt[1][1]) == fn:
        return stmt[1][2]
    return None


def _tag(e, what):
    if e[0] != "num":
        raise TranslateError("%s: tag is not an integer literal" % what)
    return e[1]


def _tail_guard(st):
    """`..; if(c) return; S;` at the end of a void function  ->  `..; if(!c) S;`  (also `if(c) {} else S;`)"""
    if len(st) >= 2 and st[-2][0] == "if" and st[-2][3] is None and _unblock(st[-2][2]) == [("return", None)] \
            and st[-1][0] == "expr":
        return st[:-2] + [("if", ("un", "!", st[-2][1]), st[-1], None)]
    if st and st[-1][0] == "if" and st[-1][3] is not None and _unblock(st[-1][2]) == []:
        return st[:-1] + [("if", ("un", "!", st[-1][1]), st[-1][3], None)]
    if st and st[-1][0] == "if" and st[-1][3] is not None and _unblock(st[-1][3]) in ([], [("return", None)]):
        return st[:-1] + [("if", st[-1][1], st[-1][2], None)]
    return st


def _setup(src, out, consts):
    # SetupSendRequest
    ps, body = _functor(src, "SetupSendRequest", "SetupSendRequest::operator()", 4)
    ctx = Ctx("setupSend", ps[0], ps[1], ps[2])
    st = _tail_guard(_parse_body(body))
    lines = []
    final = None
    size_var = None
    for i, s in enumerate(st):
        if s[0] == "decl" and s[2] is not None and s[2][0] == "call" and key(s[2][1]) == "PackEntries":
            if [key(a) for a in s[2][2]] != [ps[0], ps[1], ps[2]]:
                raise TranslateError("SetupSendRequest: PackEntries called with other arguments")
            size_var = s[1]
            lines.append("  let r := packEntries h s.t s.b")
            lines.append("  let v_%s := r.1" % size_var)
            lines.append("  let s := { s with t := r.2.1, b := r.2.2 }")
            ctx.lets[size_var] = ("v_" + size_var, "nat")
        elif s[0] == "if" and i == len(st) - 1 and s[3] is None:
            final = s
        elif s[0] in ("while", "for"):
            _loop(s, ctx, lines, "  ")
        else:
            r = _sstmt(s, ctx, ctx.env())
            if r:
                lines.append("  let s := " + r)
    if final is None or size_var is None:
        raise TranslateError("SetupSendRequest: `int size=PackEntries..; ..; if(..) MPI_Issend(..)` expected")
    inner = _unblock(final[2])
    a = _mpi_call(inner[0], "MPI_Issend") if len(inner) == 1 else None
    if a is None or len(a) != 7 or key(a[0]) != ps[2] or key(a[2]) != "MPITYPE" or key(a[3]) != ps[1] + ".rank()":
        raise TranslateError("SetupSendRequest: MPI_Issend(buffer, n, type, tracker.rank(), tag, comm, &request) expected")
    consts["dataSendTag"] = _tag(a[4], "SetupSendRequest")
    env = ctx.env()
    out.extend(ctx.aux)
    out.append("set_option linter.unusedVariables false in")
    out.append("/-- `SetupSendRequest::operator()` -/")
    out.append("def setupSend {α : Type} (h : Handle α) (t : Tracker) (b : MessageBuffer α) : SendSetup α :=")
    out.append("  let count := 0")
    out.append("  let s : St α := ⟨t, b, 0, []⟩")
    out.extend(lines)
    out.append("  { tracker := s.t, buffer := s.b,")
    out.append("    message := if %s then some (s.b.cells.take %s) else none }" % (boo(conv(final[1], env)), nat(conv(a[1], env))))
    # SetupRecvRequest
    ps, body = _functor(src, "SetupRecvRequest", "SetupRecvRequest::operator()", 4)
    ctx = Ctx("setupRecv", None, ps[1], ps[2], tv="β")
    st = _tail_guard(_parse_body(body))
    lines = []
    if not st or st[-1][0] != "if" or st[-1][3] is not None:
        raise TranslateError("SetupRecvRequest: final `if(..) MPI_Irecv(..)` expected")
    for s in st[:-1]:
        r = _sstmt(s, ctx, ctx.env())
        if r:
            lines.append("  let s := " + r)
    inner = _unblock(st[-1][2])
    a = _mpi_call(inner[0], "MPI_Irecv") if len(inner) == 1 else None
    if a is None or len(a) != 7 or key(a[0]) != ps[2] or key(a[2]) != "MPITYPE" or key(a[3]) != ps[1] + ".rank()":
        raise TranslateError("SetupRecvRequest: MPI_Irecv(buffer, n, type, tracker.rank(), tag, comm, &request) expected")
    consts["dataRecvTag"] = _tag(a[4], "SetupRecvRequest")
    out.append("/-- `SetupRecvRequest::operator()`: (tracker, buffer, was MPI_Irecv posted?) -/")
    out.append("def setupRecv {β : Type} (t : Tracker) (b : MessageBuffer β) : Tracker × MessageBuffer β × Bool :=")
    out.append("  let s : St β := ⟨t, b, 0, []⟩")
    out.extend(lines)
    out.append("  (s.t, s.b, %s)" % boo(conv(st[-1][1], ctx.env())))
    out.append("/-- the count argument of the data `MPI_Irecv` -/")
    out.append("def recvCount (bufSize : Nat) : Nat := " + nat(conv(a[1], Env({ps[2] + ".size()": ("bufSize", "nat")}, _STD))))


def _scalars(src, consts):
    body, m = _region(src, r"\bvoid\s+sendFixedSize\s*\([^)]*\)\s*\{", "sendFixedSize")
    body = _norm(body)
    for fn, nm in (("MPI_Irecv", "scalarRecv"), ("MPI_Issend", "scalarSend")):
        ms = list(re.finditer(r"\b" + fn + r"\s*\(", body))
        if len(ms) != 1:
            raise TranslateError("sendFixedSize: one %s expected" % fn)
        j = _match(body, ms[0].end() - 1, "(", ")")
        p = _P(_tokens(body[ms[0].start():j + 1]))
        a = p.expr()[2]
        if len(a) != 7:
            raise TranslateError("sendFixedSize: %s with %d arguments" % (fn, len(a)))
        if not re.fullmatch(r"&\(?\w+\.fixedSize\)?", key(a[0])):
            raise TranslateError("sendFixedSize: %s does not transfer tracker.fixedSize (%s)" % (fn, key(a[0])))
        if a[1][0] != "num":
            raise TranslateError("sendFixedSize: count of %s is not a literal" % fn)
        consts[nm + "Count"] = a[1][1]
        consts[nm + "Tag"] = _tag(a[4], "sendFixedSize")
        if not re.fullmatch(r"\w+\.rank\(\)", key(a[3])):
            raise TranslateError("sendFixedSize: peer of %s is not tracker.rank()" % fn)


def _buffers(src, out):
    """the size every MessageBuffer vector is built with, by role (send / receive side of the data resp. size phase)"""
    res = {}
    for fn in ("communicateFixedSize", "communicateSizes", "communicateVariableSize"):
        body, _ = _region(src, r"VariableSizeCommunicator\s*<\s*Allocator\s*>\s*::\s*" + fn + r"\s*\([^)]*\)\s*\{", fn)
        sizes = {}
        for m in re.finditer(r"(\w+)\s*\(\s*[^,;]*?,\s*MessageBuffer\s*<[^;()]*?>\s*\(", body):
            j = _match(body, m.end() - 1, "(", ")")
            e = _P(_tokens(_norm(body[m.end():j]))).expr()
            env = Env({"maxBufferSize_": ("maxBufferSize", "nat"), "interface_.size()": ("ifaceCount", "nat")}, _STD)
            sizes[m.group(1)] = nat(conv(e, env))
        nb = re.sub(r"\b(\w+)\s*<[^;()]*?>\s*\(\s*\)", r"\1()", body)
        role = {}
        for m in re.finditer(r"\bsetupRequests\s*\(", nb):
            j = _match(nb, m.end() - 1, "(", ")")
            a = [re.sub(r"\s+", "", x) for x in _split(nb[m.end():j])]
            if len(a) == 6 and a[4] in ("SetupSendRequest()", "SetupRecvRequest()"):
                role[a[2]] = "send" if a[4] == "SetupSendRequest()" else "recv"
        for m in re.finditer(r"\breceiveSizeAndSetupReceive\s*\(", nb):
            j = _match(nb, m.end() - 1, "(", ")")
            a = [re.sub(r"\s+", "", x) for x in _split(nb[m.end():j])]
            if len(a) == 6:
                role[a[4]] = "recv"
        got = {}
        for name, sz in sizes.items():
            if name not in role:
                raise TranslateError("%s: MessageBuffer vector '%s' is not set up by setupRequests / receiveSizeAndSetupReceive" % (fn, name))
            if role[name] in got:
                raise TranslateError("%s: two %s buffer vectors" % (fn, role[name]))
            got[role[name]] = sz
        if set(got) != {"send", "recv"}:
            raise TranslateError("%s: one send and one receive buffer vector expected" % fn)
        res[fn] = got
    out.append("set_option linter.unusedVariables false in")
    out.append("/-- (send buffer size, receive buffer size) of the data phase in communicateFixedSize and communicateVariableSize -/")
    out.append("def dataBuffers (maxBufferSize ifaceCount : Nat) : List (Nat × Nat) := [(%s, %s), (%s, %s)]" % (
        res["communicateFixedSize"]["send"], res["communicateFixedSize"]["recv"],
        res["communicateVariableSize"]["send"], res["communicateVariableSize"]["recv"]))
    out.append("set_option linter.unusedVariables false in")
    out.append("/-- (send buffer size, receive buffer size) of the size exchange in communicateSizes -/")
    out.append("def sizeBuffers (maxBufferSize ifaceCount : Nat) : Nat × Nat := (%s, %s)" % (
        res["communicateSizes"]["send"], res["communicateSizes"]["recv"]))


def _defaults(src, consts):
    cls, _ = _region(src, r"class\s+VariableSizeCommunicator\b[^;{]*\{", "class VariableSizeCommunicator")
    vals = []
    for m in re.finditer(r"\bmaxBufferSize_\s*\(\s*([^()]*?)\s*\)", cls):
        if re.fullmatch(r"\d+[uUlL]*", m.group(1)):
            vals.append(int(re.match(r"\d+", m.group(1)).group(0)))
    for m in re.finditer(r"\bmaxBufferSize_\s*=\s*(\d+)[uUlL]*\s*;", cls):
        vals.append(int(m.group(1)))
    # delegating constructors: `: VariableSizeCommunicator(comm, inf, 32768)`
    for m in re.finditer(r":\s*VariableSizeCommunicator\s*\(([^(){};]*(?:\([^()]*\)[^(){};]*)*)\)\s*\{", cls):
        last = _split(m.group(1))[-1].strip()
        if re.fullmatch(r"\d+[uUlL]*", last):
            vals.append(int(re.match(r"\d+", last).group(0)))
    if not vals:
        raise TranslateError("no numeric default for maxBufferSize_ found")
    consts["defaultBufferSizes"] = vals


def _directions(src, out):
    """InterfaceInformationChooser, forward/backward -> communicate<bool>, the FORWARD parameter handed down, and
    setupInterfaceTrackers (the fixedsize carried from neighbour to neighbour, the arguments of the two trackers)"""
    def chooser(rx, what):
        body, _ = _region(src, rx, what)
        res = {}
        for fn in ("getSend", "getReceive"):
            ps, b = _member(body, fn, what + "::" + fn)
            st = _parse_body(b)
            if len(st) != 1 or st[0][0] != "return" or key(st[0][1]) not in (ps[0] + ".first", ps[0] + ".second"):
                raise TranslateError("%s::%s does not return info.first / info.second" % (what, fn))
            res[fn] = key(st[0][1]).split(".")[1]
        return res
    ct = chooser(r"template\s*<\s*bool\s+\w+\s*>\s*struct\s+InterfaceInformationChooser\s*\{", "InterfaceInformationChooser<true>")
    cf = chooser(r"template\s*<\s*>\s*struct\s+InterfaceInformationChooser\s*<\s*false\s*>\s*\{", "InterfaceInformationChooser<false>")
    out.append("/-- `InterfaceInformationChooser<FORWARD>::getSend / getReceive` -/")
    out.append("def chooseSend (fwd : Bool) (first second : List Nat) : List Nat := if fwd then %s else %s" % (ct["getSend"], cf["getSend"]))
    out.append("def chooseRecv (fwd : Bool) (first second : List Nat) : List Nat := if fwd then %s else %s" % (ct["getReceive"], cf["getReceive"]))
    cls, _ = _region(src, r"class\s+VariableSizeCommunicator\b[^;{]*\{", "class VariableSizeCommunicator")
    flags = {}
    for fn in ("forward", "backward"):
        ps, b = _member(cls, fn, "VariableSizeCommunicator::" + fn)
        m = re.fullmatch(r"\s*communicate\s*<\s*(true|false)\s*>\s*\(\s*" + re.escape(ps[0]) + r"\s*\)\s*;\s*", b)
        if not m:
            raise TranslateError("%s does not call communicate<true|false>(handle)" % fn)
        flags[fn] = m.group(1)
    out.append("/-- the template argument `forward()` resp. `backward()` instantiates `communicate` with -/")
    out.append("def forwardFlag : Bool := %s" % flags["forward"])
    out.append("def backwardFlag : Bool := %s" % flags["backward"])
    # the direction parameter must be handed down unchanged
    for fn in ("communicate", "communicateFixedSize", "communicateVariableSize", "communicateSizes", "setupInterfaceTrackers"):
        body, m = _region(src, r"template\s*<\s*bool\s+(\w+)\s*,\s*class\s+\w+\s*>\s*void\s+VariableSizeCommunicator\s*<\s*Allocator\s*>\s*::\s*" + fn + r"\s*\(", fn)
        par = m.group(1)
        for mm in re.finditer(r"\b(communicateFixedSize|communicateVariableSize|communicateSizes|setupInterfaceTrackers|InterfaceInformationChooser)\s*<\s*([^<>]*?)\s*>", body):
            if mm.group(2) != par:
                raise TranslateError("%s: %s<%s> is not instantiated with the direction parameter %s" % (fn, mm.group(1), mm.group(2), par))
    # setupInterfaceTrackers
    body, m = _region(src, r"VariableSizeCommunicator\s*<\s*Allocator\s*>\s*::\s*setupInterfaceTrackers\s*\(([^)]*)\)\s*\{", "setupInterfaceTrackers")
    ps = _params(m.group(1))
    H = ps[0]
    # a local name for the chooser type
    for mm in list(re.finditer(r"typedef\s+(?:typename\s+)?(InterfaceInformationChooser\s*<\s*\w+\s*>)\s+(\w+)\s*;", body)) + \
            list(re.finditer(r"using\s+(\w+)\s*=\s*(?:typename\s+)?(InterfaceInformationChooser\s*<\s*\w+\s*>)\s*;", body)):
        a_, b_ = mm.group(1), mm.group(2)
        full, nm = (a_, b_) if a_.startswith("Interface") else (b_, a_)
        body = body.replace(mm.group(0), " ")
        body = re.sub(r"\b%s\s*::" % re.escape(nm), full + "::", body)
    body = re.sub(r"typedef[^;]*;", " ", body)
    body = re.sub(r"\busing\s+\w+\s*=[^;]*;", " ", body)
    fm = re.search(r"\bfor\s*\(", body)
    if not fm:
        raise TranslateError("setupInterfaceTrackers: loop over the interface map not found")
    j = _match(body, fm.end() - 1, "(", ")")
    head = body[fm.end():j]
    rf = re.fullmatch(r"\s*(?:const\s+)?[\w:<>\s]+?(?:const\s*)?&\s*(\w+)\s*:\s*\*\s*interface_\s*", head)
    if rf:
        it = rf.group(1)      # for(const auto& x : *interface_): every entry once, in map order
    else:
        hp = _split_semi(head)
        mi = re.search(r"(\w+)\s*=\s*interface_\s*->\s*c?begin\s*\(\s*\)", hp[0]) if len(hp) == 3 else None
        if not mi:
            raise TranslateError("setupInterfaceTrackers: the loop does not run over the whole interface map")
        it = mi.group(1)
        ends = {"interface_->end()", "interface_->cend()"}
        for mm in re.finditer(r"(\w+)\s*=\s*interface_\s*->\s*c?end\s*\(\s*\)", hp[0]):
            ends.add(mm.group(1))
        cnd = re.sub(r"\s+", "", hp[1])
        stp = re.sub(r"\s+", "", hp[2])
        if cnd not in {it + "!=" + e for e in ends} | {e + "!=" + it for e in ends} or stp not in ("++" + it, it + "++"):
            raise TranslateError("setupInterfaceTrackers: the loop does not run over the whole interface map")
    acc = r"\b%s\s*(?:->|\.)\s*" % re.escape(it)
    body = re.sub(r"InterfaceInformationChooser\s*<\s*\w+\s*>\s*::\s*getSend\s*\(\s*" + acc + r"second\s*\)", "SENDLIST", body)
    body = re.sub(r"InterfaceInformationChooser\s*<\s*\w+\s*>\s*::\s*getReceive\s*\(\s*" + acc + r"second\s*\)", "RECVLIST", body)
    body = re.sub(r"Impl\s*::\s*callFixedSize\s*\(\s*" + re.escape(H) + r"\s*\)", "FIXED", body)
    body = re.sub(r"\b\w+\s*\.\s*reserve\s*\([^;]*;", " ", body)
    fm = re.search(r"\bfor\s*\(", body)
    j = _match(body, fm.end() - 1, "(", ")")
    k = body.index("{", j)
    loop = _parse_body(_norm(body[k + 1:_match(body, k)]), general_decl=True)
    if body[_match(body, k) + 1:].strip():
        raise TranslateError("setupInterfaceTrackers: statements after the loop")
    pre = _parse_body(_norm(body[:fm.start()]))
    # references / unmodified copies of the two index lists inside the loop body stand for the lists
    def subst_id(x, name, ast):
        if isinstance(x, tuple):
            if x == ("id", name):
                return ast
            return tuple(subst_id(y, name, ast) for y in x)
        if isinstance(x, list):
            return [subst_id(y, name, ast) for y in x]
        return x
    body_st = []
    for q, x in enumerate(loop):
        if x[0] == "decl" and len(x) > 3:
            if x[2] is None or key(x[2]) not in ("SENDLIST", "RECVLIST"):
                raise TranslateError("setupInterfaceTrackers: local '%s' outside the grammar" % x[1])
            if any(_mods(y, x[1]) for y in loop[q + 1:]):
                raise TranslateError("setupInterfaceTrackers: local '%s' is modified" % x[1])
            loop = loop[:q + 1] + [subst_id(y, x[1], x[2]) for y in loop[q + 1:]]
            continue
        body_st.append(loop[q])
    loop = body_st
    var = None

    def upd(e, env):
        inc = _inc_of(e, var)
        if inc is not None:
            return "(fixedsize + %s)" % nat(conv(inc, env))
        if e[0] == "asg" and e[1] == "=" and key(e[2]) == var:
            return nat(conv(e[3], env))
        raise TranslateError("setupInterfaceTrackers: statement outside the grammar: %s" % key(e))

    def fold(stmts, env, lines):
        for s in stmts:
            if _is_assert(s):
                continue
            if s[0] == "if" and s[3] is None and _unblock(s[2]) == [("return", None)]:
                if key(s[1]) not in ("(interface_.size()==0)", "!interface_.size()", "interface_.empty()"):
                    raise TranslateError("setupInterfaceTrackers: early return on another condition")
                continue
            if s[0] == "if" and s[3] is None:
                inner = [x for x in _unblock(s[2]) if not _is_assert(x)]
                if len(inner) != 1 or inner[0][0] != "expr":
                    raise TranslateError("setupInterfaceTrackers: conditional statement outside the grammar")
                lines.append("  let fixedsize := if %s then %s else fixedsize" % (boo(conv(s[1], env)), upd(inner[0][1], env)))
            elif s[0] == "expr" and s[1][0] == "call" and s[1][1][0] == "mem" and s[1][1][2] == "push_back":
                a = s[1][2][0]
                if a[0] != "call" or key(a[1]) != "InterfaceTracker":
                    raise TranslateError("setupInterfaceTrackers: push_back of something else than an InterfaceTracker")
                pushes.append((key(s[1][1][1]), a[2]))
            elif s[0] == "expr":
                lines.append("  let fixedsize := " + upd(s[1], env))
            else:
                raise TranslateError("setupInterfaceTrackers: statement outside the grammar (%s)" % s[0])
    pushes = []
    base = {"FIXED": ("fixed", "bool")}
    lines = []
    env0 = None
    rest_pre = []
    for q, d in enumerate(pre):
        if d[0] != "decl":
            if var is not None:
                rest_pre.append(d)
            elif not (d[0] == "if" and d[3] is None and _unblock(d[2]) == [("return", None)]) and not _is_assert(d):
                raise TranslateError("setupInterfaceTrackers: statement before the carried fixed size is declared")
            else:
                rest_pre.append(d)
            continue
        if d[2] is None:
            raise TranslateError("setupInterfaceTrackers: uninitialised local '%s'" % d[1])
        if d[1] in base or d[1] == var:
            raise TranslateError("setupInterfaceTrackers: local '%s' shadows another name" % d[1])
        if any(_mods(y, d[1]) for y in pre[q + 1:] + loop):
            if var is not None:
                raise TranslateError("setupInterfaceTrackers: one local (the carried fixed size) expected")
            var = d[1]
            lines.append("  let fixedsize := " + nat(conv(d[2], Env(base, _STD))))
            base[var] = ("fixedsize", "nat")
        else:
            if var is not None:
                raise TranslateError("setupInterfaceTrackers: local '%s' declared after the carried fixed size" % d[1])
            base[d[1]] = conv(d[2], Env(base, _STD))   # an unmodified local: its (state-free) value
    if var is None:
        raise TranslateError("setupInterfaceTrackers: one local (the carried fixed size) expected")
    env0 = Env(base, _STD)
    fold(rest_pre, env0, lines)
    if pushes:
        raise TranslateError("setupInterfaceTrackers: tracker created outside the loop")
    out.append("/-- `setupInterfaceTrackers`: the value of the carried fixed size before the loop -/")
    out.append("def trackersInitFixed (fixed : Bool) : Nat :=")
    out.extend(lines)
    out.append("  fixedsize")
    env1 = Env(dict(base, **{"SENDLIST.size()": ("sendLen", "nat"), "RECVLIST.size()": ("recvLen", "nat"),
                              "SENDLIST.empty()": ("(decide (sendLen = 0))", "bool"),
                              "RECVLIST.empty()": ("(decide (recvLen = 0))", "bool")}), _STD)
    env1.fns[H + ".size"] = lambda a: a[0]
    env1.atoms["SENDLIST[0]"] = ("sizeOfFirstSend", "nat")
    lines = []
    # statements up to the first push_back update the carried value; none may follow a push_back
    seen_push = False
    for s in loop:
        n0 = len(pushes)
        tmp = []
        fold([s], env1, tmp)
        if len(pushes) > n0:
            seen_push = True
        elif tmp and seen_push:
            raise TranslateError("setupInterfaceTrackers: the fixed size changes between the two trackers")
        lines.extend(tmp)
    out.append("set_option linter.unusedVariables false in")
    out.append("/-- the carried fixed size after the statements of one loop iteration (`sizeOfFirstSend` = handle.size(send list[0])) -/")
    out.append("def trackersStepFixed (fixed : Bool) (fixedsize sendLen recvLen sizeOfFirstSend : Nat) : Nat :=")
    out.extend(lines)
    out.append("  fixedsize")
    if len(pushes) != 2 or {p[0] for p in pushes} != {ps[1], ps[2]}:
        raise TranslateError("setupInterfaceTrackers: one send and one receive tracker per neighbour expected")
    for vec, args in pushes:
        which = "send" if vec == ps[1] else "recv"
        lst = "SENDLIST" if which == "send" else "RECVLIST"
        if len(args) < 3 or key(args[0]) != it + ".first" or key(args[1]) != lst or key(args[2]) != var:
            raise TranslateError("setupInterfaceTrackers: %s tracker built from %s" % (which, [key(a) for a in args]))
        alloc = boo(conv(args[3], env1)) if len(args) > 3 else "false"
        out.append("set_option linter.unusedVariables false in")
        out.append("/-- the `allocateSizes` argument of the %s tracker -/" % which)
        out.append("def %sAllocSizes (fixedsize : Nat) : Bool := %s" % (which, alloc))


def _size_handle(src, out):
    cls, _ = _region(src, r"class\s+SizeDataHandle\b[^;{]*\{", "class SizeDataHandle")
    ps, body = _member(cls, "fixedSize", "SizeDataHandle::fixedSize")
    out.append("/-- `SizeDataHandle::fixedSize` -/")
    out.append("def sizeHandleFixed : Bool := " + boo(_leaf(body, Env(), "SizeDataHandle::fixedSize")))
    ps, body = _member(cls, "size", "SizeDataHandle::size")
    out.append("set_option linter.unusedVariables false in")
    out.append("/-- `SizeDataHandle::size` -/")
    out.append("def sizeHandleSize (i : Nat) : Nat := " + nat(_leaf(body, Env({ps[0]: ("i", "nat")} if ps else {}), "SizeDataHandle::size")))
    ps, body = _member(cls, "gather", "SizeDataHandle::gather")
    st = [x for x in _parse_body(body) if not _is_assert(x)]
    items = []
    for x in st:
        e = x[1] if x[0] == "expr" else None
        if not e or e[0] != "call" or key(e[1]) != ps[0] + ".write" or len(e[2]) != 1:
            raise TranslateError("SizeDataHandle::gather: only buf.write(..) statements expected")
        env = Env({ps[1]: ("i", "nat")}, _STD)
        env.fns["data_.size"] = lambda a: ("(sizeOf %s)" % nat(a[0]), "nat")
        items.append(nat(conv(e[2][0], env)))
    out.append("/-- what `SizeDataHandle::gather(buf, i)` writes; `sizeOf` = the user handle's `size` -/")
    out.append("def sizeHandleGather (sizeOf : Nat → Nat) (i : Nat) : List Nat := [%s]" % ", ".join(items))


def _completed_loop(head, idx, nc, n_names):
    """header of the loop over the completed requests -> (forms of the request index, forms of the position in the
    completed list, loop variable).  Accepted: an iterator running from idx.begin() to idx.end(), or an index running
    from 0 to idx.size() (the bound may be a local initialised with idx.size() - but not the counter `nc`, which the body
    decrements), both ascending in steps of one: the completed requests are visited once each, in the order MPI
    reported them."""
    parts = _split_semi(head)
    if len(parts) != 3:
        raise TranslateError("checkAndContinue: the loop does not run over all completed requests")
    init, cond, step = [_norm(x) for x in parts]
    inits = {}
    first = True
    for d in _split(init):
        mm = re.fullmatch(r"\s*(?:[\w:<>\s]*?[\s&*>])?(\w+)\s*(?:=\s*(.*?)|\((.*)\))\s*", d, flags=re.S)
        if not mm:
            raise TranslateError("checkAndContinue: the loop does not run over all completed requests")
        inits[mm.group(1)] = re.sub(r"\s+", "", mm.group(2) if mm.group(2) is not None else mm.group(3))
    size_forms = {idx + ".size()"}
    end_forms = {idx + ".end()", "std::end(%s)" % idx}
    begin_forms = {idx + ".begin()", "std::begin(%s)" % idx}
    for nm, v in list(inits.items()) + list(n_names.items()):
        if v in size_forms:
            size_forms.add(nm)
        if v in end_forms:
            end_forms.add(nm)
    c = _P(_tokens(cond)).expr()
    stp = _P(_tokens(step)).expr()
    if c[0] != "bin":
        raise TranslateError("checkAndContinue: the loop does not run over all completed requests")
    if key(c[3]) in inits and key(c[2]) not in inits:
        c = _flip(c)
    v = key(c[2])
    if v not in inits or _inc_of(stp, v) is None or key(_inc_of(stp, v)) != "1":
        raise TranslateError("checkAndContinue: the loop does not run over all completed requests")
    bound = key(c[3])
    if inits[v] in begin_forms and c[1] in ("!=", "<") and bound in end_forms:
        it = ("id", v)
        elem = [(("un", "*", it), "ELEM")]
        pos = [(("bin", "-", it, ("call", ("mem", ("id", idx), "begin"), [])), "POS"),
               (("call", ("id", "std::distance"), [("call", ("mem", ("id", idx), "begin"), []), it]), "POS")]
        return elem, pos, v
    if inits[v] == "0" and c[1] in ("!=", "<") and bound in size_forms:
        it = ("id", v)
        elem = [(("idx", ("id", idx), it), "ELEM"), (("call", ("mem", ("id", idx), "at"), [it]), "ELEM")]
        pos = [(it, "POS")]
        return elem, pos, v
    raise TranslateError("checkAndContinue: the loop does not run over all completed requests")


def _split_semi(s):
    out, depth, cur = [], 0, ""
    for ch in s:
        if ch in "([{":
            depth += 1
        elif ch in ")]}":
            depth -= 1
        if ch == ";" and depth == 0:
            out.append(cur)
            cur = ""
        else:
            cur += ch
    out.append(cur)
    return out


def _check_and_continue(src, out):
    """the body of the loop over the completed requests in checkAndContinue -> Gen.checkAndContinueBody"""
    body, m = _region(src, r"std\s*::\s*size_t\s+checkAndContinue\s*\(([^)]*)\)\s*\{", "checkAndContinue")
    ptxt = m.group(1)
    ps = _params(ptxt)
    if len(ps) != 10:
        raise TranslateError("checkAndContinue: 10 parameters expected, found %d" % len(ps))
    H, TR, RQ, RQ2, BUF, COMM, BF, CF, VALID, GETCOUNT = ps
    dv = re.search(r"\b" + VALID + r"\s*=\s*(true|false)", ptxt)
    dg = re.search(r"\b" + GETCOUNT + r"\s*=\s*(true|false)", ptxt)
    if not dv or not dg:
        raise TranslateError("checkAndContinue: defaults of valid / getCount not found")
    out.append("/-- default arguments (valid, getCount) of `checkAndContinue` -/")
    out.append("def ccDefaults : Bool × Bool := (%s, %s)" % (dv.group(1), dg.group(1)))
    ts = re.search(r"MPI_Testsome\s*\(", body)
    if not ts:
        raise TranslateError("checkAndContinue: MPI_Testsome not found")
    j = _match(body, ts.end() - 1, "(", ")")
    a = [key(x) for x in _P(_tokens(body[ts.start():j + 1])).expr()[2]]
    if len(a) != 5 or a[1] not in ("&" + RQ + "[0]", RQ + ".data()"):
        raise TranslateError("checkAndContinue: MPI_Testsome does not test `%s` (%s)" % (RQ, a))
    nc = a[2].lstrip("&")
    idx = re.match(r"&?(\w+)", a[3]).group(1)
    stv = re.match(r"&?(\w+)", a[4]).group(1)
    if not re.search(r"\b" + idx + r"\s*\.\s*resize\s*\(\s*" + nc + r"\s*\)", body):
        raise TranslateError("checkAndContinue: the index list is not cut to the number of completed requests")
    fm = re.search(r"\bfor\s*\(", body[j:])
    if not fm:
        raise TranslateError("checkAndContinue: loop over the completed requests not found")
    f0 = j + fm.end() - 1
    f1 = _match(body, f0, "(", ")")
    # locals declared between MPI_Testsome and the loop that hold the number of completed requests
    n_names = {}
    for mm in re.finditer(r"\b(?:const\s+)?[\w:]+\s+(?:const\s+)?(\w+)\s*=\s*([^;]*);", body[j:f0 - 3]):
        n_names[mm.group(1)] = re.sub(r"\s+", "", mm.group(2))
    elem, pos, IT = _completed_loop(body[f0 + 1:f1], idx, nc, n_names)
    k = body.index("{", f1)
    k1 = _match(body, k)
    loop = body[k + 1:k1]
    rest = [s for s in _parse_body(_norm(body[k1 + 1:]))]
    if len(rest) != 1 or rest[0][0] != "return" or key(rest[0][1]) != nc:
        raise TranslateError("checkAndContinue: does not return the number of completed requests")
    for nm in n_names:
        if re.search(r"\b%s\b" % nm, loop) and nm != IT:
            raise TranslateError("checkAndContinue: the loop body uses the local '%s'" % nm)
    raw = _parse_body(_norm(loop), general_decl=True)
    # the loop position and the request index under canonical names; local aliases (references, unmodified copies)
    # of them and of trackers[ELEM], buffers[ELEM], requests2[ELEM], statuses[POS] are replaced by what they stand for
    alias = {}

    def sub_e(e):
        if not isinstance(e, tuple):
            return e
        for form, canon in elem:
            if e == form:
                return ("id", canon)
        for form, canon in pos:
            if e == form:
                return ("id", canon)
        if e[0] == "id" and e[1] in alias:
            return alias[e[1]]
        if e[0] == "call":
            return ("call", sub_e(e[1]), [sub_e(x) for x in e[2]])
        if e[0] == "bin" and e[1] == "-":      # (it - v.begin()) carries a parenthesis-free key
            r = ("bin", "-", sub_e(e[2]), sub_e(e[3]))
            return r
        return tuple(sub_e(x) if isinstance(x, tuple) else x for x in e)

    def sub_s(x):
        if x[0] == "expr":
            return ("expr", sub_e(x[1]))
        if x[0] == "if":
            return ("if", sub_e(x[1]), sub_s(x[2]), sub_s(x[3]) if x[3] is not None else None)
        if x[0] == "block":
            return ("block", [sub_s(y) for y in x[1]])
        if x[0] == "decl":
            return x if x[2] is None else (x[0], x[1], sub_e(x[2])) + tuple(x[3:])
        if x[0] == "return":
            return ("return", sub_e(x[1]) if x[1] is not None else None)
        raise TranslateError("checkAndContinue: statement '%s' outside the grammar in the loop body" % x[0])
    allowed = {"ELEM", "POS", "%s[ELEM]" % TR, "%s[ELEM]" % BUF, "%s[ELEM]" % RQ2, "%s[POS]" % stv}
    st = []
    for q, x in enumerate(raw):
        if _is_assert(x):
            continue
        if x[0] == "decl" and x[2] is not None:
            v = sub_e(x[2])
            ref = len(x) > 3 and x[3]
            if key(v) not in allowed:
                raise TranslateError("checkAndContinue: local '%s' = %s is outside the grammar" % (x[1], key(x[2])))
            if x[1] in alias or any(x[1] == y for y in ps) or x[1] in (idx, stv, nc):
                raise TranslateError("checkAndContinue: local '%s' shadows another name" % x[1])
            if not ref and key(v) not in ("ELEM", "POS"):
                raise TranslateError("checkAndContinue: '%s' is a copy of %s, not a reference" % (x[1], key(v)))
            if not ref and any(_mods(y, x[1]) for y in raw[q + 1:]):
                raise TranslateError("checkAndContinue: local '%s' is modified" % x[1])
            alias[x[1]] = v
            continue
        st.append(sub_s(x))
    if re.search(r"\b%s\b" % idx, _keys(st)) or (IT and re.search(r"\b%s\b" % IT, _keys(st))):
        raise TranslateError("checkAndContinue: the loop body uses the completed list / the loop variable in another way")
    T = "%s[ELEM]" % TR
    sub = "ELEM"
    want_status = ("&%s[POS]" % stv, "&(%s[POS])" % stv)
    BUFI, RQ2I = "%s[%s]" % (BUF, sub), "%s[%s]" % (RQ2, sub)
    env = Env({T + ".finished()": ("(trackerFinished t.index t.ifaceSize)", "bool"),
               T + ".indicesLeft()": ("(indicesLeft t.index t.ifaceSize)", "nat"),
               T + ".empty()": ("(trackerEmpty t.ifaceSize)", "bool"),
               VALID: ("valid", "bool"), GETCOUNT: ("getCount", "bool")}, _STD)
    lines = []
    seen_bf = [False]
    seen_ri = [False]

    def bf_call(stmts):
        """statements of one branch of the buffer_func call: returns the Lean call"""
        cnt = None
        call = None
        for x in stmts:
            if x[0] == "decl" and x[2] is None:
                cnt = x[1]
            elif x[0] == "expr" and x[1][0] == "call" and key(x[1][1]) == "MPI_Get_count":
                aa = [key(y) for y in x[1][2]]
                if len(aa) != 3 or aa[0] not in want_status or aa[1] != "MPITYPE" or cnt is None or aa[2] != "&" + cnt:
                    raise TranslateError("checkAndContinue: MPI_Get_count(%s) does not read the status at the position in the completed list" % ",".join(aa))
            elif x[0] == "expr" and x[1][0] == "call" and key(x[1][1]) == BF:
                aa = [key(y) for y in x[1][2]]
                if aa[:3] != [H, T, BUFI] or len(aa) > 4 or (len(aa) == 4 and aa[3] != cnt):
                    raise TranslateError("checkAndContinue: buffer_func called with %s" % aa)
                call = "bufferFunc t b %s acc" % ("count" if len(aa) == 4 else "0")
            else:
                raise TranslateError("checkAndContinue: statement outside the grammar next to buffer_func")
        if call is None:
            raise TranslateError("checkAndContinue: branch without buffer_func")
        return call

    def seq(stmts, ind, top):
        for i, x in enumerate(stmts):
            if x[0] == "expr" and x[1][0] == "call" and key(x[1][1]) == "setReceivingIndex":
                if [key(y) for y in x[1][2]] != [H, sub] or seen_bf[0]:
                    raise TranslateError("checkAndContinue: setReceivingIndex(handle, *index) before buffer_func expected")
                seen_ri[0] = True
            elif x[0] == "if" and not seen_bf[0]:
                if x[3] is None:
                    raise TranslateError("checkAndContinue: buffer_func is not called on every path")
                c = boo(conv(x[1], env))
                lines.append("%slet r := if %s then %s else %s" % (ind, c, bf_call(_unblock(x[2])), bf_call(_unblock(x[3]))))
                lines.extend([ind + "let t := r.1", ind + "let b := r.2.1", ind + "let acc := r.2.2",
                              ind + "let g : Option γ := none", ind + "let uncounted := false"])
                seen_bf[0] = True
            elif not seen_bf[0]:
                raise TranslateError("checkAndContinue: statement before buffer_func outside the grammar")
            elif x[0] == "expr" and key(x[1]) == T + ".skipZeroIndices()":
                lines.append(ind + "let t := skipZeroIndices t")
            elif x[0] == "expr" and x[1][0] == "call" and key(x[1][1]) == CF:
                aa = [key(y) for y in x[1][2]]
                if aa != [H, T, BUFI, RQ2I, COMM]:
                    raise TranslateError("checkAndContinue: comm_func called with %s" % aa)
                lines.extend([ind + "let q := commFunc t b", ind + "let t := q.1", ind + "let b := q.2.1",
                              ind + "let g := some q.2.2"])
            elif x[0] == "if" and x[3] is None and [key(y[1]) for y in _unblock(x[2]) if y[0] == "expr"] in (["--" + nc], [nc + "--"], [nc + "-=1"]) \
                    and len(_unblock(x[2])) == 1:
                lines.append("%slet uncounted := %s" % (ind, boo(conv(x[1], env))))
            elif x[0] == "if" and x[3] is None and top and i == len(stmts) - 1:
                lines.append("%sif %s then" % (ind, boo(conv(x[1], env))))
                seq(_unblock(x[2]), ind + "  ", False)
                lines.append(ind + "  (t, b, acc, g, uncounted)")
                lines.append(ind + "else (t, b, acc, g, uncounted)")
                return True
            else:
                raise TranslateError("checkAndContinue: statement outside the grammar: %s" % (key(x[1]) if x[0] == "expr" else x[0]))
        return False
    closed = seq(st, "  ", True)
    if not closed:
        lines.append("  (t, b, acc, g, uncounted)")
    if not seen_ri[0]:
        raise TranslateError("checkAndContinue: setReceivingIndex(handle, *index) missing")
    out.append("/-- the body of the loop over the completed requests of `checkAndContinue`, for one completed request:")
    out.append("    (tracker, buffer, accumulator, `some` result of comm_func if a new communication was set up, `--no_completed` happened) -/")
    out.append("def checkAndContinueBody {σ β γ : Type} (getCount valid : Bool)")
    out.append("    (bufferFunc : Tracker → MessageBuffer β → Nat → σ → Tracker × MessageBuffer β × σ)")
    out.append("    (commFunc : Tracker → MessageBuffer β → Tracker × MessageBuffer β × γ)")
    out.append("    (count : Nat) (t : Tracker) (b : MessageBuffer β) (acc : σ) :")
    out.append("    Tracker × MessageBuffer β × σ × Option γ × Bool :=")
    out.extend(lines)


def _progress_loops(src, out):
    """the three progress loops: which counter guards / is decremented by which call on which vectors, checked for
    consistency (name-independent): guard = the decremented counter (or validRecvRequests of the request vector handed to
    the call), loop condition = sum of exactly the decremented counters, counter initialised from the request vector
    (variable path: count_if) resp. reduced over the tracker vector (fixed path: empty trackers) the call works on,
    and (trackers, buffers, requests) of the call = a triple set up together by one setupRequests call with the
    functor of that role."""
    rows = []
    for fn in ("communicateFixedSize", "communicateSizes", "communicateVariableSize"):
        body, _ = _region(src, r"VariableSizeCommunicator\s*<\s*Allocator\s*>\s*::\s*" + fn + r"\s*\([^)]*\)\s*\{", fn)
        body = re.sub(r"\b(\w+)\s*<[^;()]*?>\s*\(\s*\)", r"\1()", body)
        # setupRequests triples
        triples = {}
        for m in re.finditer(r"\bsetupRequests\s*\(", body):
            j = _match(body, m.end() - 1, "(", ")")
            a = [re.sub(r"\s+", "", x) for x in _split(body[m.end():j])]
            if len(a) != 6:
                raise TranslateError("%s: setupRequests with %d arguments" % (fn, len(a)))
            triples[(a[1], a[2], a[3])] = a[4]
        # count_if initialisations
        init = {}
        for m in re.finditer(r"\b(\w+)\s*=\s*std\s*::\s*count_if\s*\(\s*(\w+)\s*\.\s*begin\s*\(\s*\)\s*,\s*(\w+)\s*\.\s*end", body):
            if m.group(2) == m.group(3):
                init[m.group(1)] = m.group(2)
        # fixed path: `for(.. i=X.begin() ..) if(i->empty()) --C;`
        red = {}
        DEC = r"(?:--\s*(\w+)|(\w+)\s*--|(\w+)\s*-=\s*1)\s*;"

        def setred(m, vec, g0):
            c = m.group(g0) or m.group(g0 + 1) or m.group(g0 + 2)
            if c in red:
                raise TranslateError("%s: counter %s reduced twice" % (fn, c))
            red[c] = vec
        # iterator loop
        for m in re.finditer(r"\bfor\s*\([^;()]*?(\w+)\s*=\s*(\w+)\s*\.\s*begin\s*\(\s*\)[^;]*;\s*(\w+)\s*!=\s*(?:\w+|(\w+)\s*\.\s*end\s*\(\s*\))\s*;\s*(?:\+\+\s*(\w+)|(\w+)\s*\+\+)\s*\)\s*\{?\s*if\s*\(\s*(\w+)\s*->\s*empty\s*\(\s*\)\s*\)\s*\{?\s*" + DEC, body):
            it = m.group(1)
            if m.group(3) != it or (m.group(5) or m.group(6)) != it or m.group(7) != it or (m.group(4) and m.group(4) != m.group(2)):
                raise TranslateError("%s: reduction loop over the trackers outside the grammar" % fn)
            setred(m, m.group(2), 8)
        # range-for
        for m in re.finditer(r"\bfor\s*\(\s*(?:const\s+)?[\w:]+\s*(?:const\s*)?&?\s*(\w+)\s*:\s*(\w+)\s*\)\s*\{?\s*if\s*\(\s*(\w+)\s*\.\s*empty\s*\(\s*\)\s*\)\s*\{?\s*" + DEC, body):
            if m.group(3) != m.group(1):
                raise TranslateError("%s: reduction loop over the trackers outside the grammar" % fn)
            setred(m, m.group(2), 4)
        # index loop
        for m in re.finditer(r"\bfor\s*\(\s*[\w:]+\s+(\w+)\s*=\s*0\s*;\s*(\w+)\s*(?:<|!=)\s*(\w+)\s*\.\s*size\s*\(\s*\)\s*;\s*(?:\+\+\s*(\w+)|(\w+)\s*\+\+)\s*\)\s*\{?\s*if\s*\(\s*(\w+)\s*\[\s*(\w+)\s*\]\s*\.\s*empty\s*\(\s*\)\s*\)\s*\{?\s*" + DEC, body):
            k = m.group(1)
            if m.group(2) != k or (m.group(4) or m.group(5)) != k or m.group(7) != k or m.group(6) != m.group(3):
                raise TranslateError("%s: reduction loop over the trackers outside the grammar" % fn)
            setred(m, m.group(3), 8)
        # std::count_if with a predicate that is `t.empty()` (inline lambda, named lambda, std::mem_fn)
        LAM = r"\[\s*\]\s*\(\s*(?:const\s+)?InterfaceTracker\s*(?:const\s*)?&\s*(\w+)\s*\)\s*(?:->\s*bool\s*)?\{\s*return\s+(\w+)\s*\.\s*empty\s*\(\s*\)\s*;\s*\}"
        preds = {}
        for m in re.finditer(r"\b(?:const\s+)?auto\s+(?:const\s+)?(\w+)\s*=\s*" + LAM + r"\s*;", body):
            if m.group(2) == m.group(3):
                preds[m.group(1)] = True
        for m in re.finditer(r"\b(\w+)\s*-=\s*std\s*::\s*count_if\s*\(\s*(\w+)\s*\.\s*c?begin\s*\(\s*\)\s*,\s*(\w+)\s*\.\s*c?end\s*\(\s*\)\s*,\s*(?:(\w+)|" + LAM + r"|std\s*::\s*mem_fn\s*\(\s*&\s*InterfaceTracker\s*::\s*empty\s*\))\s*\)\s*;", body):
            if m.group(2) != m.group(3) or (m.group(4) and m.group(4) not in preds) or m.group(5) != m.group(6):
                raise TranslateError("%s: std::count_if reduction outside the grammar" % fn)
            if m.group(1) in red:
                raise TranslateError("%s: counter %s reduced twice" % (fn, m.group(1)))
            red[m.group(1)] = m.group(2)
        wm = re.search(r"\bwhile\s*\(", body)
        if not wm:
            raise TranslateError("%s: progress loop not found" % fn)
        j = _match(body, wm.end() - 1, "(", ")")
        cond = _P(_tokens(body[wm.end():j])).expr()
        k = body.index("{", j)
        loop = _parse_body(body[k + 1:_match(body, k)])

        def summands(e):
            if e[0] == "bin" and e[1] == "+":
                return summands(e[2]) + summands(e[3])
            return [key(e)]
        cs = summands(cond)
        dec = []
        entries = []
        for st in loop:
            if st[0] != "if" or st[3] is not None:
                raise TranslateError("%s: statement outside the grammar in the progress loop" % fn)
            inner = _unblock(st[2])
            if len(inner) != 1 or inner[0][0] != "expr" or inner[0][1][0] != "asg" or inner[0][1][1] != "-=" or inner[0][1][3][0] != "call":
                raise TranslateError("%s: `counter -= check..(..)` expected in the progress loop" % fn)
            c = key(inner[0][1][2])
            callee = key(inner[0][1][3][1])
            args = [key(x) for x in inner[0][1][3][2]]
            if callee == "checkSendAndContinueSending":
                role, tr, rq, bf, functor = "send", args[1], args[2], args[3], "SetupSendRequest()"
            elif callee == "checkReceiveAndContinueReceiving":
                role, tr, rq, bf, functor = "recv", args[1], args[2], args[3], "SetupRecvRequest()"
            elif callee == "receiveSizeAndSetupReceive":
                role, tr, rq, bf, functor = "size", args[1], args[3], args[4], None
            elif callee == "checkAndContinue":
                role, tr, rq, bf, functor = "recv", args[1], args[2], args[4], "SetupRecvRequest()"
                if args[3] != args[2] or args[6:] != ["UnpackSizeEntries()", "SetupRecvRequest()"]:
                    raise TranslateError("%s: checkAndContinue called with %s" % (fn, args))
            else:
                raise TranslateError("%s: unknown call %s in the progress loop" % (fn, callee))
            entries.append((role, key(st[1]), c, tr, rq, bf, functor))
            dec.append(c)
        size_triple = [(tr, bf, rq) for (role, g, c, tr, rq, bf, functor) in entries if role == "size"]
        for (role, g, c, tr, rq, bf, functor) in entries:
            if role == "size":
                # one scalar per neighbour: the counter starts at interface_->size(); the data receive is set up by the call
                rows.append((fn, role, g == c, True, True))
                continue
            guard_ok = g == c or g == "validRecvRequests(%s)" % rq
            init_ok = (init.get(c) == rq) if fn != "communicateFixedSize" else (red.get(c) == tr)
            if (tr, bf, rq) in triples:
                triple_ok = triples[(tr, bf, rq)] == functor
            else:
                triple_ok = role == "recv" and size_triple == [(tr, bf, rq)]
            rows.append((fn, role, guard_ok, init_ok, triple_ok))
        rows.append((fn, "loop", sorted(cs) == sorted(dec), len(set(dec)) == len(dec), True))
    out.append("/-- (function, role of the call, guard consistent, counter initialised over the vectors the call works on,")
    out.append("    (trackers, buffers, requests) set up together with the functor of that role); the row \"loop\": loop condition =")
    out.append("    sum of the decremented counters, every counter decremented by one call -/")
    out.append("def progressLoops : List (String × String × Bool × Bool × Bool) := [%s]" %
               ", ".join('("%s", "%s", %s, %s, %s)' % (a, b, str(c).lower(), str(d).lower(), str(e).lower()) for a, b, c, d, e in rows))


def _progress(src, out):
    """data table: wrappers -> the request vectors, functors and flags they hand to checkAndContinue"""
    wr = []
    for fn in ("receiveSizeAndSetupReceive", "checkSendAndContinueSending", "checkReceiveAndContinueReceiving"):
        body, m = _region(src, r"std\s*::\s*size_t\s+" + fn + r"\s*\(([^)]*)\)\s*\{", fn)
        ps = _params(m.group(1))
        body = _norm(body)
        mm = re.search(r"return\s+checkAndContinue\s*\(", body)
        if not mm:
            raise TranslateError("%s does not return checkAndContinue(..)" % fn)
        j = _match(body, mm.end() - 1, "(", ")")
        raw = body[mm.end():j]
        # `const T x = e;` in front of the call: x stands for e (e must not mention an earlier local; nothing else may
        # precede the call, so e is evaluated in the same state as the argument would be)
        pre = body[:mm.start()]
        locs = {}
        for d in re.finditer(r"\s*const\s+[\w:]+\s+(\w+)\s*=\s*([^;]*);", pre):
            locs[d.group(1)] = "(" + d.group(2).strip() + ")" if re.search(r"[-+*/%<>=&|?]", d.group(2)) and not re.fullmatch(r"\s*!?[\w:]+\s*(\([^()]*\))?\s*", d.group(2)) else d.group(2).strip()
        if re.sub(r"\s*const\s+[\w:]+\s+(\w+)\s*=\s*([^;]*);", "", pre).strip() or body[j + 1:].strip() not in (";", ""):
            raise TranslateError("%s: statements around the checkAndContinue call outside the grammar" % fn)
        for nm, v in locs.items():
            if any(re.search(r"\b%s\b" % re.escape(o), v) for o in locs):
                raise TranslateError("%s: local '%s' depends on another local" % (fn, nm))
        for nm, v in locs.items():
            raw = re.sub(r"\b%s\b" % re.escape(nm), lambda _m, v=v: v, raw)
        raw = re.sub(r"<[^<>()]*>", "", raw)               # Functor<T>() -> Functor()
        raw = re.sub(r"\b(\w+)\s*\(\s*\)", r"\1", raw)   # Functor() -> Functor
        args = [re.sub(r"\s+", "", a) for a in _split(raw)]
        ren = {p: "p%d" % i for i, p in enumerate(ps)}
        args = [ren.get(a, a) for a in args]
        args = [re.sub(r"\b%s\b" % re.escape(ps[0]), "p0", a) for a in args]
        wr.append((fn, args))
    out.append("/-- wrapper -> the argument list it hands to checkAndContinue (parameters renamed p0, p1, ..) -/")
    out.append("def wrappers : List (String × List String) := [%s]" %
               ", ".join('("%s", [%s])' % (f, ", ".join('"%s"' % a for a in args)) for f, args in wr))


def _split(s):
    out, depth, cur = [], 0, ""
    for ch in s:
        if ch in "(<[":
            depth += 1
        elif ch in ")>]":
            depth -= 1
        if ch == "," and depth == 0:
            out.append(cur)
            cur = ""
        else:
            cur += ch
    out.append(cur)
    return out


def translate(repo):
    src = _strip(open(os.path.join(repo, SRC)).read())
    out = ["-- GENERATED by tools/translators/tr_c06.py from %s -- do not edit" % SRC,
           "import DuneVerif.Model.C06Src",
           "namespace DV.C06.Gen",
           "open DV.C06", ""]
    consts = {}
    _message_buffer(src, out)
    _interface_tracker(src, out)
    _pack_unpack(src, out)
    _setup(src, out, consts)
    _scalars(src, consts)
    _buffers(src, out)
    _defaults(src, consts)
    _directions(src, out)
    _size_handle(src, out)
    _check_and_continue(src, out)
    _progress_loops(src, out)
    _progress(src, out)
    for k in ("dataSendTag", "dataRecvTag", "scalarSendTag", "scalarRecvTag", "scalarSendCount", "scalarRecvCount"):
        out.append("def %s : Nat := %d" % (k, consts[k]))
    out.append("/-- the numeric `maxBufferSize_` initialisers of the constructors without a size argument -/")
    out.append("def defaultBufferSizes : List Nat := [%s]" % ", ".join(str(v) for v in consts["defaultBufferSizes"]))
    out.append("def defaultBufferSize : Nat := defaultBufferSizes.headD 0")
    out.append("")
    out.append("end DV.C06.Gen")
    out.append("")
    return [("DuneVerif/Gen/C06.lean", "\n".join(out))]


if __name__ == "__main__":
    import sys
    for path, content in translate(sys.argv[1] if len(sys.argv) > 1 else "/repo"):
        print("--", path)
        print(content)
