"""Translator for C01: the update statements of the eleven matrix-vector kernels mv ... usmhv in
dune/common/densematrix.hh and dune/common/diagonalmatrix.hh, the kernel forwarding of the transposed wrapper
(dune/common/transpose.hh) and the kernels the mixed matrix products are built from (fmatrix.hh, transpose.hh)
are re-read from the source on every run and emitted as the tables in lean/DuneVerif/Gen/C01.lean.

For every dense kernel the tuple
   (outer loop bound, inner loop bound, zero-initialisation of yy[outer], target index variable, update operator
    = / += / -=, alpha factor present, conjugateComplex present, row index variable, column index variable,
    x index variable)
is read off the loop nest; the model's generic interpreter `kernelSem` runs the table, and the theorems in
Props/C01.lean are stated about `kernelSem Gen.sig_<kernel>`.  A swapped index, a changed operator or a dropped
conjugate in the C++ therefore changes the generated table and the theorem no longer checks.  Anything outside
the small grammar below makes the translator fail loudly (-> obligation broken -> search for a failing input).
"""
import os
import re

KERNELS = ["mv", "mtv", "umv", "umtv", "umhv", "mmv", "mmtv", "mmhv", "usmv", "usmtv", "usmhv"]


class TranslateError(Exception):
    pass


def strip_comments(src):
    src = re.sub(r"/\*.*?\*/", " ", src, flags=re.S)
    src = re.sub(r"//[^\n]*", " ", src)
    return src


def match_brace(src, start):
    """src[start] == '{' -> index just after the matching '}'"""
    assert src[start] == "{"
    depth = 0
    for i in range(start, len(src)):
        if src[i] == "{":
            depth += 1
        elif src[i] == "}":
            depth -= 1
            if depth == 0:
                return i + 1
    raise TranslateError("unbalanced braces")


def class_body(src, header_rx, what):
    m = re.search(header_rx, src)
    if not m:
        raise TranslateError("class %s not found" % what)
    b = src.index("{", m.end() - 1)
    return src[b:match_brace(src, b)]


def member_body(cls, name, what):
    """body of the (single) member function `void <name> (...) const { ... }` of a class body"""
    ms = list(re.finditer(r"\bvoid\s+%s\s*\(" % name, cls))
    if len(ms) != 1:
        raise TranslateError("%s: expected exactly one definition of %s, found %d" % (what, name, len(ms)))
    # skip the parameter list
    i = ms[0].end() - 1
    depth = 0
    while True:
        if cls[i] == "(":
            depth += 1
        elif cls[i] == ")":
            depth -= 1
            if depth == 0:
                break
        i += 1
    j = cls.index("{", i)
    if not re.fullmatch(r"\s*(const)?\s*", cls[i + 1:j]):
        raise TranslateError("%s::%s: unexpected tokens between parameter list and body: %r" % (what, name, cls[i + 1:j]))
    return cls[j + 1:match_brace(cls, j) - 1]


def squeeze(s):
    return re.sub(r"\s+", "", s)


ID = r"[A-Za-z_]\w*"


def parse_rhs(rhs, entry_rx, xname, what):
    """[alpha*] [conjugateComplex(] ENTRY [)] * xname[IDX]  ->  (alpha, conj, entry-match, xidx)"""
    alpha = False
    if rhs.startswith("alpha*"):
        alpha = True
        rhs = rhs[len("alpha*"):]
    conj = False
    # the two factors may come in either order (the scalars commute): put the x factor last
    m = re.fullmatch(r"(%s\[%s\])\*(.*)" % (xname, ID), rhs)
    if m:
        rhs = m.group(2) + "*" + m.group(1)
    m = re.fullmatch(r"conjugateComplex\((.*?)\)\*(.*)", rhs)
    if m:
        conj = True
        ent, rest = m.group(1), m.group(2)
    else:
        m = re.fullmatch(r"(.*?\])\*(%s\[.*)" % xname, rhs)
        if not m:
            raise TranslateError("%s: right-hand side outside the grammar: %r" % (what, rhs))
        ent, rest = m.group(1), m.group(2)
    me = re.fullmatch(entry_rx, ent)
    if not me:
        raise TranslateError("%s: matrix entry expression outside the grammar: %r" % (what, ent))
    mx = re.fullmatch(r"%s\[(%s)\]" % (xname, ID), rest)
    if not mx:
        raise TranslateError("%s: x factor outside the grammar: %r" % (what, rest))
    return alpha, conj, me, mx.group(1)


OPS = {"=": ".assign", "+=": ".add", "-=": ".sub"}


def dense_sig(body, name):
    what = "densematrix.hh %s" % name
    b = body
    # preamble: views of x and y, bounds assertions, the field type alias
    b = re.sub(r"auto\s*&&\s*xx\s*=\s*Impl::asVector\(x\)\s*;", "", b)
    b = re.sub(r"auto\s*&&\s*yy\s*=\s*Impl::asVector\(y\)\s*;", "", b)
    b = re.sub(r"DUNE_ASSERT_BOUNDS\((?:[^()]|\([^()]*\))*\)\s*;", "", b)
    b = re.sub(r"using\s+y_field_type\s*=\s*typename\s+FieldTraits<Y>::field_type\s*;", "", b)
    s = squeeze(b)
    # loop header: any index type; bound rows()/cols() or the aliases N()/M(), optionally through this->
    s = re.sub(r"for\((?:std::size_t|size_type|typenameMAT::size_type|int|unsigned|auto)(?=%s=0;)" % ID, "for(size_type", s)
    s = re.sub(r"<(?:this->)?N\(\);", "<rows();", s)
    s = re.sub(r"<(?:this->)?M\(\);", "<cols();", s)
    s = re.sub(r"<this->(rows|cols)\(\);", r"<\1();", s)
    loop = r"for\(size_type(%s)=0;(%s)<(rows|cols)\(\);(?:\+\+(%s)|(%s)\+\+)\)" % (ID, ID, ID, ID)
    def strip_braces(t):
        if t.startswith("{"):
            if not t.endswith("}"):
                raise TranslateError("%s: unbalanced loop body: %r" % (what, s))
            return t[1:-1], True
        return t, False
    m = re.match(loop, s)
    if not m:
        raise TranslateError("%s: loop nest outside the grammar: %r" % (what, s))
    v1, v1b, b1, v1c, v1d = m.groups()
    rest, braced = strip_braces(s[m.end():])
    init = ""
    if not rest.startswith("for("):
        if not braced or ";" not in rest:
            raise TranslateError("%s: statement before the inner loop outside the grammar: %r" % (what, s))
        init, rest = rest[:rest.index(";") + 1], rest[rest.index(";") + 1:]
    m = re.match(loop, rest)
    if not m:
        raise TranslateError("%s: inner loop outside the grammar: %r" % (what, s))
    v2, v2b, b2, v2c, v2d = m.groups()
    stmt, _ = strip_braces(rest[m.end():])
    if not stmt.endswith(";") or stmt.count(";") != 1:
        raise TranslateError("%s: inner loop body is not a single statement: %r" % (what, s))
    stmt = stmt[:-1]
    if v1b != v1 or (v1c or v1d) != v1 or v2b != v2 or (v2c or v2d) != v2 or v1 == v2:
        raise TranslateError("%s: loop headers inconsistent: %r" % (what, s))
    zero = False
    if init:
        if re.fullmatch(r"yy\[%s\]=(?:0|(?:%s|typenameFieldTraits<Y>::field_type)\(0\));" % (re.escape(v1), ID), init):
            zero = True
        else:
            raise TranslateError("%s: statement before the inner loop outside the grammar: %r" % (what, init))
    ms = re.fullmatch(r"yy\[(%s)\](=|\+=|-=)(.*)" % ID, stmt)
    if not ms:
        raise TranslateError("%s: update statement outside the grammar: %r" % (what, stmt))
    tgt, op, rhs = ms.groups()
    alpha, conj, me, xi = parse_rhs(rhs, r"\(\*this\)\[(%s)\]\[(%s)\]" % (ID, ID), "xx", what)
    row, col = me.group(1), me.group(2)
    var = {v1: ".outer", v2: ".inner"}
    for v in (tgt, row, col, xi):
        if v not in var:
            raise TranslateError("%s: index %r is not a loop variable" % (what, v))
    return ("{ outerBound := .%s, innerBound := .%s, zeroInit := %s, tgt := %s, upd := %s, alpha := %s, conj := %s, "
            "row := %s, col := %s, xix := %s }"
            % (b1, b2, "true" if zero else "false", var[tgt], OPS[op], "true" if alpha else "false",
               "true" if conj else "false", var[row], var[col], var[xi]))


def diag_sig(body, name):
    """returns ('sig', text) or ('fwd', kernelname)"""
    what = "diagonalmatrix.hh %s" % name
    b = re.sub(r"#ifdef\s+DUNE_FMatrix_WITH_CHECKING.*?#endif", "", body, flags=re.S)
    s = squeeze(b)
    m = re.fullmatch(r"(%s)\(x,y\);" % ID, s)
    if m:
        if m.group(1) not in KERNELS or m.group(1) == name:
            raise TranslateError("%s: forwards to %r" % (what, m.group(1)))
        return ("fwd", m.group(1))
    m = re.fullmatch(r"for\(size_type(%s)=0;(%s)<n;(?:\+\+(%s)|(%s)\+\+)\)y\[(%s)\](=|\+=|-=)(.*);" % ((ID,) * 5), s)
    if not m:
        raise TranslateError("%s: body outside the grammar: %r" % (what, s))
    v, vb, vc, vd, tgt, op, rhs = m.groups()
    if vb != v or (vc or vd) != v:
        raise TranslateError("%s: loop header inconsistent: %r" % (what, s))
    alpha, conj, me, xi = parse_rhs(rhs, r"diag_\[(%s)\]" % ID, "x", what)
    for idx in (tgt, me.group(1), xi):
        if idx != v:
            raise TranslateError("%s: index %r is not the loop variable %r" % (what, idx, v))
    return ("sig", "{ upd := %s, alpha := %s, conj := %s }"
            % (OPS[op], "true" if alpha else "false", "true" if conj else "false"))


def called_kernels(src, rx, what, expect):
    ks = re.findall(rx, src)
    if len(ks) != expect:
        raise TranslateError("%s: expected %d kernel calls, found %d" % (what, expect, len(ks)))
    for k in ks:
        if k not in KERNELS:
            raise TranslateError("%s: calls %r" % (what, k))
    return ks


def translate(repo):
    rd = lambda f: strip_comments(open(os.path.join(repo, "dune/common", f)).read())
    out = ["-- GENERATED by tools/translators/tr_c01.py from dune/common/{densematrix,diagonalmatrix,transpose,fmatrix}.hh"
           " -- do not edit",
           "import DuneVerif.Model.C01.Basic",
           "namespace DV.C01.Gen",
           "open DV.C01",
           "",
           "-- densematrix.hh: DenseMatrix<MAT>::mv ... usmhv"]
    dm = class_body(rd("densematrix.hh"), r"template\s*<\s*typename\s+MAT\s*>\s*class\s+DenseMatrix\s*\{", "DenseMatrix")
    for k in KERNELS:
        out.append("def sig_%s : KernelSig :=\n  %s" % (k, dense_sig(member_body(dm, k, "DenseMatrix"), k)))
    out.append("def denseSig : KName → KernelSig")
    for k in KERNELS:
        out.append("  | .%s => sig_%s" % (k, k))
    out.append("")
    out.append("-- diagonalmatrix.hh: DiagonalMatrix<K,n>::mv ... usmhv")
    dg = class_body(rd("diagonalmatrix.hh"), r"template\s*<\s*class\s+K\s*,\s*int\s+n\s*>\s*class\s+DiagonalMatrix\s*\{",
                    "DiagonalMatrix")
    res = {k: diag_sig(member_body(dg, k, "DiagonalMatrix"), k) for k in KERNELS}
    for k in KERNELS:  # signatures first, forwards after (a forward must point to a real signature)
        if res[k][0] == "sig":
            out.append("def dsig_%s : DiagSig := %s" % (k, res[k][1]))
    for k in KERNELS:
        if res[k][0] == "fwd":
            if res[res[k][1]][0] != "sig":
                raise TranslateError("diagonalmatrix.hh %s: forwards to a forwarding kernel" % k)
            out.append("def dsig_%s : DiagSig := dsig_%s  -- body is `%s(x, y);`" % (k, res[k][1], res[k][1]))
    out.append("def diagSig : KName → DiagSig")
    for k in KERNELS:
        out.append("  | .%s => dsig_%s" % (k, k))
    out.append("")
    out.append("-- transpose.hh: TransposedMatrixWrapper forwards its kernels to the wrapped matrix")
    tsrc = rd("transpose.hh")
    tw = class_body(tsrc, r"class\s+TransposedMatrixWrapper\s*:\s*public\s+TransposedMatrixWrapperMixin<ResolveRef_t<M>>\s*\{",
                    "TransposedMatrixWrapper")
    out.append("def wrapFwd : KName → Option KName")
    nfw = 0
    for k in KERNELS:
        if not re.search(r"\bvoid\s+%s\s*\(" % k, tw):
            continue
        s = squeeze(member_body(tw, k, "TransposedMatrixWrapper"))
        m = re.fullmatch(r"wrappedMatrix\(\)\.(%s)\(x,y\);" % ID, s)
        if not m or m.group(1) not in KERNELS:
            raise TranslateError("transpose.hh %s: body outside the grammar: %r" % (k, s))
        out.append("  | .%s => some .%s" % (k, m.group(1)))
        nfw += 1
    if nfw < len(KERNELS):
        out.append("  | _ => none")
    if nfw == 0:
        raise TranslateError("transpose.hh: the wrapper offers no kernels")
    ks = called_kernels(squeeze(tw), r"matrixB\.wrappedMatrix\(\)\.(%s)\(matrixA\[j\],result\[j\]\);" % ID,
                        "transpose.hh operator*", 2)
    out.append("-- A * transposedView(B): result row j = B.<kernel>(A[j])   (static-size / dynamic-size branch)")
    out.append("def twMulStatic : KName := .%s" % ks[0])
    out.append("def twMulDynamic : KName := .%s" % ks[1])
    out.append("")
    out.append("-- fmatrix.hh: FieldMatrix * OtherMatrix and OtherMatrix * FieldMatrix (general class, then the 1x1 class)")
    fsrc = squeeze(rd("fmatrix.hh"))
    ks = called_kernels(fsrc, r"matrixB\.(%s)\(matrixA\[j\],result\[j\]\);" % ID, "fmatrix.hh FieldMatrix*Other", 2)
    out.append("def fmMulOther : KName := .%s   -- result row j = B.<kernel>(A[j])" % ks[0])
    out.append("def fm11MulOther : KName := .%s" % ks[1])
    ks = called_kernels(fsrc, r"matrixA\.(%s)\(B_j,result_j\);" % ID, "fmatrix.hh Other*FieldMatrix", 2)
    out.append("def otherMulFm : KName := .%s   -- result column j = A.<kernel>(column j of B)" % ks[0])
    out.append("def otherMulFm11 : KName := .%s" % ks[1])
    out.append("")
    out.append("end DV.C01.Gen")
    return [("DuneVerif/Gen/C01.lean", "\n".join(out) + "\n")]


if __name__ == "__main__":
    import sys
    for path, content in translate(sys.argv[1] if len(sys.argv) > 1 else "/repo"):
        sys.stdout.write(content)
