"""Translator for C01: the update statements of the eleven matrix-vector kernels mv ... usmhv in
dune/common/densematrix.hh and dune/common/diagonalmatrix.hh, the kernel forwarding of the transposed wrapper
(dune/common/transpose.hh) and the kernels the mixed matrix products are built from (fmatrix.hh, transpose.hh)
are re-read from the source on every run and emitted as the tables in lean/DuneVerif/Gen/C01.lean.

For every dense kernel the tuple
   (outer loop bound, inner loop bound, zero-initialisation of yy[outer], target index variable, update operator
    = / += / -=, alpha factor present, conjugateComplex present, row index variable, column index variable,
    x index variable)
is read off the loop nest; the model's generic interpreter `kernelSem` runs the table, and the theorems in
Props/C01.lean are stated about `kernelSem Gen.sig_<kernel>`.  A swapped index, a changed operator or a dropped
conjugate in the C++ therefore changes the generated table and the theorem no longer checks.  Anything outside
the small grammar below makes the translator fail loudly (-> obligation broken -> search for a failing input).
"""
import os
import re

KERNELS = ["mv", "mtv", "umv", "umtv", "umhv", "mmv", "mmtv", "mmhv", "usmv", "usmtv", "usmhv"]


class TranslateError(Exception):
    pass


def strip_comments(src):
    src = re.sub(r"/\*.*?\*/", " ", src, flags=re.S)
    src = re.sub(r"//[^\n]*", " ", src)
    return src


def match_brace(src, start):
    """src[start] == '{' -> index just after the matching '}'"""
    assert src[start] == "{"
    depth = 0
    for i in range(start, len(src)):
        if src[i] == "{":
            depth += 1
        elif src[i] == "}":
            depth -= 1
            if depth == 0:
                return i + 1
    raise TranslateError("unbalanced braces")


def class_body(src, header_rx, what):
    m = re.search(header_rx, src)
    if not m:
        raise TranslateError("class %s not found" % what)
    b = src.index("{", m.end() - 1)
    return src[b:match_brace(src, b)]


def member_body(cls, name, what, inline=True):
    """body of the (single) member function `void <name> (...) const { ... }` of a class body"""
    ms = list(re.finditer(r"\bvoid\s+%s\s*\(" % name, cls))
    if len(ms) != 1:
        raise TranslateError("%s: expected exactly one definition of %s, found %d" % (what, name, len(ms)))
    # skip the parameter list
    i = ms[0].end() - 1
    depth = 0
    while True:
        if cls[i] == "(":
            depth += 1
        elif cls[i] == ")":
            depth -= 1
            if depth == 0:
                break
        i += 1
    j = cls.index("{", i)
    if not re.fullmatch(r"\s*(const)?\s*", cls[i + 1:j]):
        raise TranslateError("%s::%s: unexpected tokens between parameter list and body: %r" % (what, name, cls[i + 1:j]))
    body = cls[j + 1:match_brace(cls, j) - 1]
    return norm_body(body, cls, name, "%s::%s" % (what, name)) if inline else body


def squeeze(s):
    return re.sub(r"\s+", "", s)


ID = r"[A-Za-z_]\w*"


# ------------------------------------------------------------------------------------------------
# round five: normalisation of function bodies before the statement shapes are matched, so that equivalent
# spellings give the same generated text: private helper functions are inlined at their call sites, declared
# locals are renamed to the canonical name the grammar uses, a range-for over *this becomes the index loop
# ------------------------------------------------------------------------------------------------

def split_top(s, sep=","):
    """split at separators outside (), [], {} and <>"""
    parts, depth, cur = [], 0, ""
    for ch in s:
        if ch in "([{<":
            depth += 1
        elif ch in ")]}>":
            depth -= 1
        if ch == sep and depth == 0:
            parts.append(cur)
            cur = ""
        else:
            cur += ch
    parts.append(cur)
    return parts


def param_names(params):
    """names of the parameters of a parameter list (None if one has no name or a default argument)"""
    if not params.strip():
        return []
    names = []
    for prm in split_top(params):
        if "=" in prm:
            return None
        m = re.search(r"(%s)\s*$" % ID, prm)
        if not m or not re.search(r"[\s&*>]$", prm[:m.start()]):
            return None
        names.append(m.group(1))
    return names


CALL_RX = r"(?:(?<=[;{})])|^)(\s*)(?:this->|asImp\(\)\.)?(%s)\s*\(" % ID
NOT_HELPERS = {"for", "if", "while", "switch", "return", "assert", "static_assert", "DUNE_ASSERT_BOUNDS", "DUNE_THROW", "sizeof"}


def inline_helpers(body, cls, self_name, what, depth=0):
    """statement-level calls `helper(args);` of a member function of the same class that is defined exactly once, returns
    nothing and declares no locals outside its loop headers are replaced by the helper's body with the arguments
    substituted for its parameters.  A call that cannot be inlined soundly is left in place (the statement grammar then
    rejects it loudly)."""
    if cls is None or depth > 3:
        return body
    pos = 0
    while True:
        m = re.compile(CALL_RX).search(body, pos)
        if not m:
            return body
        name = m.group(2)
        pos = m.end()
        if name in NOT_HELPERS or name == self_name:
            continue
        # the argument list and the terminating semicolon
        i = m.end() - 1
        d = 0
        j = i
        while j < len(body):
            if body[j] == "(":
                d += 1
            elif body[j] == ")":
                d -= 1
                if d == 0:
                    break
            j += 1
        if j >= len(body):
            continue
        mt = re.match(r"\s*;", body[j + 1:])
        if not mt:
            continue
        defs = find_defs(cls, re.escape(name))
        if len(defs) != 1:
            continue
        params, hbody = defs[0]
        names = param_names(params)
        args = [a.strip() for a in split_top(body[i + 1:j])] if body[i + 1:j].strip() else []
        if names is None or len(names) != len(args):
            continue
        # the helper must be a procedure: no return statement, no declarations except the loop counters
        hb = re.sub(r"#ifdef\s+DUNE_FMatrix_WITH_CHECKING.*?#endif", "", hbody, flags=re.S)
        if re.search(r"\breturn\b", hb):
            continue
        counters = set(re.findall(r"for\s*\(\s*(?:[\w:]+\s+)+(%s)\s*=" % ID, hb))
        outside = re.sub(r"for\s*\([^;]*;", "for(;", hb)
        if re.search(r"\b(?:auto|const|typename|using|typedef|static)\b", outside) or re.search(r"(?<![\w\]\)])%s\s+%s\s*[=;({]" % (ID, ID), outside):
            continue
        # no capture: an argument must not mention a loop counter of the helper
        if any(re.search(r"\b%s\b" % re.escape(c), a) for c in counters for a in args):
            continue
        sub = dict(zip(names, args))
        def rep(mm):
            a = sub[mm.group(0)]
            return a if re.fullmatch(r"%s|\*this" % ID, a) else "(" + a + ")"
        if "*this" in sub.values():
            continue
        if names:
            hb = re.sub(r"(?<![\w.>])(?:%s)\b" % "|".join(re.escape(n) for n in names), rep, hb)
        hb = inline_helpers(hb, cls, name, what, depth + 1)
        end = j + 1 + mt.end()
        # (the helper declares no locals, so braces are only needed where the call is the body of a control statement)
        ctl = body[:m.start()].rstrip().endswith(")") or re.search(r"\belse\s*$", body[:m.start()])
        body = body[:m.start() + len(m.group(1))] + (("{" + hb + "}") if ctl else hb) + body[end:]
        pos = m.start()


PURE_SIZE = r"(?:(?:this->|asImp\(\)\.|%s\.)?(?:size|rows|cols|N|M|dim|mat_rows|mat_cols)\(\)|\d+|ROWS|COLS|SIZE|dimension|rows|cols|n)" % ID


def inline_const_locals(body):
    """`const T name = EXPR;` with T an index type and EXPR an extent of an operand (size(), rows(), M.cols(), ROWS ...):
    the declaration is dropped and the name replaced by EXPR.  (An extent hoisted out of a loop is the extent evaluated in
    every iteration, because the loops of the grammar only assign to entries.)  Anything else is left alone."""
    while True:
        m = re.search(r"\bconst\s+(?:std::size_t|size_type|idx_type|typename\s+\w+::size_type|int|unsigned|auto)\s+(%s)\s*(?:=\s*(%s)|\(\s*(%s)\s*\)|\{\s*(%s)\s*\})\s*;"
                      % (ID, PURE_SIZE, PURE_SIZE, PURE_SIZE), body)
        if not m:
            return body
        name = m.group(1)
        expr = squeeze(m.group(2) or m.group(3) or m.group(4))
        rest = body[:m.start()] + body[m.end():]
        if re.search(r"(?<![\w.>])%s\s*(?:=(?!=)|\+=|-=|\+\+|--)" % re.escape(name), rest) or re.search(r"(?:\+\+|--|&)\s*%s\b" % re.escape(name), rest):
            return body
        body = re.sub(r"(?<![\w.>:])%s\b(?!\s*\()" % re.escape(name), expr, rest)


def norm_loop_headers(s):
    """squeezed text: `for(T i=0; B>i | i!=B | B!=i; i+=1 | i=i+1 | ++i | i++)` -> `for(T i=0;i<B;++i)` (i counts up from 0 in steps
    of one and B is an extent, so `i != B` is `i < B`)"""
    def fix(m):
        ty, v, cond, inc = m.group(1), m.group(2), m.group(3), m.group(4)
        ev = re.escape(v)
        for rx in (r"%s<([^;<>!=]+)" % ev, r"([^;<>!=]+)>%s" % ev, r"%s!=([^;<>!=]+)" % ev, r"([^;<>!=]+)!=%s" % ev):
            mc = re.fullmatch(rx, cond)
            if mc:
                break
        else:
            return m.group(0)
        if not re.fullmatch(r"\+\+%s|%s\+\+|%s\+=1|%s=%s\+1|%s=1\+%s" % ((ev,) * 7), inc):
            return m.group(0)
        return "for(%s%s=0;%s<%s;++%s)" % (ty, v, v, mc.group(1), v)
    return re.sub(r"for\(((?:std::size_t|size_type|idx_type|typename\w+::size_type|int|unsigned|auto))(%s)=0;([^;]*);([^;()]*)\)" % ID, fix, s)


def norm_compound(stmt):
    """squeezed statement `L = L op E;` -> `L op= E;` (E without a top-level + or -, for * and / without any operator);
    `L = E + L;` -> `L += E;` (the scalars commute)"""
    m = re.fullmatch(r"([^=;]+)=(.*);", stmt)
    if not m or m.group(1)[-1] in "+-*/!<>":
        return stmt
    lhs, rhs = m.group(1), m.group(2)
    def top_ops(e):
        d, ops = 0, set()
        for k, ch in enumerate(e):
            if ch in "([":
                d += 1
            elif ch in ")]":
                d -= 1
            elif d == 0 and ch in "+-*/" and k > 0:
                ops.add(ch)
        return ops
    for op in "+-*/":
        if rhs.startswith(lhs + op):
            e = rhs[len(lhs) + 1:]
            bad = set("+-") if op in "+-" else set("+-*/")
            if e and not (top_ops(e) & bad) and not e.startswith("-"):
                return "%s%s=%s;" % (lhs, op, e)
    if rhs.endswith("+" + lhs):
        e = rhs[:-len(lhs) - 1]
        if e and not (top_ops(e) & set("+-")) and not e.startswith("-"):
            return "%s+=%s;" % (lhs, e)
    return stmt


def norm_body(body, cls, self_name, what):
    return inline_const_locals(inline_helpers(body, cls, self_name, what))


def rename_local(body, decl_rx, canonical, what):
    """decl_rx: regex of the declaration of a local, spelled with the canonical name; the local may carry any other name
    that does not clash -> body with the local renamed to the canonical name"""
    k = decl_rx.rfind(canonical)
    if k < 0:
        return body
    if re.search(decl_rx, body):
        return body
    gen = decl_rx[:k] + "(?P<lv>" + ID + ")" + decl_rx[k + len(canonical):]
    ms = list(re.finditer(gen, body))
    if len(ms) != 1:
        return body
    nm = ms[0].group("lv")
    if re.search(r"\b%s\b" % re.escape(canonical), body):
        raise TranslateError("%s: local %r cannot be renamed to %r (name in use)" % (what, nm, canonical))
    return re.sub(r"(?<![\w.>])%s\b" % re.escape(nm), canonical, body)


RANGE_FOR = r"for\((?:const)?(?:auto|value_type|field_type|typenameV::value_type|typenameTraits::value_type)(?:const)?&&?(%s):(?:\*this|asImp\(\))\)" % ID
_range_for_checked = {}


def range_for_to_index(s, what):
    """squeezed `for(T& e : *this) STMT` over a DenseVector -> `for(size_type i=0;i<size();i++) STMT[e := (*this)[i]]`
    (by reference only: a by-value loop variable would be a copy)"""
    m = re.match(RANGE_FOR, s)
    it = None
    if not m:
        # explicit iterator loop `for (auto it = begin(); it != end(); ++it) STMT` with the entry spelled `*it` / `(*it)`
        m = re.match(r"for\((?:auto|Iterator|typenameV::Iterator)(%s)=(?:this->|asImp\(\)\.)?begin\(\);\1!=(?:this->|asImp\(\)\.)?end\(\);(?:\+\+\1|\1\+\+)\)" % ID, s)
        if not m:
            return s
        it = m.group(1)
    if not _range_for_checked.get("ok"):
        raise TranslateError("%s: range-for over *this, but begin()/end()/DenseIterator of densevector.hh are outside the grammar" % what)
    e = m.group(1)
    rest = s[m.end():]
    if rest.startswith("{"):
        end = match_brace(rest, 0)
    else:
        if rest.startswith("for(") or ";" not in rest:
            raise TranslateError("%s: body of the range-for outside the grammar: %r" % (what, s[:120]))
        end = rest.index(";") + 1
    stmt, tail = rest[:end], rest[end:]
    iv = "rf_i"
    if re.search(r"\b%s\b" % iv, s):
        raise TranslateError("%s: name %r in use" % (what, iv))
    if it:
        stmt = re.sub(r"\(\*%s\)|(?<![\w\])])\*%s\b" % (re.escape(it), re.escape(it)), "(*this)[%s]" % iv, stmt)
        if re.search(r"\b%s\b" % re.escape(it), stmt):
            raise TranslateError("%s: the iterator is used other than dereferenced: %r" % (what, s[:120]))
    else:
        stmt = re.sub(r"(?<![\w.>])%s\b" % re.escape(e), "(*this)[%s]" % iv, stmt)
    return "for(size_type%s=0;%s<size();%s++)%s%s" % (iv, iv, iv, stmt, tail)


def check_range_for(dvsrc):
    """the iteration protocol a range-for over a DenseVector relies on (densevector.hh): begin() at 0, end() at size(),
    dereference = operator[](position), increment = ++position, equality of positions"""
    t = squeeze(dvsrc)
    need = ["Iteratorbegin(){returnIterator(*this,0);}", "Iteratorend(){returnIterator(*this,size());}",
            "ConstIteratorbegin()const{returnConstIterator(*this,0);}", "ConstIteratorend()const{returnConstIterator(*this,size());}",
            "Rdereference()const{returncontainer_->operator[](position_);}", "voidincrement(){++position_;}",
            "boolequals(constMutableIterator&other)const{returnposition_==other.position_&&container_==other.container_;}",
            "boolequals(constConstIterator&other)const{returnposition_==other.position_&&container_==other.container_;}",
            "DenseIterator(C&cont,SizeTypepos):container_(&cont),position_(pos){}"]
    _range_for_checked["ok"] = all(n in t for n in need)


def parse_rhs(rhs, entry_rx, xname, what):
    """[alpha*] [conjugateComplex(] ENTRY [)] * xname[IDX]  ->  (alpha, conj, entry-match, xidx)"""
    alpha = False
    if rhs.startswith("alpha*"):
        alpha = True
        rhs = rhs[len("alpha*"):]
    conj = False
    # the two factors may come in either order (the scalars commute): put the x factor last
    m = re.fullmatch(r"(%s\[%s\])\*(.*)" % (xname, ID), rhs)
    if m:
        rhs = m.group(2) + "*" + m.group(1)
    m = re.fullmatch(r"conjugateComplex\((.*?)\)\*(.*)", rhs)
    if m:
        conj = True
        ent, rest = m.group(1), m.group(2)
    else:
        m = re.fullmatch(r"(.*?\])\*(%s\[.*)" % xname, rhs)
        if not m:
            raise TranslateError("%s: right-hand side outside the grammar: %r" % (what, rhs))
        ent, rest = m.group(1), m.group(2)
    me = re.fullmatch(entry_rx, ent)
    if not me:
        raise TranslateError("%s: matrix entry expression outside the grammar: %r" % (what, ent))
    mx = re.fullmatch(r"%s\[(%s)\]" % (xname, ID), rest)
    if not mx:
        raise TranslateError("%s: x factor outside the grammar: %r" % (what, rest))
    return alpha, conj, me, mx.group(1)


OPS = {"=": ".assign", "+=": ".add", "-=": ".sub"}


def dense_sig(body, name):
    what = "densematrix.hh %s" % name
    b = body
    # preamble: views of x and y, bounds assertions, the field type alias
    b = re.sub(r"auto\s*&&\s*xx\s*=\s*Impl::asVector\(x\)\s*;", "", b)
    b = re.sub(r"auto\s*&&\s*yy\s*=\s*Impl::asVector\(y\)\s*;", "", b)
    b = re.sub(r"DUNE_ASSERT_BOUNDS\((?:[^()]|\([^()]*\))*\)\s*;", "", b)
    b = re.sub(r"using\s+y_field_type\s*=\s*typename\s+FieldTraits<Y>::field_type\s*;", "", b)
    s = norm_loop_headers(squeeze(b))
    # loop header: any index type; bound rows()/cols() or the aliases N()/M(), optionally through this->
    s = re.sub(r"for\((?:std::size_t|size_type|typenameMAT::size_type|int|unsigned|auto)(?=%s=0;)" % ID, "for(size_type", s)
    s = re.sub(r"<(?:this->)?N\(\);", "<rows();", s)
    s = re.sub(r"<(?:this->)?M\(\);", "<cols();", s)
    s = re.sub(r"<this->(rows|cols)\(\);", r"<\1();", s)
    loop = r"for\(size_type(%s)=0;(%s)<(rows|cols)\(\);(?:\+\+(%s)|(%s)\+\+)\)" % (ID, ID, ID, ID)
    def strip_braces(t):
        if t.startswith("{"):
            if not t.endswith("}"):
                raise TranslateError("%s: unbalanced loop body: %r" % (what, s))
            return t[1:-1], True
        return t, False
    m = re.match(loop, s)
    if not m:
        raise TranslateError("%s: loop nest outside the grammar: %r" % (what, s))
    v1, v1b, b1, v1c, v1d = m.groups()
    rest, braced = strip_braces(s[m.end():])
    init = ""
    if not rest.startswith("for("):
        if not braced or ";" not in rest:
            raise TranslateError("%s: statement before the inner loop outside the grammar: %r" % (what, s))
        init, rest = rest[:rest.index(";") + 1], rest[rest.index(";") + 1:]
    m = re.match(loop, rest)
    if not m:
        raise TranslateError("%s: inner loop outside the grammar: %r" % (what, s))
    v2, v2b, b2, v2c, v2d = m.groups()
    stmt, _ = strip_braces(rest[m.end():])
    if not stmt.endswith(";") or stmt.count(";") != 1:
        raise TranslateError("%s: inner loop body is not a single statement: %r" % (what, s))
    stmt = norm_compound(stmt)[:-1]
    if v1b != v1 or (v1c or v1d) != v1 or v2b != v2 or (v2c or v2d) != v2 or v1 == v2:
        raise TranslateError("%s: loop headers inconsistent: %r" % (what, s))
    zero = False
    if init:
        if re.fullmatch(r"yy\[%s\]=(?:0|(?:%s|typenameFieldTraits<Y>::field_type)\(0\));" % (re.escape(v1), ID), init):
            zero = True
        else:
            raise TranslateError("%s: statement before the inner loop outside the grammar: %r" % (what, init))
    ms = re.fullmatch(r"yy\[(%s)\](=|\+=|-=)(.*)" % ID, stmt)
    if not ms:
        raise TranslateError("%s: update statement outside the grammar: %r" % (what, stmt))
    tgt, op, rhs = ms.groups()
    alpha, conj, me, xi = parse_rhs(rhs, r"\(\*this\)\[(%s)\]\[(%s)\]" % (ID, ID), "xx", what)
    row, col = me.group(1), me.group(2)
    var = {v1: ".outer", v2: ".inner"}
    for v in (tgt, row, col, xi):
        if v not in var:
            raise TranslateError("%s: index %r is not a loop variable" % (what, v))
    return ("{ outerBound := .%s, innerBound := .%s, zeroInit := %s, tgt := %s, upd := %s, alpha := %s, conj := %s, "
            "row := %s, col := %s, xix := %s }"
            % (b1, b2, "true" if zero else "false", var[tgt], OPS[op], "true" if alpha else "false",
               "true" if conj else "false", var[row], var[col], var[xi]))


def diag_sig(body, name, cls=None):
    """returns ('sig', text) or ('fwd', kernelname)"""
    what = "diagonalmatrix.hh %s" % name
    b = re.sub(r"#ifdef\s+DUNE_FMatrix_WITH_CHECKING.*?#endif", "", body, flags=re.S)
    s = squeeze(b)
    m = re.fullmatch(r"(%s)\(x,y\);" % ID, s)
    if m:
        if m.group(1) not in KERNELS or m.group(1) == name:
            raise TranslateError("%s: forwards to %r" % (what, m.group(1)))
        return ("fwd", m.group(1))
    # any other call of a sibling member is inlined (arguments substituted for its parameters) and read as a loop
    b = re.sub(r"#ifdef\s+DUNE_FMatrix_WITH_CHECKING.*?#endif", "", norm_body(body, cls, name, what), flags=re.S)
    s = squeeze(b)
    while s.startswith("{") and match_brace(s, 0) == len(s):
        s = s[1:-1]
    s = norm_loop_headers(s)
    ml = re.fullmatch(r"(for\([^()]*\))(.*;)", s)
    if ml and ml.group(2).count(";") == 1:
        s = ml.group(1) + norm_compound(ml.group(2))
    s = re.sub(r"for\((?:std::size_t|size_type|int|unsigned|auto)(?=%s=0;)" % ID, "for(size_type", s)
    s = re.sub(r"<(?:this->)?(?:N\(\)|M\(\)|rows\(\)|cols\(\)|size\(\));", "<n;", s)
    m = re.fullmatch(r"for\(size_type(%s)=0;(%s)<n;(?:\+\+(%s)|(%s)\+\+)\)y\[(%s)\](=|\+=|-=)(.*);" % ((ID,) * 5), s)
    if not m:
        raise TranslateError("%s: body outside the grammar: %r" % (what, s))
    v, vb, vc, vd, tgt, op, rhs = m.groups()
    if vb != v or (vc or vd) != v:
        raise TranslateError("%s: loop header inconsistent: %r" % (what, s))
    alpha, conj, me, xi = parse_rhs(rhs, r"diag_\[(%s)\]" % ID, "x", what)
    for idx in (tgt, me.group(1), xi):
        if idx != v:
            raise TranslateError("%s: index %r is not the loop variable %r" % (what, idx, v))
    return ("sig", "{ upd := %s, alpha := %s, conj := %s }"
            % (OPS[op], "true" if alpha else "false", "true" if conj else "false"))


def called_kernels(src, rx, what, expect):
    ks = re.findall(rx, src)
    if len(ks) != expect:
        raise TranslateError("%s: expected %d kernel calls, found %d" % (what, expect, len(ks)))
    for k in ks:
        if k not in KERNELS:
            raise TranslateError("%s: calls %r" % (what, k))
    return ks


# ------------------------------------------------------------------------------------------------
# round two: elementwise vector loops (densevector.hh), reductions, the scalar dot (dotproduct.hh),
# product / transposition loop nests (fmatrix.hh, densematrix.hh, dynmatrix.hh), FMatrixHelp::multAssign*
# ------------------------------------------------------------------------------------------------

def find_defs(cls, name_rx):
    """all member function definitions `... <name> ( params ) [const] { body }` whose name matches name_rx
    -> list of (params, body).  Declarations without a body are skipped."""
    res = []
    for m in re.finditer(r"(?<![\w:])(%s)\s*\(" % name_rx, cls):
        i = m.end() - 1
        depth = 0
        j = i
        while j < len(cls):
            if cls[j] == "(":
                depth += 1
            elif cls[j] == ")":
                depth -= 1
                if depth == 0:
                    break
            j += 1
        if j >= len(cls):
            continue
        k = j + 1
        mm = re.match(r"\s*(const)?\s*(noexcept(\([^()]*\))?)?\s*\{", cls[k:])
        if not mm:
            continue
        b = k + mm.end() - 1
        res.append((cls[i + 1:j], cls[b + 1:match_brace(cls, b) - 1]))
    return res


def one_def(cls, name_rx, what, param_filter=None):
    ds = find_defs(cls, name_rx)
    if param_filter is not None:
        ds = [d for d in ds if param_filter(squeeze(d[0]))]
    if len(ds) != 1:
        raise TranslateError("%s: expected exactly one definition, found %d" % (what, len(ds)))
    m = re.search(r"(?:operator\s*\S+|%s)\s*$" % ID, what.split("(")[0])
    return ds[0][0], norm_body(ds[0][1], cls, m.group(0) if m else None, what)


LOOPHDR = r"for\((?:std::size_t|size_type|idx_type|typename\w+::size_type|int|unsigned|auto)(%s)=0;(%s)<([^;]+);(?:\+\+(%s)|(%s)\+\+)\)" % ((ID,) * 4)


def parse_loop(s, what):
    """s (squeezed) starts with a for header -> (var, bound, body, rest); body without the outer braces"""
    mh = re.match(r"for\([^;]*;[^;]*;[^;()]*\)", s)
    if mh:
        s = norm_loop_headers(mh.group(0)) + s[mh.end():]
    m = re.match(LOOPHDR, s)
    if not m:
        raise TranslateError("%s: loop header outside the grammar: %r" % (what, s[:120]))
    v, vb, bound, vc, vd = m.groups()
    if vb != v or (vc or vd) != v:
        raise TranslateError("%s: loop header inconsistent: %r" % (what, s[:120]))
    rest = s[m.end():]
    if rest.startswith("{"):
        e = match_brace(rest, 0)
        return v, bound, rest[1:e - 1], rest[e:]
    # single statement or nested for without braces
    if rest.startswith("for("):
        v2, b2, body2, rest2 = parse_loop(rest, what)
        used = len(rest) - len(rest2)
        return v, bound, rest[:used], rest2
    e = rest.index(";") + 1
    return v, bound, rest[:e], rest[e:]


SIZE_BOUND = r"(?:this->)?(?:size\(\)|N\(\)|dim\(\))"


def elem_sig(body, what, self_names=(r"\(\*this\)",), drop=()):
    """single elementwise loop `for i<size(): T[i] op RHS;` -> (ElemSig text, target-kind)"""
    b = body
    for d in drop:
        b = re.sub(d, "", b)
    b = re.sub(r"DUNE_ASSERT_BOUNDS\((?:[^()]|\([^()]*\))*\)\s*;", "", b)
    b = re.sub(r"\bassert\((?:[^()]|\([^()]*\))*\)\s*;", "", b)
    s = squeeze(b)
    s = re.sub(r"returnasImp\(\);$", "", s)
    s = re.sub(r"return\*this;$", "", s)
    s = range_for_to_index(s, what)
    v, bound, stmt, rest = parse_loop(s, what)
    if not re.fullmatch(SIZE_BOUND, bound):
        raise TranslateError("%s: loop bound %r is not the size" % (what, bound))
    return v, stmt, rest


EOPS = {"=": ".set", "+=": ".add", "-=": ".sub", "*=": ".mul", "/=": ".div"}


def vec_assign_sig(body, what, scalar_alias=None, vec_arg="x", scalar_arg=None):
    """`(*this)[i] op= RHS` with RHS in x[i] | k | a*x[i]"""
    drop = []
    kname = scalar_arg
    if scalar_alias:
        # `const value_type& k = kk;`
        m = re.search(r"const\s+(?:value_type|field_type)\s*&\s*(%s)\s*=\s*%s\s*;" % (ID, scalar_alias), body)
        if not m:
            raise TranslateError("%s: scalar alias statement not found" % what)
        kname = m.group(1)
        drop.append(re.escape(m.group(0)))
    v, stmt, rest = elem_sig(body, what, drop=drop)
    if rest:
        raise TranslateError("%s: unexpected statements after the loop: %r" % (what, rest))
    m = re.fullmatch(r"\(\*this\)\[(%s)\](=|\+=|-=|\*=|/=)(.*);" % ID, norm_compound(stmt))
    if not m or m.group(1) != v:
        raise TranslateError("%s: statement outside the grammar: %r" % (what, stmt))
    op, rhs = m.group(2), m.group(3)
    xi = r"%s\[%s\]" % (vec_arg, re.escape(v))
    if re.fullmatch(xi, rhs):
        r = ".x"
    elif kname and rhs == kname:
        r = ".k"
    elif kname and (re.fullmatch(r"%s\*%s" % (re.escape(kname), xi), rhs) or re.fullmatch(r"%s\*%s" % (xi, re.escape(kname)), rhs)):
        r = ".kx"
    else:
        raise TranslateError("%s: right-hand side outside the grammar: %r" % (what, rhs))
    return "{ op := %s, rhs := %s }" % (EOPS[op], r)


def translate_vectors(repo, out):
    rd = lambda f: strip_comments(open(os.path.join(repo, "dune/common", f)).read())
    check_range_for(rd("densevector.hh"))
    dv = class_body(rd("densevector.hh"), r"template\s*<\s*typename\s+V\s*>\s*class\s+DenseVector\s*\{", "DenseVector")
    isvec = lambda p: "DenseVector<" in p
    notvec = lambda p: "DenseVector<" not in p and p != ""
    out.append("-- densevector.hh: elementwise loops of DenseVector<V>")
    sigs = {}
    sigs["plusAssign"] = vec_assign_sig(one_def(dv, r"operator\+=", "DenseVector::operator+=(vector)", isvec)[1], "DenseVector::operator+=(vector)")
    sigs["minusAssign"] = vec_assign_sig(one_def(dv, r"operator-=", "DenseVector::operator-=(vector)", isvec)[1], "DenseVector::operator-=(vector)")
    sigs["plusAssignScalar"] = vec_assign_sig(one_def(dv, r"operator\+=", "DenseVector::operator+=(scalar)", notvec)[1], "DenseVector::operator+=(scalar)", scalar_alias="kk")
    sigs["minusAssignScalar"] = vec_assign_sig(one_def(dv, r"operator-=", "DenseVector::operator-=(scalar)", notvec)[1], "DenseVector::operator-=(scalar)", scalar_alias="kk")
    sigs["timesAssign"] = vec_assign_sig(one_def(dv, r"operator\*=", "DenseVector::operator*=", notvec)[1], "DenseVector::operator*=", scalar_alias="kk")
    sigs["divAssign"] = vec_assign_sig(one_def(dv, r"operator/=", "DenseVector::operator/=", notvec)[1], "DenseVector::operator/=", scalar_alias="kk")
    sigs["axpy"] = vec_assign_sig(one_def(dv, r"axpy", "DenseVector::axpy")[1], "DenseVector::axpy", scalar_arg="a")
    # unary minus: `V result = asImp(); ... for (...) result[i] = -asImp()[i]; return result;`
    what = "DenseVector::operator-()"
    body = rename_local(one_def(dv, r"operator-", what, lambda p: p == "")[1], NEG_DECL % ("V", "V"), "result", what)
    vneg_result = neg_result(body, what, "V")
    b = re.sub(NEG_DECL % ("V", "V"), "", body)
    b = re.sub(r"using\s+idx_type\s*=[^;]*;", "", b)
    v, stmt, rest = elem_sig(b, what)
    if rest != "returnresult;":
        raise TranslateError("%s: does not return result: %r" % (what, rest))
    m = re.fullmatch(r"result\[(%s)\]=-(?:asImp\(\)|\(\*this\))\[(%s)\];" % (ID, ID), stmt)
    if not m or m.group(1) != v or m.group(2) != v:
        raise TranslateError("%s: statement outside the grammar: %r" % (what, stmt))
    sigs["neg"] = "{ op := .set, rhs := .negSelf }"
    for k in ["plusAssign", "minusAssign", "plusAssignScalar", "minusAssignScalar", "timesAssign", "divAssign", "axpy", "neg"]:
        out.append("def vsig_%s : ElemSig := %s" % (k, sigs[k]))
    out.append("-- the result of unary minus: a value of the autonomous type (for asVector(s): FieldVector<K,1>), or a copy of the operand's own type")
    out.append("def vnegResult : NegResult := %s" % vneg_result)
    # fvector.hh: the binary operators of FieldVector with a scalar
    fv = class_body(rd("fvector.hh"), r"template\s*<\s*class\s+K\s*,\s*int\s+SIZE\s*>\s*class\s+FieldVector\s*:", "FieldVector")
    out.append("-- fvector.hh: FieldVector * scalar, scalar * FieldVector, FieldVector / scalar (fresh result, one loop)")
    for name, rx, params in (("times", r"operator\*", "constFieldVector&vector,Scalarscalar"),
                             ("ltimes", r"operator\*", "Scalarscalar,constFieldVector&vector"),
                             ("over", r"operator/", "constFieldVector&vector,Scalarscalar")):
        what = "FieldVector operator %s" % name
        body = one_def(fv, rx + r"(?!=)", what, lambda p, q=params: p == q)[1]
        out.append("def fvsig_%s : EwSig := %s" % (name, ew_sig(
            body, what, r"FieldVector<T,\s*SIZE>\s*result\s*;", [r"vector\.size\(\)|SIZE|dimension|vector\.N\(\)"],
            {"vector": ".a"}, scalar="scalar")))
    # binary + and -: copy of *this, compound assignment
    binres = []
    for name, opname, gen in (("plus", r"operator\+", "plusAssign"), ("minus", r"operator-", "minusAssign")):
        what = "DenseVector::operator%s(vector)" % ("+" if name == "plus" else "-")
        body = squeeze(one_def(dv, opname + r"(?!=)", what, isvec)[1])
        # `T z = asImp(); return (z += b);` or `...; z += b; return z;` with T the operand's own type (for a view type: a second
        # handle onto the operand) or its autonomous value type; the local and the argument may carry any name
        arg = re.search(r"(%s)$" % ID, squeeze(one_def(dv, opname + r"(?!=)", what, isvec)[0])).group(1)
        m = re.fullmatch(r"(AutonomousValue<(?:V|derived_type)>|V|derived_type|auto)(%s)(?:=asImp\(\)|\(asImp\(\)\)|\{asImp\(\)\});"
                         r"(?:return\(?\2(\+=|-=)%s\)?;|\2(\+=|-=)%s;return\2;)" % (ID, re.escape(arg), re.escape(arg)), body)
        if not m or m.group(2) == arg:
            raise TranslateError("%s: body outside the grammar: %r" % (what, body))
        out.append("def v%sVia : ViaAssign := .%s" % (name, "plusAssign" if (m.group(3) or m.group(4)) == "+=" else "minusAssign"))
        binres.append("def v%sResult : NegResult := %s" % (name, ".autonomous" if m.group(1).startswith("AutonomousValue<") else ".sameType"))
    out.append("-- the result of binary + / -: declared with the operand's own type or with its autonomous value type (see vnegResult)")
    out.extend(binres)
    # comparison: `if ((*this)[i]!=x[i]) return false; ... return true;` and `!=` as its negation
    what = "DenseVector::operator=="
    body = one_def(dv, r"operator==", what, isvec)[1]
    v, stmt, rest = elem_sig(body, what)
    m = re.fullmatch(r"if\(\(\*this\)\[(%s)\]!=x\[(%s)\]\)returnfalse;" % (ID, ID), stmt)
    if not m or m.group(1) != v or m.group(2) != v or rest != "returntrue;":
        raise TranslateError("%s: body outside the grammar: %r %r" % (what, stmt, rest))
    body = squeeze(one_def(dv, r"operator!=", "DenseVector::operator!=", isvec)[1])
    if body != "return!operator==(x);":
        raise TranslateError("DenseVector::operator!=: body outside the grammar: %r" % body)
    out.append("def veqEntrywise : Bool := true   -- operator== returns false at the first i with (*this)[i] != x[i]; operator!= negates it")
    # reductions
    for name, rx, gen in (("dotT", r"operator\*(?!=)", "prod"), ("dot", r"dot", "dot")):
        what = "DenseVector::%s" % ("operator*" if name == "dotT" else "dot")
        body = one_def(dv, rx, what, isvec)[1]
        b = re.sub(r"typedef\s+typename\s+PromotionTraits<[^;]*>::PromotedType\s+PromotedType\s*;", "", body)
        if not re.search(r"PromotedType\s+result\s*\(\s*0\s*\)\s*;", b):
            raise TranslateError("%s: the accumulator does not start at 0" % what)
        b = re.sub(r"PromotedType\s+result\s*\(\s*0\s*\)\s*;", "", b)
        v, stmt, rest = elem_sig(b, what)
        if rest != "returnresult;":
            raise TranslateError("%s: does not return result: %r" % (what, rest))
        a1 = r"\(\*this\)\[%s\]" % re.escape(v)
        a2 = r"x\[%s\]" % re.escape(v)
        if name == "dotT":
            if re.fullmatch(r"result\+=(?:PromotedType\()?%s\*%s\)?;" % (a1, a2), stmt):
                order = ".selfX"
            elif re.fullmatch(r"result\+=(?:PromotedType\()?%s\*%s\)?;" % (a2, a1), stmt):
                order = ".xSelf"
            else:
                raise TranslateError("%s: summand outside the grammar: %r" % (what, stmt))
        else:
            if re.fullmatch(r"result\+=(?:Dune::)?dot\(%s,%s\);" % (a1, a2), stmt):
                order = ".selfX"
            elif re.fullmatch(r"result\+=(?:Dune::)?dot\(%s,%s\);" % (a2, a1), stmt):
                order = ".xSelf"
            else:
                raise TranslateError("%s: summand outside the grammar: %r" % (what, stmt))
        out.append("def v%sOrder : ArgOrder := %s" % (name, order))
    # dotproduct.hh: the scalar dot for complex-like numbers and for real numbers
    dp = squeeze(rd("dotproduct.hh"))
    rets = re.findall(r"->typenamestd::enable_if<IsNumber<A>::value&&!IsVector<A>::value&&(!?)std::is_same<typenameFieldTraits<A>::field_type,typenameFieldTraits<A>::real_type>::value,decltype\(([^()]*(?:\([^()]*\))?[^()]*)\)>::type\{return([^;]*);\}", dp)
    if len(rets) != 2:
        raise TranslateError("dotproduct.hh: expected the two scalar overloads of dot, found %d" % len(rets))
    def conj_arg(expr, what):
        if expr in ("conj(a)*b", "b*conj(a)"):
            return ".first"
        if expr in ("a*conj(b)", "conj(b)*a"):
            return ".second"
        if expr in ("a*b", "b*a"):
            return ".none"
        raise TranslateError("%s: return expression outside the grammar: %r" % (what, expr))
    got = {}
    for neg, _, expr in rets:
        got["complex" if neg == "!" else "real"] = conj_arg(expr, "dotproduct.hh dot")
    if set(got) != {"complex", "real"}:
        raise TranslateError("dotproduct.hh: overload conditions outside the grammar")
    out.append("-- dotproduct.hh: dot(a,b) for numbers whose field type is not / is its real type")
    out.append("def scalarDotComplex : ConjArg := %s" % got["complex"])
    out.append("def scalarDotReal : ConjArg := %s" % got["real"])
    m = re.search(r"template<classA,classB>autodotT\(constA&a,constB&b\)->decltype\(a\*b\)\{return(a\*b|b\*a);\}", dp)
    if not m:
        raise TranslateError("dotproduct.hh: dotT outside the grammar")
    out.append("")


PEXT = {"fstRows": ".fstRows", "fstCols": ".fstCols", "sndRows": ".sndRows", "sndCols": ".sndCols"}


def copyback_ok(rest, rows_b, cols_b):
    """the statements after an in-place product nest that was accumulated in the copy C: `*this = C;` or the nest
    `for i < rows: for j < cols: (*this)[i][j] = C[i][j];` (loops in either order)"""
    if rest in ("*this=C;", "(*this)=C;", "asImp()=C;"):
        return True
    try:
        vi, bi, body_i, r1 = parse_loop(rest, "copy back")
        if r1:
            return False
        vj, bj, stmt, r2 = parse_loop(body_i, "copy back")
        if r2 or vi == vj:
            return False
    except (TranslateError, ValueError):
        return False
    strip = lambda b: re.sub(r"^(?:this->|asImp\(\)\.)", "", b)
    m = re.fullmatch(r"\(\*this\)\[(%s)\]\[(%s)\]=C\[(%s)\]\[(%s)\];" % ((ID,) * 4), stmt)
    if not m or m.group(1) != m.group(3) or m.group(2) != m.group(4):
        return False
    bound = {vi: strip(bi), vj: strip(bj)}
    a, b = m.group(1), m.group(2)
    return {a, b} == {vi, vj} and bound[a] in rows_b and bound[b] in cols_b


def prod_sig(body, what, target, fst, snd, bounds, pre=(), tail=None, local=None):
    """three-deep product nest.  target/fst/snd: regexes of the matrix names; bounds: {source bound text: extent};
    tail: predicate for the statements that may follow the nest (default: none may)"""
    b = body
    for d in pre:
        if local:
            b = rename_local(b, d, local, what)
        b, n = re.subn(d, "", b)
        if n != 1:
            raise TranslateError("%s: expected preamble statement %r" % (what, d))
    b = re.sub(r"DUNE_ASSERT_BOUNDS\((?:[^()]|\([^()]*\))*\)\s*;", "", b)
    b = re.sub(r"static_assert\((?:[^()]|\([^()]*\))*\)\s*;", "", b)
    b = re.sub(r"typedef\s+typename\s+[^;]*size_type\s+size_type\s*;", "", b)
    s = squeeze(b)
    s = re.sub(r"return(?:asImp\(\)|\*this|result|C|ret)?;$", "", s)
    vi, bi, body_i, rest = parse_loop(s, what)
    if tail is not None:
        if not tail(rest):
            raise TranslateError("%s: the statements after the loop nest do not copy the result back: %r" % (what, rest))
    elif rest:
        raise TranslateError("%s: unexpected statements after the loop nest: %r" % (what, rest))
    vj, bj, body_j, rest = parse_loop(body_i, what)
    if rest:
        raise TranslateError("%s: unexpected statements after the middle loop: %r" % (what, rest))
    init = False
    tr0 = tc0 = None
    if not body_j.startswith("for("):
        e = body_j.index(";") + 1
        st, body_j = body_j[:e], body_j[e:]
        m = re.fullmatch(r"(%s)\[(%s)\]\[(%s)\]=(?:0|0\.0|(?:%s)\(0\));" % (target, ID, ID, ID), st)
        if not m:
            raise TranslateError("%s: statement in front of the inner loop outside the grammar: %r" % (what, st))
        init = True
        tr0, tc0 = m.group(2), m.group(3)
    vk, bk, stmt, rest = parse_loop(body_j, what)
    if rest:
        raise TranslateError("%s: unexpected statements after the inner loop: %r" % (what, rest))
    if len({vi, vj, vk}) != 3:
        raise TranslateError("%s: loop variables not distinct" % what)
    var = {vi: ".i", vj: ".j", vk: ".k"}
    m = re.fullmatch(r"(%s)\[(%s)\]\[(%s)\]\+=(.*);" % (target, ID, ID), norm_compound(stmt))
    if not m:
        raise TranslateError("%s: update statement outside the grammar: %r" % (what, stmt))
    tr, tc, rhs = m.group(2), m.group(3), m.group(4)
    if init and (tr0, tc0) != (tr, tc):
        raise TranslateError("%s: the zeroed entry is not the accumulated entry" % what)
    if tr not in (vi, vj) or tc not in (vi, vj):
        raise TranslateError("%s: target index uses the inner loop variable" % what)
    fac = r"(%s|%s)\[(%s)\]\[(%s)\]" % (fst, snd, ID, ID)
    m = re.fullmatch(r"%s\*%s" % (fac, fac), rhs)
    if not m:
        raise TranslateError("%s: product outside the grammar (does it read the matrix being written?): %r" % (what, rhs))
    facs = [(m.group(1), m.group(2), m.group(3)), (m.group(4), m.group(5), m.group(6))]
    same = re.fullmatch(fst, facs[0][0]) and re.fullmatch(snd, facs[0][0])   # fst and snd are the same object
    res = []
    if same:
        # both factors read the same matrix: first factor = fst, second = snd, in the canonical order of their indices
        facs.sort(key=lambda f: (var.get(f[1], "?"), var.get(f[2], "?")))
        res = [("fst", facs[0]), ("snd", facs[1])]
    else:
        for f in facs:
            res.append(("fst" if re.fullmatch(fst, f[0]) else "snd", f))
        if {r[0] for r in res} != {"fst", "snd"}:
            raise TranslateError("%s: the product does not read both inputs: %r" % (what, rhs))
        res.sort(key=lambda r: r[0])   # the scalars commute: first input first
    for _, f in res:
        if f[1] not in var or f[2] not in var:
            raise TranslateError("%s: factor index is not a loop variable: %r" % (what, rhs))
    def ext(bt):
        bt = re.sub(r"^this->", "", bt)
        bt = re.sub(r"^asImp\(\)\.", "", bt)
        if bt not in bounds:
            raise TranslateError("%s: loop bound %r outside the grammar" % (what, bt))
        return PEXT[bounds[bt]]
    return ("{ extI := %s, extJ := %s, extK := %s, tr := %s, tc := %s, init := %s,\n"
            "    f1 := { opd := .fst, r := %s, c := %s }, f2 := { opd := .snd, r := %s, c := %s } }"
            % (ext(bi), ext(bj), ext(bk), var[tr], var[tc], "true" if init else "false",
               var[res[0][1][1]], var[res[0][1][2]], var[res[1][1][1]], var[res[1][1][2]]))


def inplace_sig(body, what, m_first, bounds, pre, rows_b, cols_b):
    """in-place product `*this = M * *this` (m_first) / `*this = *this * M` with a copy C of *this:
    either the nest accumulates in C, reading *this and M, and the result is copied back (-> `.copyBack`: an argument M that
    is the matrix itself is read unmodified), or it writes *this reading C and M (-> `.direct`)"""
    this = r"\(\*this\)"
    errs = []
    for via, target, other in ((".copyBack", "C", this), (".direct", this, "C")):
        fst, snd = ("M", other) if m_first else (other, "M")
        try:
            sig = prod_sig(body, what, target, fst, snd, bounds, pre=pre, local="C",
                           tail=(lambda rest: copyback_ok(rest, rows_b, cols_b)) if via == ".copyBack" else None)
            return sig, via
        except TranslateError as e:
            errs.append(str(e))
    raise TranslateError("%s: neither form of the in-place product: %s" % (what, " / ".join(errs)))


EWOPS = {"+": ".add", "-": ".sub", "*": ".mul", "/": ".div"}


def ew_sig(body, what, decl, bound_rxs, entries, scalar=None, target="result", init_copy=False):
    """fresh-result elementwise loop (nest): `DECL result; for i [for j] result[i][j] = L op R; return result;`
    bound_rxs: regexes of the loop bounds (one per index: rows[, cols]); entries: {source name: '.a' | '.b'} -> EwSig text"""
    b, n = re.subn(decl, "", rename_local(body, decl, target, what))
    if n != 1:
        raise TranslateError("%s: declaration of the result outside the grammar" % what)
    b = re.sub(r"using\s+(?:T|idx_type)\s*=[^;]*;", "", b)
    s = squeeze(b)
    if not s.endswith("return%s;" % target):
        raise TranslateError("%s: does not return %s" % (what, target))
    s = s[:-len("return%s;" % target)]
    vs, bs = [], []
    stmt = s
    for _ in bound_rxs:
        v, bd, stmt, rest = parse_loop(stmt, what)
        if rest:
            raise TranslateError("%s: unexpected statements after a loop: %r" % (what, rest))
        vs.append(v)
        bs.append(bd)
    if len(set(vs)) != len(vs):
        raise TranslateError("%s: loop variables not distinct" % what)
    # which loop runs over which index (rows first): the loops of a nest may come in either order
    order = None
    for perm in ([0], ) if len(vs) == 1 else ([0, 1], [1, 0]):
        if all(re.fullmatch(bound_rxs[k], bs[perm[k]]) for k in range(len(vs))):
            order = perm
            break
    if order is None:
        raise TranslateError("%s: loop bounds %r outside the grammar" % (what, bs))
    idx = "".join(r"\[%s\]" % re.escape(vs[order[k]]) for k in range(len(vs)))
    m = re.fullmatch(r"%s%s=(.*);" % (re.escape(target), idx), stmt)
    if not m:
        raise TranslateError("%s: statement outside the grammar: %r" % (what, stmt))
    rhs = m.group(1)
    def opd(t):
        for name, tag in entries.items():
            if re.fullmatch(r"(?:%s)%s" % (name, idx), t):
                return tag
        if scalar and t == scalar:
            return ".k"
        return None
    m = re.fullmatch(r"-(.*)", rhs)
    if m and opd(m.group(1)):
        return "{ lhs := %s, op := .neg, rhs := %s }" % (opd(m.group(1)), opd(m.group(1)))
    for sym in "+-*/":
        parts = rhs.split(sym)
        if len(parts) == 2 and opd(parts[0]) and opd(parts[1]):
            l, r = opd(parts[0]), opd(parts[1])
            if sym in "+*":   # the scalars form a commutative ring: operands of + and * in canonical order
                l, r = sorted((l, r))
            return "{ lhs := %s, op := %s, rhs := %s }" % (l, EWOPS[sym], r)
    raise TranslateError("%s: right-hand side outside the grammar: %r" % (what, rhs))


def neg_result(body, what, tname):
    """how unary minus declares its result: `AutonomousValue<T> result = asImp();` (a value also for a view) or
    `T result = asImp();` (for a view type: a second handle onto the operand)"""
    if re.search(r"\bAutonomousValue<\s*(?:%s|derived_type)\s*>\s+result\s*(?:=\s*asImp\(\)|\(\s*asImp\(\)\s*\))\s*;" % tname, body):
        return ".autonomous"
    if re.search(r"\b(?:%s|derived_type|auto)\s+result\s*(?:=\s*asImp\(\)|\(\s*asImp\(\)\s*\))\s*;" % tname, body):
        return ".sameType"
    raise TranslateError("%s: the result is not a copy of asImp()" % what)


NEG_DECL = r"\b(?:AutonomousValue<\s*(?:%s|derived_type)\s*>|%s|derived_type|auto)\s+result\s*(?:=\s*asImp\(\)|\(\s*asImp\(\)\s*\))\s*;"


def trans_sig(body, what, rows_b, cols_b, decl):
    b, n = re.subn(decl, "", rename_local(body, decl, "AT", what))
    if n != 1:
        raise TranslateError("%s: declaration of the result outside the grammar" % what)
    s = squeeze(b)
    if not s.endswith("returnAT;"):
        raise TranslateError("%s: does not return AT" % what)
    s = s[:-len("returnAT;")]
    vo, bo, body_o, rest = parse_loop(s, what)
    if rest:
        raise TranslateError("%s: unexpected statements: %r" % (what, rest))
    vn, bn, stmt, rest = parse_loop(body_o, what)
    if rest or vo == vn:
        raise TranslateError("%s: loop nest outside the grammar" % what)
    def dim(bt):
        if re.fullmatch(rows_b, bt):
            return ".rows"
        if re.fullmatch(cols_b, bt):
            return ".cols"
        raise TranslateError("%s: loop bound %r outside the grammar" % (what, bt))
    m = re.fullmatch(r"AT\[(%s)\]\[(%s)\]=\(\*this\)\[(%s)\]\[(%s)\];" % ((ID,) * 4), stmt)
    if not m:
        raise TranslateError("%s: statement outside the grammar: %r" % (what, stmt))
    var = {vo: ".outer", vn: ".inner"}
    for x in m.groups():
        if x not in var:
            raise TranslateError("%s: index %r is not a loop variable" % (what, x))
    return ("{ extO := %s, extI := %s, tr := %s, tc := %s, sr := %s, sc := %s }"
            % (dim(bo), dim(bn), var[m.group(1)], var[m.group(2)], var[m.group(3)], var[m.group(4)]))


def helper_kernel_sig(src, name, what, mat, xname, yname, rows_b, cols_b):
    """FMatrixHelp / DenseMatrixHelp free functions with the loop nest of mv / mtv: rename to the kernel grammar"""
    m = re.search(r"static\s+inline\s+void\s+%s\s*\(" % name, src)
    if not m or len(re.findall(r"static\s+inline\s+void\s+%s\s*\(" % name, src)) != 1:
        raise TranslateError("%s: definition not found (or not unique)" % what)
    b0 = src.index("{", m.end())
    body = inline_const_locals(src[b0 + 1:match_brace(src, b0) - 1])
    body = re.sub(r"DUNE_ASSERT_BOUNDS\((?:[^()]|\([^()]*\))*\)\s*;", "", body)
    body = re.sub(r"typedef\s+typename\s+[^;]*::size_type\s+size_type\s*;", "", body)
    s = squeeze(body)
    s = re.sub(r"<(?:%s);" % rows_b, "<rows();", s)
    s = re.sub(r"<(?:%s);" % cols_b, "<cols();", s)
    s = re.sub(r"\b%s\[" % re.escape(mat), "(*this)[", s)
    s = re.sub(r"\b%s\[" % re.escape(xname), "xx[", s)
    s = re.sub(r"\b%s\[" % re.escape(yname), "yy[", s)
    s = re.sub(r"yy\[(%s)\]=0\.0;" % ID, r"yy[\1]=0;", s)
    return dense_sig(s, name)


def view_assign(body, what, lhs_ptr, rhs_same, rhs_scalar=None):
    """body of an assignment operator of a scalar view -> `.copyEntry` / `.reseat` / `.viaRow`"""
    b = re.sub(r"\bassert\s*\((?:[^()]|\([^()]*\))*\)\s*;", "", body)
    b = squeeze(b)
    if not b.endswith("return*this;"):
        raise TranslateError("%s: does not return *this: %r" % (what, b))
    b = b[:-len("return*this;")]
    if lhs_ptr == "dataP_":
        if rhs_scalar is not None:
            if b == "*dataP_=%s;" % rhs_scalar:
                return ".copyEntry"
        else:
            if b in ("*dataP_=*(%s.dataP_);" % rhs_same, "*dataP_=*%s.dataP_;" % rhs_same, "*dataP_=%s[0];" % rhs_same,
                     "(*this)[0]=%s[0];" % rhs_same):
                return ".copyEntry"
            if b in ("dataP_=%s.dataP_;" % rhs_same, "this->dataP_=%s.dataP_;" % rhs_same):
                return ".reseat"
    else:
        if rhs_scalar is not None:
            if b == "data_=%s;" % rhs_scalar:
                return ".viaRow"
        elif b == "data_=%s.data_;" % rhs_same:
            return ".viaRow"
    raise TranslateError("%s: body outside the grammar: %r" % (what, b))


def translate_views(repo, out):
    """scalarvectorview.hh / scalarmatrixview.hh: what the assignment operators of the scalar views do with their handle;
    transpose.hh: what transposedView() holds"""
    rd = lambda f: strip_comments(open(os.path.join(repo, "dune/common", f)).read())
    out.append("-- scalarvectorview.hh / scalarmatrixview.hh: assignment operators of the scalar views (same type, other scalar type, scalar)")
    for cls_name, fname, ptr, pre in (("ScalarVectorView", "scalarvectorview.hh", "dataP_", "svv"),
                                      ("ScalarMatrixView", "scalarmatrixview.hh", "data_", "smv")):
        cls = class_body(rd(fname), r"template\s*<\s*class\s+K\s*>\s*class\s+%s\s*:" % cls_name, cls_name)
        defs = find_defs(cls, r"operator\s*=")
        same = [d for d in defs if re.fullmatch(r"const%s&(%s)" % (cls_name, ID), squeeze(d[0]))]
        conv = [d for d in defs if re.fullmatch(r"const%s<(%s)>&(%s)" % (cls_name, ID, ID), squeeze(d[0]))]
        scal = [d for d in defs if re.fullmatch(r"constT&(%s)" % ID, squeeze(d[0]))]
        if len(defs) != 3 or len(same) != 1 or len(conv) != 1 or len(scal) != 1:
            raise TranslateError("%s: assignment operators outside the grammar (%d definitions)" % (cls_name, len(defs)))
        arg = lambda d: re.search(r"(%s)$" % ID, squeeze(d[0])).group(1)
        out.append("def %s_assignSame : HAssign := %s" % (pre, view_assign(same[0][1], cls_name + "::operator=(same type)", ptr, arg(same[0]))))
        out.append("def %s_assignConv : HAssign := %s" % (pre, view_assign(conv[0][1], cls_name + "::operator=(other scalar type)", ptr, arg(conv[0]))))
        out.append("def %s_assignScalar : HAssign := %s" % (pre, view_assign(scal[0][1], cls_name + "::operator=(scalar)", ptr, None, arg(scal[0]))))
    # transposedView(matrix) = transpose(std::cref(matrix)): a prvalue reference_wrapper selects the generic transpose(Matrix&&)
    # (a reference_wrapper has no member transposed()), which moves it into TransposedMatrixWrapper<reference_wrapper<const M>>;
    # a const lvalue reference_wrapper selects transpose(const std::reference_wrapper<Matrix>&), which wraps it by class template
    # argument deduction; the wrapper resolves the reference on every access
    t = squeeze(rd("transpose.hh"))
    m = re.search(r"autotransposedView\(constMatrix&(%s)\)\{(.*?)\}" % ID, t)
    if not m:
        raise TranslateError("transpose.hh: transposedView not found")
    a, body = m.group(1), m.group(2)
    wrapper_ok = ("constWrappedMatrix&wrappedMatrix()const{returnresolveRef(matrix_);}" in t
                  and re.search(r"TransposedMatrixWrapper\(M&&matrix\):matrix_\(std::move\(matrix\)\)\{\}", t)
                  and re.search(r"TransposedMatrixWrapper\(constM&matrix\):matrix_\(matrix\)\{\}", t)
                  and "Mmatrix_;" in t)
    generic_ok = re.search(r"autotranspose\(Matrix&&(%s)\)\{returnImpl::TransposedMatrixWrapper<std::decay_t<Matrix>>\(std::forward<Matrix>\(\1\)\);\}" % ID, t)
    if body == "returntranspose(std::cref(%s));" % a and generic_ok and wrapper_ok:
        hold = ".reference"
    elif body == "returnImpl::TransposedMatrixWrapper(std::cref(%s));" % a and wrapper_ok:
        hold = ".reference"
    elif body in ("returntranspose(%s);" % a, "returnImpl::TransposedMatrixWrapper<Matrix>(%s);" % a,
                  "returnImpl::TransposedMatrixWrapper<std::decay_t<Matrix>>(%s);" % a):
        hold = ".copy"
    else:
        raise TranslateError("transpose.hh: transposedView / transpose(Matrix&&) / wrappedMatrix outside the grammar: %r" % body)
    m = re.search(r"autotranspose\(conststd::reference_wrapper<Matrix>&(%s)\)\{(.*?)\}" % ID, t)
    if not m:
        raise TranslateError("transpose.hh: transpose(const std::reference_wrapper<Matrix>&) not found")
    a, body = m.group(1), m.group(2)
    if body == "returnImpl::TransposedMatrixWrapper(%s);" % a and wrapper_ok:
        rhold = ".reference"
    elif re.fullmatch(r"returnImpl::TransposedMatrixWrapper<(?:Matrix|std::remove_const_t<Matrix>|std::decay_t<Matrix>)>\(%s(?:\.get\(\))?\);" % a, body):
        rhold = ".copy"
    else:
        raise TranslateError("transpose.hh: transpose(const std::reference_wrapper<Matrix>&) outside the grammar: %r" % body)
    out.append("-- transpose.hh: transposedView(A) refers to A (later changes of A are seen through the view)")
    out.append("def tvHolds : ViewHold := %s" % hold)
    out.append("-- transpose.hh: transpose(r) for a const lvalue std::reference_wrapper r onto A refers to A as well")
    out.append("def twRefHolds : ViewHold := %s" % rhold)
    out.append("")


def translate(repo):
    rd = lambda f: strip_comments(open(os.path.join(repo, "dune/common", f)).read())
    out = ["-- GENERATED by tools/translators/tr_c01.py from dune/common/{densematrix,diagonalmatrix,transpose,fmatrix,fvector,densevector,dotproduct,scalarvectorview,scalarmatrixview}.hh"
           " -- do not edit",
           "import DuneVerif.Model.C01.Basic",
           "namespace DV.C01.Gen",
           "open DV.C01",
           "",
           "-- densematrix.hh: DenseMatrix<MAT>::mv ... usmhv"]
    dm = class_body(rd("densematrix.hh"), r"template\s*<\s*typename\s+MAT\s*>\s*class\s+DenseMatrix\s*\{", "DenseMatrix")
    for k in KERNELS:
        out.append("def sig_%s : KernelSig :=\n  %s" % (k, dense_sig(member_body(dm, k, "DenseMatrix"), k)))
    out.append("def denseSig : KName → KernelSig")
    for k in KERNELS:
        out.append("  | .%s => sig_%s" % (k, k))
    out.append("")
    out.append("-- diagonalmatrix.hh: DiagonalMatrix<K,n>::mv ... usmhv")
    dg = class_body(rd("diagonalmatrix.hh"), r"template\s*<\s*class\s+K\s*,\s*int\s+n\s*>\s*class\s+DiagonalMatrix\s*\{",
                    "DiagonalMatrix")
    res = {k: diag_sig(member_body(dg, k, "DiagonalMatrix", inline=False), k, dg) for k in KERNELS}
    for k in KERNELS:  # signatures first, forwards after (a forward must point to a real signature)
        if res[k][0] == "sig":
            out.append("def dsig_%s : DiagSig := %s" % (k, res[k][1]))
    for k in KERNELS:
        if res[k][0] == "fwd":
            if res[res[k][1]][0] != "sig":
                raise TranslateError("diagonalmatrix.hh %s: forwards to a forwarding kernel" % k)
            out.append("def dsig_%s : DiagSig := dsig_%s  -- body is `%s(x, y);`" % (k, res[k][1], res[k][1]))
    out.append("def diagSig : KName → DiagSig")
    for k in KERNELS:
        out.append("  | .%s => dsig_%s" % (k, k))
    out.append("")
    out.append("-- transpose.hh: TransposedMatrixWrapper forwards its kernels to the wrapped matrix")
    tsrc = rd("transpose.hh")
    tw = class_body(tsrc, r"class\s+TransposedMatrixWrapper\s*:\s*public\s+TransposedMatrixWrapperMixin<ResolveRef_t<M>>\s*\{",
                    "TransposedMatrixWrapper")
    out.append("def wrapFwd : KName → Option KName")
    nfw = 0
    for k in KERNELS:
        if not re.search(r"\bvoid\s+%s\s*\(" % k, tw):
            continue
        s = squeeze(member_body(tw, k, "TransposedMatrixWrapper"))
        m = re.fullmatch(r"wrappedMatrix\(\)\.(%s)\(x,y\);" % ID, s)
        if not m or m.group(1) not in KERNELS:
            raise TranslateError("transpose.hh %s: body outside the grammar: %r" % (k, s))
        out.append("  | .%s => some .%s" % (k, m.group(1)))
        nfw += 1
    if nfw < len(KERNELS):
        out.append("  | _ => none")
    if nfw == 0:
        raise TranslateError("transpose.hh: the wrapper offers no kernels")
    ks = called_kernels(squeeze(tw), r"matrixB\.wrappedMatrix\(\)\.(%s)\(matrixA\[j\],result\[j\]\);" % ID,
                        "transpose.hh operator*", 2)
    out.append("-- A * transposedView(B): result row j = B.<kernel>(A[j])   (static-size / dynamic-size branch)")
    out.append("def twMulStatic : KName := .%s" % ks[0])
    out.append("def twMulDynamic : KName := .%s" % ks[1])
    out.append("")
    out.append("-- fmatrix.hh: FieldMatrix * OtherMatrix and OtherMatrix * FieldMatrix (general class, then the 1x1 class)")
    fsrc = squeeze(rd("fmatrix.hh"))
    ks = called_kernels(fsrc, r"matrixB\.(%s)\(matrixA\[j\],result\[j\]\);" % ID, "fmatrix.hh FieldMatrix*Other", 2)
    out.append("def fmMulOther : KName := .%s   -- result row j = B.<kernel>(A[j])" % ks[0])
    out.append("def fm11MulOther : KName := .%s" % ks[1])
    ks = called_kernels(fsrc, r"matrixA\.(%s)\(B_j,result_j\);" % ID, "fmatrix.hh Other*FieldMatrix", 2)
    out.append("def otherMulFm : KName := .%s   -- result column j = A.<kernel>(column j of B)" % ks[0])
    out.append("def otherMulFm11 : KName := .%s" % ks[1])
    out.append("")
    translate_vectors(repo, out)
    translate_views(repo, out)
    # product loop nests
    out.append("-- three-deep product loop nests (first / second input, loop extents, target entry, factors)")
    fraw = rd("fmatrix.hh")
    fm = class_body(fraw, r"template\s*<\s*class\s+K\s*,\s*int\s+ROWS\s*,\s*int\s+COLS\s*>\s*class\s+FieldMatrix\s*:", "FieldMatrix")
    body = one_def(fm, r"operator\*", "FieldMatrix operator*(FieldMatrix,FieldMatrix)",
                   lambda p: "FieldMatrix<OtherScalar,COLS,otherCols>" in p)[1]
    out.append("def psig_fmMul : ProdSig :=\n  " + prod_sig(
        body, "fmatrix.hh operator*(FieldMatrix,FieldMatrix)", "result", "matrixA", "matrixB",
        {"matrixA.mat_rows()": "fstRows", "matrixA.mat_cols()": "fstCols", "matrixB.mat_rows()": "sndRows",
         "matrixB.mat_cols()": "sndCols", "ROWS": "fstRows", "rows": "fstRows", "COLS": "fstCols", "cols": "fstCols", "otherCols": "sndCols"},
        pre=[r"FieldMatrix<[^;]*>\s*result\s*;"], local="result"))
    body = one_def(fm, r"leftmultiplyany", "FieldMatrix::leftmultiplyany")[1]
    out.append("def psig_fmLeftmultiplyany : ProdSig :=\n  " + prod_sig(
        body, "FieldMatrix::leftmultiplyany", "C", "M", r"\(\*this\)",
        {"l": "fstRows", "M.rows()": "fstRows", "M.N()": "fstRows", "rows": "sndRows", "ROWS": "sndRows", "rows()": "sndRows", "N()": "sndRows",
         "cols": "sndCols", "COLS": "sndCols", "cols()": "sndCols", "M()": "sndCols", "M.cols()": "fstCols", "M.M()": "fstCols"},
        pre=[r"FieldMatrix<K,l,cols>\s*C\s*;"], local="C"))
    body = one_def(fm, r"rightmultiply", "FieldMatrix::rightmultiply")[1]
    inplace = {}
    sig, inplace["fmRightmultiply"] = inplace_sig(
        body, "FieldMatrix::rightmultiply", False,
        {"rows": "fstRows", "ROWS": "fstRows", "rows()": "fstRows", "N()": "fstRows", "cols": "fstCols", "COLS": "fstCols", "cols()": "fstCols",
         "M()": "fstCols", "r": "sndRows", "c": "sndCols", "M.rows()": "sndRows", "M.cols()": "sndCols", "M.N()": "sndRows", "M.M()": "sndCols"},
        [r"FieldMatrix<K,rows,cols>\s*C\s*(?:\(\s*\*this\s*\)|=\s*\*this|\{\s*\*this\s*\})\s*;"], {"rows", "ROWS", "rows()", "N()"}, {"cols", "COLS", "cols()", "M()"})
    out.append("def psig_fmRightmultiply : ProdSig :=\n  " + sig)
    body = one_def(fm, r"rightmultiplyany", "FieldMatrix::rightmultiplyany")[1]
    out.append("def psig_fmRightmultiplyany : ProdSig :=\n  " + prod_sig(
        body, "FieldMatrix::rightmultiplyany", "C", r"\(\*this\)", "M",
        {"rows": "fstRows", "ROWS": "fstRows", "rows()": "fstRows", "N()": "fstRows", "cols": "fstCols", "COLS": "fstCols", "cols()": "fstCols",
         "M()": "fstCols", "l": "sndCols", "M.cols()": "sndCols", "M.M()": "sndCols", "M.rows()": "sndRows", "M.N()": "sndRows"},
        pre=[r"FieldMatrix<K,rows,l>\s*C\s*;"], local="C"))
    body = one_def(dm, r"leftmultiply", "DenseMatrix::leftmultiply")[1]
    sig, inplace["dmLeftmultiply"] = inplace_sig(
        body, "DenseMatrix::leftmultiply", True,
        {"rows()": "sndRows", "N()": "sndRows", "cols()": "sndCols", "M()": "sndCols", "M.rows()": "fstRows", "M.cols()": "fstCols",
         "M.N()": "fstRows", "M.M()": "fstCols", "C.rows()": "sndRows", "C.cols()": "sndCols", "C.N()": "sndRows", "C.M()": "sndCols"},
        [r"AutonomousValue<MAT>\s*C\s*(?:\(\s*asImp\(\)\s*\)|=\s*asImp\(\)|\{\s*asImp\(\)\s*\})\s*;"], {"rows()", "N()", "C.rows()", "C.N()"}, {"cols()", "M()", "C.cols()", "C.M()"})
    out.append("def psig_dmLeftmultiply : ProdSig :=\n  " + sig)
    body = one_def(dm, r"rightmultiply", "DenseMatrix::rightmultiply")[1]
    sig, inplace["dmRightmultiply"] = inplace_sig(
        body, "DenseMatrix::rightmultiply", False,
        {"rows()": "fstRows", "N()": "fstRows", "cols()": "fstCols", "M()": "fstCols", "M.rows()": "sndRows", "M.cols()": "sndCols",
         "M.N()": "sndRows", "M.M()": "sndCols", "C.rows()": "fstRows", "C.cols()": "fstCols", "C.N()": "fstRows", "C.M()": "fstCols"},
        [r"AutonomousValue<MAT>\s*C\s*(?:\(\s*asImp\(\)\s*\)|=\s*asImp\(\)|\{\s*asImp\(\)\s*\})\s*;"], {"rows()", "N()", "C.rows()", "C.N()"}, {"cols()", "M()", "C.cols()", "C.M()"})
    out.append("def psig_dmRightmultiply : ProdSig :=\n  " + sig)
    out.append("-- the in-place products accumulate in the copy C (reading the untouched *this and M, then copy back) or write *this directly")
    for k in ("dmLeftmultiply", "dmRightmultiply", "fmRightmultiply"):
        out.append("def inplace_%s : InPlaceVia := %s" % (k, inplace[k]))
    def free_body(src, rx, what):
        ms = list(re.finditer(rx, src))
        if len(ms) != 1:
            raise TranslateError("%s: definition not found (or not unique)" % what)
        b0 = src.index("{", ms[0].end())
        return inline_const_locals(src[b0 + 1:match_brace(src, b0) - 1])
    body = free_body(fraw, r"static\s+inline\s+void\s+multMatrix\s*\(", "FMatrixHelp::multMatrix")
    out.append("def psig_multMatrix : ProdSig :=\n  " + prod_sig(
        body, "FMatrixHelp::multMatrix", "ret", "A", "B", {"m": "fstRows", "n": "fstCols", "p": "sndCols"}))
    body = free_body(fraw, r"static\s+inline\s+void\s+multTransposedMatrix\s*\(", "FMatrixHelp::multTransposedMatrix")
    out.append("def psig_multTransposedMatrix : ProdSig :=\n  " + prod_sig(
        body, "FMatrixHelp::multTransposedMatrix", "ret", "matrix", "matrix", {"rows": "fstRows", "cols": "fstCols"}))
    out.append("")
    out.append("-- densematrix.hh: unary minus of DenseMatrix (result declared from asImp(), nest rows x cols)")
    what = "DenseMatrix::operator-()"
    body = rename_local(one_def(dm, r"operator-", what, lambda p: p == "")[1], NEG_DECL % ("MAT", "MAT"), "result", what)
    out.append("def mnegResult : NegResult := %s" % neg_result(body, what, "MAT"))
    out.append("def msig_neg : EwSig := %s" % ew_sig(
        body, what, NEG_DECL % ("MAT", "MAT"), [r"(?:this->)?(?:rows\(\)|N\(\))", r"(?:this->)?(?:cols\(\)|M\(\))"],
        {r"asImp\(\)|\(\*this\)": ".a"}))
    out.append("-- fmatrix.hh: FieldMatrix + FieldMatrix, - , * scalar, scalar *, / scalar (fresh result, nest ROWS x COLS)")
    mm = "constFieldMatrix&matrixA,constFieldMatrix<OtherScalar,ROWS,COLS>&matrixB"
    for name, rx, params, ents, sc in (("plus", r"operator\+", mm, {"matrixA": ".a", "matrixB": ".b"}, None),
                                       ("minus", r"operator-", mm, {"matrixA": ".a", "matrixB": ".b"}, None),
                                       ("times", r"operator\*", "constFieldMatrix&matrix,Scalarscalar", {"matrix": ".a"}, "scalar"),
                                       ("ltimes", r"operator\*", "Scalarscalar,constFieldMatrix&matrix", {"matrix": ".a"}, "scalar"),
                                       ("over", r"operator/", "constFieldMatrix&matrix,Scalarscalar", {"matrix": ".a"}, "scalar")):
        what = "FieldMatrix operator %s" % name
        body = one_def(fm, rx + r"(?!=)", what, lambda p, q=params: p == q)[1]
        out.append("def fmsig_%s : EwSig := %s" % (name, ew_sig(
            body, what, r"FieldMatrix<typename\s+PromotionTraits<K,\s*(?:OtherScalar|Scalar)>::PromotedType,\s*ROWS,\s*COLS>\s*result\s*;",
            [r"ROWS|rows|matrix[AB]?\.(?:N|rows|mat_rows)\(\)", r"COLS|cols|matrix[AB]?\.(?:M|cols|mat_cols)\(\)"], ents, scalar=sc)))
    out.append("")
    out.append("-- transposed(): FieldMatrix, DynamicMatrix")
    body = one_def(fm, r"transposed", "FieldMatrix::transposed")[1]
    out.append("def tsig_fm : TransSig := " + trans_sig(body, "FieldMatrix::transposed", r"ROWS|rows", r"COLS|cols",
                                                         r"(?:Dune::)?FieldMatrix<K,\s*COLS,\s*ROWS>\s*AT\s*;"))
    dyn = class_body(rd("dynmatrix.hh"), r"template\s*<\s*class\s+K\s*>\s*class\s+DynamicMatrix\s*:", "DynamicMatrix")
    body = one_def(dyn, r"transposed", "DynamicMatrix::transposed")[1]
    out.append("def tsig_dyn : TransSig := " + trans_sig(body, "DynamicMatrix::transposed", r"this->N\(\)|this->rows\(\)|rows\(\)|N\(\)",
                                                          r"this->M\(\)|this->cols\(\)|cols\(\)|M\(\)",
                                                          r"DynamicMatrix\s+AT\s*\(\s*this->M\(\)\s*,\s*this->N\(\)\s*\)\s*;"))
    out.append("")
    out.append("-- DenseMatrixHelp::multAssign, FMatrixHelp::multAssignTransposed (the loop nests of mv / mtv)")
    out.append("def sig_multAssign : KernelSig :=\n  " + helper_kernel_sig(
        rd("densematrix.hh"), "multAssign", "DenseMatrixHelp::multAssign", "matrix", "x", "ret", r"matrix\.rows\(\)|matrix\.N\(\)", r"matrix\.cols\(\)|matrix\.M\(\)"))
    out.append("def sig_multAssignTransposed : KernelSig :=\n  " + helper_kernel_sig(
        fraw, "multAssignTransposed", "FMatrixHelp::multAssignTransposed", "matrix", "x", "ret", r"rows", r"cols"))
    hs = squeeze(fraw)
    if "usingDune::DenseMatrixHelp::multAssign;" not in hs:
        raise TranslateError("fmatrix.hh: FMatrixHelp::multAssign is not DenseMatrixHelp::multAssign")
    if not re.search(r"mult\(constFieldMatrix<K,rows,cols>&matrix,constFieldVector<K,cols>&x\)\{FieldVector<K,rows>ret;multAssign\(matrix,x,ret\);returnret;\}", hs):
        raise TranslateError("fmatrix.hh: FMatrixHelp::mult outside the grammar")
    if not re.search(r"multTransposed\(constFieldMatrix<K,rows,cols>&matrix,constFieldVector<K,rows>&x\)\{FieldVector<K,cols>ret;multAssignTransposed\(matrix,x,ret\);returnret;\}", hs):
        raise TranslateError("fmatrix.hh: FMatrixHelp::multTransposed outside the grammar")
    out.append("")
    out.append("end DV.C01.Gen")
    return [("DuneVerif/Gen/C01.lean", "\n".join(out) + "\n")]


if __name__ == "__main__":
    import sys
    for path, content in translate(sys.argv[1] if len(sys.argv) > 1 else "/repo"):
        sys.stdout.write(content)
