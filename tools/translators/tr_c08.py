"""Translator for C08: formulas, thresholds and control tables of the closed-form eigenvalue code in
dune/common/fmatrixev.hh (and the LAPACK call sites of fmatrixev.hh / dynmatrixev.hh, the rows()==3 block of
DenseMatrix::determinant) are re-read from the source on every run and emitted as lean/DuneVerif/Gen/C08.lean and
Gen/C08T.lean, generic over core arithmetic classes (Add/Sub/Mul/Div/Neg/NatCast).

Two ways of reading the source:

(1) literal rules (regular expressions + the small expression grammar `tr`): eigenValues2dImpl (p, p2, q, clamp,
    eigenvalues), eigenValues3dImpl (p1, threshold, q loop, p2, p, B scaling, r, clamp, phi, eigenvalue formulas, sort
    flag), the threshold of the 3x3 diagonal special case, its compare-and-swap network when written as one, the 3x3
    assembly `if (r >= 0) {eig0; eig1; crossProduct} else {..}`, the LAPACK declarations (job characters, lwork, buffer
    sizes), the four entry points, DenseMatrix::determinant.

(2) round five: a small C++ front end (ctokenize / CParser / Exec / explore below).  The function body is parsed into
    an AST and executed symbolically along every path; what is compared / emitted is the resulting state, so the spelling
    of the control flow does not matter.  Read this way: max-norm preconditioning of the 2x2 and 3x3 routines, the whole
    eigenvector part of the 2x2 routine (shift, threshold, unit vectors, column choice), crossProduct, eig0 (rows, cross
    products, the decision tree of the search for the longest one), orthoComp, eig1, the copy loops around the three
    LAPACK calls (executed for the orders 1..5), and the 3x3 diagonal special case when it is not written literally.

Anything outside the grammars raises TranslateError, which check.py reports as a broken obligation and answers with a
search for a failing input."""
import os
import re
from fractions import Fraction


class TranslateError(Exception):
    pass


# ------------------------------------------------------------------------------------------------
# C++ expression -> Lean term
# ------------------------------------------------------------------------------------------------
TOKEN = re.compile(r"""
    \s*(?:
      (?P<eps>std::numeric_limits<\s*(?:K|real_type)\s*>::epsilon\(\))   # only the epsilon of the scalar type itself
    | (?P<norm>(?:matrix|scaledMatrix)\s*\.\s*infinity_norm\(\))
    | (?P<cast>(?:real_type|K)\s*\(\s*(?P<castnum>[0-9.]+(?:[eE][-+]?[0-9]+)?)\s*\))
    | (?P<num>(?:[0-9]+\.?[0-9]*|\.[0-9]+)(?:[eE][-+]?[0-9]+)?)
    | (?P<idx>(?P<base>[A-Za-z_][A-Za-z_0-9]*)\s*\[\s*(?P<i>[0-9])\s*\](?:\s*\[\s*(?P<j>[0-9])\s*\])?)
    | (?P<id>[A-Za-z_][A-Za-z_0-9]*)
    | (?P<op>[-+*/(),])
    )""", re.X)


def tokenize(src):
    pos, out = 0, []
    src = src.strip()
    while pos < len(src):
        m = TOKEN.match(src, pos)
        if not m or m.end() == pos:
            raise TranslateError("cannot tokenise %r at %r" % (src, src[pos:pos + 20]))
        pos = m.end()
        if m.group("eps"):
            out.append(("var", "eps"))
        elif m.group("norm"):
            out.append(("var", "normA"))
        elif m.group("cast"):
            out.append(("num", m.group("castnum")))
        elif m.group("num"):
            out.append(("num", m.group("num")))
        elif m.group("idx"):
            base, i, j = m.group("base"), m.group("i"), m.group("j")
            out.append(("var", {"matrix": "m", "scaledMatrix": "m", "eigenValues": "l", "eigenvalues": "l", "vec0": "a", "vec1": "b"}.get(base, base)
                        + i + (j if j is not None else "")))
        elif m.group("id"):
            out.append(("id", m.group("id")))
        else:
            out.append(("op", m.group("op")))
    return out


def lit(text):
    """decimal literal -> Lean term over NatCast/Div (exact rational value of the decimal string)"""
    try:
        f = Fraction(text)
    except Exception:
        raise TranslateError("bad literal %r" % text)
    if f.denominator == 1:
        return "(Nat.cast %d : K)" % f.numerator
    return "((Nat.cast %d : K) / (Nat.cast %d : K))" % (f.numerator, f.denominator)


class Parser:
    FUNCS = {"sqrt", "acos", "cos"}

    def __init__(self, toks, allowed):
        self.t, self.i, self.allowed = toks, 0, allowed

    def peek(self):
        return self.t[self.i] if self.i < len(self.t) else (None, None)

    def eat(self, kind=None, val=None):
        k, v = self.peek()
        if k is None or (kind and k != kind) or (val and v != val):
            raise TranslateError("unexpected token %r (wanted %r %r)" % ((k, v), kind, val))
        self.i += 1
        return v

    def expr(self):
        e = self.term()
        while self.peek() in (("op", "+"), ("op", "-")):
            o = self.eat()
            e = "(%s %s %s)" % (e, o, self.term())
        return e

    def term(self):
        e = self.unary()
        while self.peek() in (("op", "*"), ("op", "/")):
            o = self.eat()
            e = "(%s %s %s)" % (e, o, self.unary())
        return e

    def unary(self):
        if self.peek() == ("op", "-"):
            self.eat()
            return "(-%s)" % self.unary()
        return self.primary()

    def primary(self):
        k, v = self.peek()
        if k == "num":
            self.eat()
            return lit(v)
        if k == "var":
            self.eat()
            if v not in self.allowed:
                raise TranslateError("variable %r not expected here" % v)
            return v
        if k == "id":
            self.eat()
            if v in self.FUNCS:
                self.eat("op", "(")
                e = self.expr()
                self.eat("op", ")")
                if v not in self.allowed:
                    raise TranslateError("function %r not expected here" % v)
                return "(%s %s)" % (v, e)
            if v not in self.allowed:
                raise TranslateError("identifier %r not expected here" % v)
            return v
        if (k, v) == ("op", "("):
            self.eat()
            e = self.expr()
            self.eat("op", ")")
            return e
        raise TranslateError("unexpected token %r" % ((k, v),))


def tr(expr, allowed):
    p = Parser(tokenize(expr), set(allowed))
    e = p.expr()
    if p.i != len(p.t):
        raise TranslateError("trailing tokens in %r" % expr)
    return e


def tr_list(text, allowed):
    """`a, b, c` at top level -> list of Lean terms"""
    parts, depth, cur = [], 0, ""
    for ch in text:
        if ch in "([":
            depth += 1
        if ch in ")]":
            depth -= 1
        if ch == "," and depth == 0:
            parts.append(cur)
            cur = ""
        else:
            cur += ch
    parts.append(cur)
    return [tr(p, allowed) for p in parts]


# ------------------------------------------------------------------------------------------------
# locating the pieces
# ------------------------------------------------------------------------------------------------
def strip_comments(src):
    src = re.sub(r"/\*.*?\*/", lambda m: "\n" * m.group(0).count("\n"), src, flags=re.S)
    return re.sub(r"//[^\n]*", "", src)


def body_after(src, header_rx, what):
    m = re.search(header_rx, src, re.S)
    if not m:
        raise TranslateError("%s not found" % what)
    i = src.index("{", m.end() - 1) if src[m.end() - 1] != "{" else m.end() - 1
    depth, j = 0, i
    while j < len(src):
        if src[j] == "{":
            depth += 1
        elif src[j] == "}":
            depth -= 1
            if depth == 0:
                return src[i + 1:j]
        j += 1
    raise TranslateError("unbalanced braces in %s" % what)


def one(rx, text, what, flags=re.S):
    ms = re.findall(rx, text, flags)
    if len(ms) != 1:
        raise TranslateError("%s: expected exactly one match, found %d" % (what, len(ms)))
    return ms[0]


def norm_ws(s):
    return re.sub(r"\s+", "", s)



# ------------------------------------------------------------------------------------------------
# round 4: control tables (which index goes where) and the LAPACK call sites
# ------------------------------------------------------------------------------------------------
def nat_expr(text, env):
    """integer size expression (`3*N -1`, `dim * dim`, `lwork`, `c ? 4*N : 3*N`) -> Lean term over Nat; `env` maps the
    C++ names that may occur to Lean terms"""
    text = text.strip()
    m = re.match(r"^(\w+)\s*\?\s*([^:?]+):([^:?]+)$", text)
    if m:
        if m.group(1) not in env.get("__bools__", ()):
            raise TranslateError("condition %r of a size expression is not the eigenvector request" % m.group(1))
        return "(if vec then %s else %s)" % (nat_expr(m.group(2), env), nat_expr(m.group(3), env))
    toks = re.findall(r"\s*([A-Za-z_]\w*|[0-9]+|[-+*()])", text)
    if "".join(toks) != norm_ws(text):
        raise TranslateError("size expression %r outside the grammar" % text)
    out = []
    for t in toks:
        if t.isdigit() or t in "+-*()":
            out.append(t)
        elif t in env:
            out.append(env[t])
        else:
            raise TranslateError("name %r not expected in size expression %r" % (t, text))
    return "(" + " ".join(out) + ")"


def call_args(body, fname, what):
    m = one(r"\b%s\s*\(([^;]*)\)\s*;" % fname, body, what + ": call of " + fname)
    return [norm_ws(a) for a in m.split(",")]


def ptr_name(arg, what):
    """`&x[0]`, `x`, `x.get()`, `&x` -> x"""
    m = re.match(r"^&?(\w+)(?:\[0\]|\.get\(\)|\.data\(\))?$", arg)
    if not m:
        raise TranslateError("%s: argument %r is not a plain buffer/variable" % (what, arg))
    return m.group(1)


def char_decl(body, name, what, bools=()):
    """`const char name = 'c';` or `= flag ? 'a' : 'b';` or `= "ab"[Tag];` -> ('lit', c) | ('cond', a, b) | ('tab', s)"""
    e = one(r"const\s+char\s+%s\s*=\s*([^;]+);" % name, body, what + ": declaration of " + name).strip()
    m = re.match(r"^'(\w)'$", e)
    if m:
        return ("lit", m.group(1))
    m = re.match(r"^(\w+)\s*\?\s*'(\w)'\s*:\s*'(\w)'$", e)
    if m and m.group(1) in bools:
        return ("cond", m.group(2), m.group(3))
    m = re.match(r'^"(\w+)"\s*\[\s*Tag\s*\]$', e)
    if m:
        return ("tab", m.group(1))
    raise TranslateError("%s: job character %s = %r outside the grammar" % (what, name, e))


def int_decl(body, name, what):
    return one(r"const\s+long\s+int\s+%s\s*=\s*([^;]+);" % name, body, what + ": declaration of " + name)


# ------------------------------------------------------------------------------------------------
# round 5: a small C++ front end (statement parser + path-enumerating symbolic executor)
#
# The pieces of the source whose *spelling* used to be matched literally (the max-norm preconditioning, the column choice
# of the 2x2 routine, the maximum search of eig0, the copy loops around the LAPACK calls) are now parsed into a small
# AST and executed symbolically; what is compared / emitted is the resulting *state* (a decision tree over canonical
# comparison atoms with symbolic values at the leaves), so renamed or hoisted locals, `?:` versus `if/else` versus guard
# clauses, `a > b` versus `b < a`, helper lambdas, running counters versus computed indices, std::copy versus a hand loop
# all normalise to the same thing.  Everything outside the subset raises TranslateError (never a guess).
# ------------------------------------------------------------------------------------------------
TPL_NAMES = {"FieldVector", "FieldMatrix", "std::numeric_limits", "std::vector", "std::pair", "std::make_unique",
             "std::unique_ptr", "clamp", "static_cast", "std::conditional_t", "std::is_same_v", "DynamicVector",
             "DynamicMatrix", "FieldTraits", "std::complex", "std::array"}
CTOK = re.compile(r"""\s*(?:
      (?P<num>(?:[0-9]+\.?[0-9]*|\.[0-9]+)(?:[eE][-+]?[0-9]+)?[fFlLuU]*)
    | (?P<id>[A-Za-z_]\w*(?:\s*::\s*[A-Za-z_]\w*)*)
    | (?P<str>"(?:[^"\\]|\\.)*")
    | (?P<chr>'(?:[^'\\]|\\.)')
    | (?P<op>->|\+\+|--|<<|>>|<=|>=|==|!=|&&|\|\||[-+*/]=|[-+*/%<>=!&|(){}\[\],;?:.~^])
    )""", re.X)


class Unsupported(TranslateError):
    pass


def ctokenize(src):
    src = re.sub(r"(?m)^\s*#.*$", "", src)
    pos, out = 0, []
    n = len(src)
    while True:
        while pos < n and src[pos].isspace():
            pos += 1
        if pos >= n:
            break
        m = CTOK.match(src, pos)
        if not m or m.end() == pos:
            raise Unsupported("cannot tokenise C++ at %r" % src[pos:pos + 30])
        pos = m.end()
        if m.group("id"):
            name = norm_ws(m.group("id"))
            # fold the template argument list of a known template name into the identifier
            while name in TPL_NAMES or name.split("<")[0] in TPL_NAMES:
                k = pos
                while k < n and src[k].isspace():
                    k += 1
                if k >= n or src[k] != "<" or "<" in name:
                    break
                depth, j = 0, k
                while j < n:
                    if src[j] == "<":
                        depth += 1
                    elif src[j] == ">":
                        depth -= 1
                        if depth == 0:
                            break
                    elif src[j] in ";{}":
                        raise Unsupported("template argument list of %s not closed" % name)
                    j += 1
                name += norm_ws(src[k:j + 1])
                pos = j + 1
                m2 = re.compile(r"\s*::\s*([A-Za-z_]\w*)").match(src, pos)
                if m2:
                    name += "::" + m2.group(1)
                    pos = m2.end()
                break
            out.append(("id", name))
        elif m.group("num"):
            out.append(("num", m.group("num").rstrip("fFlLuU") if not re.match(r"^0[xX]", m.group("num")) else m.group("num")))
        elif m.group("str"):
            out.append(("str", m.group("str")))
        elif m.group("chr"):
            out.append(("chr", m.group("chr")))
        else:
            out.append(("op", m.group("op")))
    return out


class CParseError(Exception):
    pass


DECL_PREFIX = {"const", "constexpr", "static", "volatile", "typename", "unsigned", "long", "signed", "short"}
ASSIGN_OPS = {"=", "+=", "-=", "*=", "/="}


class CParser:
    """statements: ('block', [..]) ('nop',) ('if', cond, then, else|None) ('for', init, cond, [incr], body) ('return', e|None)
    ('throw',) ('decl', name, init|None, flags) ('expr', e) ('opaque', [token texts])"""

    def __init__(self, text):
        self.t = ctokenize(text)
        self.i = 0

    # -- token helpers
    def peek(self, k=0):
        return self.t[self.i + k] if self.i + k < len(self.t) else (None, None)

    def at(self, val, k=0):
        return self.peek(k)[0] in ("op", "id") and self.peek(k)[1] == val

    def eat(self, val=None):
        k, v = self.peek()
        if k is None or (val is not None and v != val):
            raise CParseError("wanted %r, found %r" % (val, v))
        self.i += 1
        return v

    # -- statements
    def program(self):
        out = []
        while self.peek()[0] is not None:
            out.append(self.stmt())
        return out

    def stmt(self):
        save = self.i
        try:
            return self._stmt()
        except CParseError:
            self.i = save
            return self.opaque()

    def opaque(self):
        depth, toks = 0, []
        while True:
            k, v = self.peek()
            if k is None:
                break
            if k == "op" and v in "([{":
                depth += 1
            if k == "op" and v in ")]}":
                if depth == 0:
                    break
                depth -= 1
                toks.append(v)
                self.i += 1
                if v == "}" and depth == 0 and not self.at("else"):
                    break
                continue
            toks.append(v)
            self.i += 1
            if k == "op" and v == ";" and depth == 0:
                break
        if not toks:
            raise Unsupported("cannot skip over %r" % (self.peek(),))
        return ("opaque", toks)

    def block_or_stmt(self):
        return self.stmt()

    def _stmt(self):
        k, v = self.peek()
        if (k, v) == ("op", "{"):
            self.eat("{")
            body = []
            while not self.at("}"):
                if self.peek()[0] is None:
                    raise CParseError("unclosed block")
                body.append(self.stmt())
            self.eat("}")
            return ("block", body)
        if (k, v) == ("op", ";"):
            self.eat()
            return ("nop",)
        if k == "id" and v == "using":
            while not self.at(";"):
                self.eat()
            self.eat(";")
            return ("nop",)
        if k == "id" and v == "DUNE_THROW":
            self.eat()
            self.eat("(")
            depth = 1
            while depth:
                kk, vv = self.peek()
                if kk is None:
                    raise CParseError("unclosed DUNE_THROW")
                depth += (vv == "(" and kk == "op") - (vv == ")" and kk == "op")
                self.i += 1
            self.eat(";")
            return ("throw",)
        if k == "id" and v == "if":
            self.eat()
            if self.at("constexpr"):
                self.eat()
            self.eat("(")
            c = self.expr()
            self.eat(")")
            th = self.stmt()
            el = None
            if self.at("else"):
                self.eat()
                el = self.stmt()
            return ("if", c, th, el)
        if k == "id" and v == "for":
            self.eat()
            self.eat("(")
            init = self._stmt()          # declaration or expression statement (eats the `;`)
            cond = None if self.at(";") else self.expr()
            self.eat(";")
            incr = []
            if not self.at(")"):
                incr.append(self.assignment())
                while self.at(","):
                    self.eat()
                    incr.append(self.assignment())
            self.eat(")")
            return ("for", init, cond, incr, self.stmt())
        if k == "id" and v == "return":
            self.eat()
            e = None if self.at(";") else self.expr()
            self.eat(";")
            return ("return", e)
        if k == "id" and v in ("while", "do", "switch", "goto", "try", "delete", "break", "continue"):
            raise CParseError("statement %s outside the subset" % v)
        d = self.try_decl()
        if d is not None:
            return d
        e = self.expr()
        self.eat(";")
        return ("expr", e)

    def try_decl(self):
        j, flags = self.i, set()
        while self.t[j][0] == "id" and self.t[j][1] in DECL_PREFIX if j < len(self.t) else False:
            flags.add(self.t[j][1])
            j += 1
        if j >= len(self.t) or self.t[j][0] != "id":
            return None
        ty = self.t[j][1]
        if ty in ("int", "double", "float", "char", "bool", "auto", "size_t"):
            pass
        elif flags & {"long", "unsigned", "short"} and (j + 1 >= len(self.t) or self.t[j + 1][0] != "id"):
            j -= 1                        # `long x`, `unsigned x`
            ty = "int"
        j += 1
        while j < len(self.t) and self.t[j] in (("op", "*"), ("op", "&"), ("id", "const")):
            if self.t[j][1] in "*&":
                flags.add("ptr" if self.t[j][1] == "*" else "ref")
            j += 1
        if j + 1 >= len(self.t) or self.t[j][0] != "id" or self.t[j + 1] not in (("op", "="), ("op", "("), ("op", "{"), ("op", "["), ("op", ";"), ("op", ",")):
            return None
        if self.t[j][1] in DECL_PREFIX or ty in ("return", "else", "new"):
            return None
        self.i = j
        decls = []
        while True:
            name = self.eat()
            size, init = None, None
            if self.at("["):
                self.eat()
                size = self.expr()
                self.eat("]")
                flags = flags | {"array"}
            if self.at("="):
                self.eat()
                init = self.assignment()
            elif self.at("(") or self.at("{"):
                close = ")" if self.eat() == "(" else "}"
                args = []
                if not self.at(close):
                    args.append(self.assignment())
                    while self.at(","):
                        self.eat()
                        args.append(self.assignment())
                self.eat(close)
                init = args[0] if len(args) == 1 else ("ctor", ty, args)
            decls.append(("decl", name, init, frozenset(flags), size, ty))
            if self.at(","):
                self.eat()
                continue
            break
        self.eat(";")
        return decls[0] if len(decls) == 1 else ("seq", decls)

    # -- expressions
    def expr(self):
        return self.assignment()

    def assignment(self):
        lhs = self.ternary()
        k, v = self.peek()
        if k == "op" and v in ASSIGN_OPS:
            self.eat()
            return ("asg", v, lhs, self.assignment())
        return lhs

    def ternary(self):
        c = self.binary(0)
        if self.at("?"):
            self.eat()
            a = self.assignment()
            self.eat(":")
            b = self.assignment()
            return ("cond", c, a, b)
        return c

    LEVELS = [("||",), ("&&",), ("==", "!="), ("<", ">", "<=", ">="), ("+", "-"), ("*", "/", "%")]

    def binary(self, lvl):
        if lvl == len(self.LEVELS):
            return self.unary()
        e = self.binary(lvl + 1)
        while self.peek()[0] == "op" and self.peek()[1] in self.LEVELS[lvl]:
            o = self.eat()
            e = ("bin", o, e, self.binary(lvl + 1))
        if self.peek() in (("op", "<<"), ("op", ">>"), ("op", "|"), ("op", "^")):
            raise CParseError("operator outside the subset")
        return e

    def unary(self):
        k, v = self.peek()
        if k == "op" and v in ("-", "!", "&", "*", "++", "--", "+"):
            self.eat()
            return ("un", v, self.unary())
        if k == "id" and v in ("new", "delete", "sizeof", "throw"):
            raise CParseError("%s outside the subset" % v)
        return self.postfix()

    def args(self, close):
        a = []
        if not self.at(close):
            a.append(self.assignment())
            while self.at(","):
                self.eat()
                a.append(self.assignment())
        self.eat(close)
        return a

    def postfix(self):
        e = self.primary()
        while True:
            k, v = self.peek()
            if (k, v) == ("op", "("):
                self.eat()
                e = ("call", e, self.args(")"))
            elif (k, v) == ("op", "["):
                self.eat()
                i = self.expr()
                self.eat("]")
                e = ("idx", e, i)
            elif (k, v) in (("op", "."), ("op", "->")):
                self.eat()
                if self.peek()[0] != "id":
                    raise CParseError("member name expected")
                e = ("mem", e if v == "." else ("un", "*", e), self.eat())
            elif (k, v) in (("op", "++"), ("op", "--")):
                self.eat()
                e = ("post", v, e)
            else:
                return e

    def primary(self):
        k, v = self.peek()
        if k == "num":
            self.eat()
            return ("num", v)
        if k in ("str", "chr"):
            self.eat()
            return (k, v)
        if k == "id":
            self.eat()
            if self.at("{"):
                self.eat()
                return ("ctor", v, self.args("}"))
            return ("id", v)
        if (k, v) == ("op", "("):
            self.eat()
            e = self.expr()
            self.eat(")")
            return e
        if (k, v) == ("op", "{"):
            self.eat()
            return ("init", self.args("}"))
        if (k, v) == ("op", "["):          # lambda
            self.eat()
            caps = []
            while not self.at("]"):
                caps.append(self.eat())
            self.eat("]")
            params = []
            if self.at("("):
                self.eat()
                cur = []
                depth = 0
                while not (self.at(")") and depth == 0):
                    kk, vv = self.peek()
                    if kk is None:
                        raise CParseError("unclosed parameter list")
                    if kk == "op" and vv == "," and depth == 0:
                        params.append(cur)
                        cur = []
                    else:
                        depth += (kk == "op" and vv == "(") - (kk == "op" and vv == ")")
                        cur.append((kk, vv))
                    self.eat()
                self.eat(")")
                if cur:
                    params.append(cur)
            names = []
            for p in params:
                if not p or p[-1][0] != "id":
                    raise CParseError("lambda parameter without a name")
                names.append(p[-1][1])
            if self.at("->"):
                self.eat()
                while not self.at("{"):
                    self.eat()
            if not self.at("{"):
                raise CParseError("lambda body expected")
            body = self._stmt()
            return ("lambda", names, body, caps)
        raise CParseError("unexpected token %r" % ((k, v),))


def ast_ids(node, acc=None):
    """all identifier / token texts mentioned in a statement or expression"""
    acc = set() if acc is None else acc
    if isinstance(node, (list, tuple)):
        if len(node) >= 2 and node[0] == "id" and isinstance(node[1], str):
            acc.add(node[1])
        elif len(node) >= 2 and node[0] == "opaque":
            acc.update(x for x in node[1] if isinstance(x, str))
        elif len(node) >= 2 and node[0] == "decl":
            acc.add(node[1])
            ast_ids(node[2], acc)
            ast_ids(node[4], acc)
        elif len(node) >= 2 and node[0] == "lambda":
            ast_ids(node[2], acc)
        else:
            for x in node:
                ast_ids(x, acc)
    return acc


class NeedChoice(Exception):
    def __init__(self, atom):
        self.atom = atom


class NeedInit(Exception):
    def __init__(self, name):
        self.name = name


class ReturnEx(Exception):
    def __init__(self, value):
        self.value = value


class ThrowEx(Exception):
    pass


CASTS = {"K", "real_type", "LapackNumType", "double", "float", "field_type", "int", "long", "size_t", "std::size_t",
         "FieldVector<K,2>", "FieldVector<K,3>", "Vector"}
PURE_FUNCS = {"isnormal", "isfinite", "sqrt", "abs", "max", "min", "crossProduct", "acos", "cos", "std::complex<double>"}
PURE_METHODS = {"infinity_norm", "two_norm", "two_norm2", "dot", "rows", "cols", "size", "N", "M", "first", "second"}
# procedures with output arguments: name -> (positions of outputs)
PROCS = {"eigenValues2dImpl": (1,), "eigenValues3dImpl": (1,), "eig0": (2,), "eig1": (2,), "orthoComp": (1, 2)}


def strip_ns(name):
    for p in ("Impl::", "std::", "Dune::", "FMatrixHelp::"):
        while name.startswith(p):
            name = name[len(p):]
    return name


class Exec:
    """deterministic symbolic executor; comparisons that cannot be decided consult `script` (the DFS driver `explore`
    enumerates the scripts).  Values: python int / bool, ('num', Fraction), ('sym', name), ('op', o, a, b), ('neg', a),
    ('callv', f, args), ('methv', obj, name, args), ('idxv', a, k), ('initv', elems), ('upd', a, k, v), ('arr', id),
    ('ptr', id, off), ('lptr', lvalue, off), ('lam', ..), ('null',), ('uninit', name)"""

    def __init__(self, script=()):
        self.script = list(script)
        self.decisions = []            # [(atom, bool)] in order
        self.scopes = [{}]
        self.heap = {}
        self.trace = []
        self.steps = 0

    # -- environment
    def lookup_scope(self, name):
        for s in reversed(self.scopes):
            if name in s:
                return s
        return None

    def get(self, name):
        s = self.lookup_scope(name)
        if s is None:
            last = name.split("::")[-1]
            s = self.lookup_scope(last)
            if s is None:
                raise NeedInit(name)
            name = last
        v = s[name]
        if isinstance(v, tuple) and v and v[0] == "alias":
            return self.eval(v[1])
        return v

    def set(self, name, val):
        s = self.lookup_scope(name)
        if s is None:
            raise NeedInit(name)
        v = s[name]
        if isinstance(v, tuple) and v and v[0] == "alias":
            return self.assign(v[1], val)
        s[name] = val

    def declare(self, name, val):
        self.scopes[-1][name] = val

    def alloc(self, size, default=None):
        k = len(self.heap)
        self.heap[k] = {"__size__": size, "__default__": default}
        return ("arr", k)

    # -- decisions
    def decide(self, atom):
        for a, b in self.decisions:
            if a == atom:
                return b
        k = len(self.decisions)
        if k < len(self.script):
            b = self.script[k]
            self.decisions.append((atom, b))
            return b
        raise NeedChoice(atom)

    def truth(self, v):
        if isinstance(v, bool):
            return v
        if isinstance(v, int):
            return v != 0
        if isinstance(v, tuple) and v[0] == "num":
            return v[1] != 0
        if isinstance(v, tuple) and v[0] == "not":
            return not self.truth(v[1])
        if isinstance(v, tuple) and v[0] == "null":
            return False
        if isinstance(v, tuple) and v[0] in ("arr", "ptr", "lptr"):
            return True
        if isinstance(v, tuple) and v[0] in ("lt", "le", "eq", "callv", "sym", "methv", "idxv"):
            return self.decide(v)
        raise Unsupported("cannot use %r as a condition" % (v,))

    # -- statements
    def run(self, stmts):
        for s in stmts:
            self.exec(s)

    def exec(self, s):
        self.steps += 1
        if self.steps > 200000:
            raise Unsupported("execution does not terminate")
        k = s[0]
        if k == "nop":
            return
        if k == "block":
            self.scopes.append({})
            try:
                self.run(s[1])
            finally:
                self.scopes.pop()
            return
        if k == "seq":
            self.run(s[1])
            return
        if k == "decl":
            _, name, init, flags, size, ty = s
            if "array" in flags:
                n = self.eval(size)
                if not isinstance(n, int) or isinstance(n, bool):
                    raise Unsupported("array %s of non-constant size" % name)
                self.declare(name, self.alloc(n))
            elif "ref" in flags and init is not None and "const" not in flags:
                self.declare(name, ("alias", self.freeze(init)))
            elif init is None:
                self.declare(name, ("uninit", name))
            else:
                self.declare(name, self.eval(init))
            return
        if k == "expr":
            self.eval(s[1])
            return
        if k == "if":
            if self.truth(self.eval(s[1])):
                self.exec_scoped(s[2])
            elif s[3] is not None:
                self.exec_scoped(s[3])
            return
        if k == "for":
            self.scopes.append({})
            try:
                self.exec(s[1])
                n = 0
                while s[2] is None or self.truth(self.eval(s[2])):
                    n += 1
                    if n > 4096:
                        raise Unsupported("loop does not terminate")
                    self.exec_scoped(s[4])
                    for e in s[3]:
                        self.eval(e)
            finally:
                self.scopes.pop()
            return
        if k == "return":
            raise ReturnEx(None if s[1] is None else self.eval(s[1]))
        if k == "throw":
            raise ThrowEx()
        if k == "opaque":
            raise Unsupported("statement outside the subset: %s" % " ".join(s[1])[:80])
        raise Unsupported("statement kind %r" % k)

    def exec_scoped(self, s):
        self.scopes.append({})
        try:
            self.exec(s)
        finally:
            self.scopes.pop()

    # -- lvalues
    def freeze(self, node):
        """evaluate the index sub-expressions of an lvalue now (for references / pointers)"""
        if node[0] == "idx":
            return ("idx", self.freeze(node[1]), ("lit", self.eval(node[2])))
        if node[0] == "un" and node[1] == "*":
            return ("un", "*", self.freeze(node[1 + 1]))
        if node[0] == "id":
            sc = self.lookup_scope(node[1])
            if sc is not None and isinstance(sc[node[1]], tuple) and sc[node[1]] and sc[node[1]][0] == "alias":
                return sc[node[1]][1]
            return node
        raise Unsupported("reference to %r" % (node[0],))

    def assign(self, node, val):
        k = node[0]
        if k == "id":
            return self.set(node[1], val)
        if k == "un" and node[1] == "*":
            return self.assign(node[2], val)
        if k == "idx":
            kv = self.eval(node[2])
            if not isinstance(kv, int) or isinstance(kv, bool):
                raise Unsupported("store at a non-constant index")
            bv = self.get(node[1][1]) if node[1][0] == "id" else self.eval(node[1])   # a local filled entry by entry may be unassigned so far
            if isinstance(bv, tuple) and bv[0] in ("arr", "ptr"):
                off = kv + (bv[2] if bv[0] == "ptr" else 0)
                cell = self.heap[bv[1]]
                if cell["__size__"] is not None and not (0 <= off < cell["__size__"]):
                    raise Unsupported("store outside an array (index %d of %d)" % (off, cell["__size__"]))
                cell[off] = val
                return
            if isinstance(bv, tuple) and bv[0] == "lptr":
                return self.assign(("idx", bv[1], ("lit", bv[2] + kv)), val)
            return self.assign(node[1], ("upd", bv, kv, val))
        raise Unsupported("assignment to %r" % (k,))

    def read(self, bv, kv):
        if isinstance(bv, tuple) and bv[0] in ("arr", "ptr"):
            if not isinstance(kv, int) or isinstance(kv, bool):
                raise Unsupported("load at a non-constant index")
            off = kv + (bv[2] if bv[0] == "ptr" else 0)
            cell = self.heap[bv[1]]
            if cell["__size__"] is not None and not (0 <= off < cell["__size__"]):
                raise Unsupported("load outside an array (index %d of %d)" % (off, cell["__size__"]))
            if off in cell:
                return cell[off]
            if cell["__default__"] is not None:
                return ("idxv", cell["__default__"], off)
            raise Unsupported("load of an uninitialised array element")
        if isinstance(bv, tuple) and bv[0] == "lptr":
            return self.eval(("idx", bv[1], ("lit", bv[2] + kv)))
        if not isinstance(kv, int) or isinstance(kv, bool):
            raise Unsupported("subscript is not a constant")
        while isinstance(bv, tuple) and bv[0] == "upd":
            if bv[2] == kv:
                return bv[3]
            bv = bv[1]
        if isinstance(bv, tuple) and bv[0] == "initv":
            if kv < len(bv[1]):
                return bv[1][kv]
            raise Unsupported("subscript outside an initialiser list")
        if isinstance(bv, tuple) and bv[0] in ("uninit", "null", "num") or isinstance(bv, int):
            raise Unsupported("subscript of %r" % (bv,))
        return ("idxv", bv, kv)

    # -- expressions
    def arith(self, o, a, b):
        ia = isinstance(a, int) and not isinstance(a, bool)
        ib = isinstance(b, int) and not isinstance(b, bool)
        if ia and ib:
            if o == "+":
                return a + b
            if o == "-":
                return a - b
            if o == "*":
                return a * b
            if o == "/" and b != 0:
                q = abs(a) // abs(b)
                return q if (a >= 0) == (b >= 0) else -q
            if o == "%" and b != 0:
                return a - b * self.arith("/", a, b)
        if isinstance(a, tuple) and a[0] in ("ptr", "lptr") and ib and o in "+-":
            return (a[0], a[1], a[2] + (b if o == "+" else -b))
        if isinstance(b, tuple) and b[0] in ("ptr", "lptr") and ia and o == "+":
            return (b[0], b[1], b[2] + a)
        if isinstance(a, tuple) and isinstance(b, tuple) and a[0] == b[0] == "ptr" and a[1] == b[1] and o == "-":
            return a[2] - b[2]
        for x in (a, b):
            if isinstance(x, tuple) and x[0] in ("arr", "ptr", "lptr", "lam", "null", "uninit"):
                raise Unsupported("arithmetic on %r" % (x[0],))
        if o == "%":
            raise Unsupported("symbolic %")
        return ("op", o, a, b)

    def compare(self, o, a, b):
        ia = isinstance(a, int) and not isinstance(a, bool)
        ib = isinstance(b, int) and not isinstance(b, bool)
        if ia and ib:
            return {"<": a < b, ">": a > b, "<=": a <= b, ">=": a >= b, "==": a == b, "!=": a != b}[o]
        if isinstance(a, tuple) and a[0] == "num" and a[1].denominator == 1:
            a = int(a[1])
        if isinstance(b, tuple) and b[0] == "num" and b[1].denominator == 1:
            b = int(b[1])
        if o == "<":
            return ("lt", a, b)
        if o == ">":
            return ("lt", b, a)
        if o == "<=":
            return ("le", a, b)
        if o == ">=":
            return ("le", b, a)
        if a == b and not (isinstance(a, tuple) and a[0] in ("op", "neg", "callv", "methv", "idxv")):
            return o == "=="
        at = ("eq",) + tuple(sorted((a, b), key=repr))
        return at if o == "==" else ("not", at)

    def eval(self, e):
        k = e[0]
        if k == "lit":
            return e[1]
        if k == "num":
            t = e[1]
            if re.match(r"^[0-9]+$", t):
                return int(t)
            return ("num", Fraction(t))
        if k == "chr":
            return ("chr", e[1])
        if k == "str":
            return ("str", e[1])
        if k == "id":
            if e[1] == "nullptr":
                return ("null",)
            if e[1] in ("true", "false"):
                return e[1] == "true"
            v = self.get(e[1])
            if isinstance(v, tuple) and v and v[0] == "uninit":
                raise Unsupported("use of %s before it is assigned" % e[1])
            return v
        if k == "un":
            o = e[1]
            if o == "&":
                t = e[2]
                if t[0] == "idx":
                    bv = self.eval(t[1])
                    kv = self.eval(t[2])
                    if isinstance(bv, tuple) and bv[0] in ("arr", "ptr") and isinstance(kv, int):
                        return ("ptr", bv[1], kv + (bv[2] if bv[0] == "ptr" else 0))
                    if isinstance(kv, int):
                        return ("lptr", self.freeze(t[1]), kv)
                if t[0] == "id":
                    return ("addr", t[1])
                raise Unsupported("address of %r" % (t[0],))
            if o in ("++", "--"):
                v = self.arith(o[0], self.eval(e[2]), 1)
                self.assign(e[2], v)
                return v
            v = self.eval(e[2])
            if o == "*":
                return v
            if o == "+":
                return v
            if o == "-":
                if isinstance(v, int) and not isinstance(v, bool):
                    return -v
                if isinstance(v, tuple) and v[0] == "num":
                    return ("num", -v[1])
                return ("neg", v)
            if o == "!":
                return not self.truth(v)
        if k == "post":
            old = self.eval(e[2])
            self.assign(e[2], self.arith(e[1][0], old, 1))
            return old
        if k == "bin":
            o = e[1]
            if o == "&&":
                return self.truth(self.eval(e[2])) and self.truth(self.eval(e[3]))
            if o == "||":
                return self.truth(self.eval(e[2])) or self.truth(self.eval(e[3]))
            a = self.eval(e[2])
            b = self.eval(e[3])
            if o in ("<", ">", "<=", ">=", "==", "!="):
                return self.compare(o, a, b)
            return self.arith(o, a, b)
        if k == "cond":
            return self.eval(e[2]) if self.truth(self.eval(e[1])) else self.eval(e[3])
        if k == "asg":
            rhs = self.eval(e[3])
            if e[1] != "=":
                rhs = self.arith(e[1][0], self.eval(e[2]), rhs)
            self.assign(e[2], rhs)
            return rhs
        if k == "init":
            return ("initv", tuple(self.eval(x) for x in e[1]))
        if k == "ctor":
            args = [self.eval(x) for x in e[2]]
            if e[1].startswith("std::unique_ptr") and not args:
                return ("null",)
            if len(args) == 1 and isinstance(args[0], tuple) and args[0][0] == "initv":
                return args[0]
            return ("initv", tuple(args))
        if k == "idx":
            return self.read(self.eval(e[1]), self.eval(e[2]))
        if k == "mem":
            v = self.eval(e[1])
            if e[2] in ("first", "second"):
                return ("methv", v, e[2], ())
            raise Unsupported("member %s" % e[2])
        if k == "lambda":
            byval = {}
            caps = e[3]
            for j, c in enumerate(caps):
                if re.match(r"^[A-Za-z_]\w*$", c) and c != "this" and (j == 0 or caps[j - 1] != "&"):
                    byval[c] = self.get(c)
            return ("lam", tuple(e[1]), e[2], tuple(self.scopes), tuple(sorted(byval.items(), key=repr)), "=" in caps)
        if k == "call":
            return self.call(e)
        raise Unsupported("expression kind %r" % (k,))

    def call(self, e):
        f, argn = e[1], e[2]
        if f[0] == "mem":
            obj, name = f[1], f[2]
            if name in PURE_METHODS:
                return ("methv", self.eval(obj), name, tuple(self.eval(a) for a in argn))
            if name in ("get", "data", "begin") and not argn:
                v = self.eval(obj)
                if isinstance(v, tuple) and v[0] == "arr":
                    return ("ptr", v[1], 0)
                if isinstance(v, tuple) and v[0] in ("null", "ptr"):
                    return v
                return ("lptr", self.freeze(obj), 0)
            if name == "resize":
                self.trace.append(("resize", self.freeze(obj), tuple(self.eval(a) for a in argn)))
                return None
            if name == "mv" and len(argn) == 2:
                self.assign(argn[1], ("methv", self.eval(obj), "mv", (self.eval(argn[0]),)))
                return None
            raise Unsupported("method %s" % name)
        if f[0] != "id":
            raise Unsupported("call of a computed function")
        name = f[1]
        s = self.lookup_scope(name)
        if s is not None and isinstance(s[name], tuple) and s[name] and s[name][0] == "lam":
            lam = s[name]
            if len(lam[1]) != len(argn):
                raise Unsupported("lambda %s called with %d arguments" % (name, len(argn)))
            for nm, v0 in lam[4]:
                if self.get(nm) != v0:
                    raise Unsupported("lambda %s captured %s by value and it changed since" % (name, nm))
            args = [self.eval(a) for a in argn]
            saved = self.scopes
            self.scopes = list(lam[3]) + [dict(zip(lam[1], args))]
            try:
                self.exec(lam[2])
                return None
            except ReturnEx as r:
                return r.value
            finally:
                self.scopes = saved
        base = strip_ns(name)
        if base in CASTS or base.startswith("static_cast<"):
            if len(argn) != 1:
                return ("initv", tuple(self.eval(a) for a in argn))
            v = self.eval(argn[0])
            if isinstance(v, int) and not isinstance(v, bool) and base in ("K", "real_type", "LapackNumType", "double", "float", "field_type"):
                return ("num", Fraction(v))
            return v
        if base in PURE_FUNCS:
            return ("callv", base, tuple(self.eval(a) for a in argn))
        if re.match(r"^numeric_limits<(K|real_type)>::epsilon$", base) and not argn:
            return ("sym", "eps")
        if base.startswith("make_unique<"):
            n = self.eval(argn[0]) if len(argn) == 1 else None
            if not isinstance(n, int) or isinstance(n, bool):
                raise Unsupported("make_unique of non-constant size")
            return self.alloc(n)
        if base in PROCS:
            args = []
            for j, a in enumerate(argn):
                if j in PROCS[base] and a[0] == "id":
                    args.append(self.get(a[1]))          # an output argument may be unassigned so far
                else:
                    args.append(self.eval(a))
            callno = len(self.trace)
            self.trace.append(("call", base, tuple(args)))
            for p in PROCS[base]:
                if p < len(argn):
                    self.assign(argn[p], ("out", base, p, callno, tuple(args[:min(PROCS[base])])))
            return ("callv", base, tuple(args[:min(PROCS[base])]))
        if base in ("copy", "copy_n") and len(argn) == 3:
            a, b, c = [self.eval(x) for x in argn]
            if base == "copy":
                if not (isinstance(a, tuple) and isinstance(b, tuple) and a[0] == b[0] == "ptr" and a[1] == b[1]):
                    raise Unsupported("std::copy over something that is not a range of one array")
                cnt = b[2] - a[2]
            else:
                cnt = b
            if not isinstance(cnt, int) or isinstance(cnt, bool) or cnt < 0 or not (isinstance(a, tuple) and a[0] == "ptr"):
                raise Unsupported("std::%s with a non-constant extent" % base)
            if not (isinstance(c, tuple) and c[0] in ("ptr", "lptr")):
                raise Unsupported("std::%s into something that is not a pointer" % base)
            for j in range(cnt):
                v = self.read(a, j)
                if c[0] == "ptr":
                    self.assign(("idx", ("lit", c), ("lit", j)), v)
                else:
                    self.assign(("idx", c[1], ("lit", c[2] + j)), v)
            return None
        if base == "swap" and len(argn) == 2:
            a, b = self.eval(argn[0]), self.eval(argn[1])
            self.assign(argn[0], b)
            self.assign(argn[1], a)
            return None
        raise Unsupported("call of %s" % name)


def explore(make, script=()):
    """decision tree of all paths: ('leaf', exec, outcome) | ('node', atom, if_true, if_false)"""
    if len(script) > 24:
        raise Unsupported("too many nested decisions")
    ex = make(script)
    try:
        try:
            ex.go()
            out = ("end", None)
        except ReturnEx as r:
            out = ("return", r.value)
        except ThrowEx:
            out = ("throw", None)
        return ("leaf", ex, out)
    except NeedChoice as nc:
        return ("node", nc.atom, explore(make, tuple(script) + (True,)), explore(make, tuple(script) + (False,)))


def leaves(tree, path=()):
    if tree[0] == "leaf":
        yield path, tree[1], tree[2]
    else:
        for x in leaves(tree[2], path + ((tree[1], True),)):
            yield x
        for x in leaves(tree[3], path + ((tree[1], False),)):
            yield x


def run_body(body_src, env, what, upto=None):
    """parse a function body and enumerate its paths with the parameters bound as in `env`"""
    try:
        prog = CParser(body_src).program()
    except CParseError as e:
        raise TranslateError("%s: %s" % (what, e))
    if upto is not None:
        prog = upto(prog)

    def make(script):
        ex = Exec(script)
        ex.scopes = [dict(env), {}]
        ex.go = lambda: ex.run(prog)
        return ex
    try:
        return prog, explore(make)
    except NeedInit as e:
        raise TranslateError("%s: name %s is not known here" % (what, e.name))
    except Unsupported as e:
        raise TranslateError("%s: %s" % (what, e))



# ------------------------------------------------------------------------------------------------
# round 5: semantic extraction on top of the front end
# ------------------------------------------------------------------------------------------------
_RD = Exec()
MAT = ("sym", "matrix")
NORM = ("methv", MAT, "infinity_norm", ())
ISNORMAL = ("callv", "isnormal", (NORM,))


def is_int(v):
    return isinstance(v, int) and not isinstance(v, bool)


def num_value(v):
    """numeric literal value (int or decimal) as Fraction, else None"""
    if is_int(v):
        return Fraction(v)
    if isinstance(v, tuple) and v[0] == "num":
        return v[1]
    return None


def to_lean(v, atoms, what):
    """symbolic scalar -> Lean term, printed like `tr` does; `atoms(v)` names the leaves (returns None if unknown)"""
    nm = atoms(v)
    if nm is not None:
        return nm
    f = num_value(v)
    if f is not None:
        if f < 0:
            return "(-%s)" % lit(str(-f))
        return lit(str(f))
    if isinstance(v, tuple) and v[0] == "op" and v[1] in "+-*/":
        return "(%s %s %s)" % (to_lean(v[2], atoms, what), v[1], to_lean(v[3], atoms, what))
    if isinstance(v, tuple) and v[0] == "neg":
        return "(-%s)" % to_lean(v[1], atoms, what)
    if isinstance(v, tuple) and v[0] == "callv" and len(v[2]) == 1 and atoms(("fun", v[1])) is not None:
        return "(%s %s)" % (atoms(("fun", v[1])), to_lean(v[2][0], atoms, what))
    raise TranslateError(("%s: value %r outside the expression grammar" % (what, v))[:300])


def precondition_scale(path, S, what):
    """the max-norm preconditioning as a *state*: on the path where `isnormal(matrix.infinity_norm())` holds the routine
    works on matrix / matrix.infinity_norm(), otherwise on matrix / 1.  Returns (preconditioned?, the divisor M)."""
    dec = dict(path)
    if ISNORMAL in dec:
        M = NORM if dec[ISNORMAL] else None
        if M is None:
            if not (isinstance(S, tuple) and S[0] == "op" and S[1] == "/" and S[2] == MAT and num_value(S[3]) == 1):
                raise TranslateError("%s: for a matrix whose norm is not normal the closed form does not run on matrix / 1" % what)
            return True, S[3]
        if S != ("op", "/", MAT, NORM):
            raise TranslateError("%s: the closed form does not run on matrix / matrix.infinity_norm()" % what)
        return True, NORM
    if S != MAT:
        raise TranslateError("%s: the closed form runs neither on the matrix nor on its max-norm scaling" % what)
    return False, None


def analyse_2x2(v2):
    """2x2 eigenValuesVectorsImpl, eigenvector job: every path of the routine is executed symbolically.  Returns
    (preconditioned, shift index, threshold term, [[col0, col1] for vector 0, for vector 1] as pairs of Lean terms, comments)"""
    what = "2x2"
    env = {"matrix": MAT, "eigenValues": ("sym", "eigenValues0"), "eigenVectors": ("sym", "eigenVectors0"),
           "Tag": ("sym", "EigenvaluesEigenvectors"), "EigenvaluesEigenvectors": ("sym", "EigenvaluesEigenvectors")}
    prog, tree = run_body(v2, env, "2x2 eigenValuesVectorsImpl")
    pre_all, shift_all, thr_all = set(), set(), set()
    picks = {}                                       # (isnormal decision, vector) -> {(A, B)}: A wins ties
    n_ident = n_cols = 0
    for path, ex, out in leaves(tree):
        if out[0] != "end":
            raise TranslateError("2x2: the routine returns or throws on some path")
        calls = [t for t in ex.trace if t[0] == "call"]
        if len(calls) != 1 or calls[0][1] != "eigenValues2dImpl" or calls[0][2][1] != ("sym", "eigenValues0"):
            raise TranslateError("2x2: eigenValues2dImpl is not called exactly once on the caller's eigenvalue vector")
        S = calls[0][2][0]
        pre, M = precondition_scale(path, S, "2x2")
        pre_all.add(pre)
        EV = ("out", "eigenValues2dImpl", 1, ex.trace.index(calls[0]), (S,))
        if ex.get("eigenValues") != (("op", "*", EV, M) if pre else EV):
            raise TranslateError("2x2: preconditioning and its reversal do not match")

        def atoms(v, S=S, EV=EV):
            if isinstance(v, tuple) and v[0] == "idxv" and isinstance(v[1], tuple) and v[1][0] == "idxv" and v[1][1] == S:
                return "m%d%d" % (v[1][2], v[2])
            if isinstance(v, tuple) and v[0] == "idxv" and v[1] == EV:
                return "l%d" % v[2]
            if v == ("sym", "eps"):
                return "eps"
            if v == ("methv", S, "infinity_norm", ()):
                return "normA"
            return None
        rest = [(a, b) for a, b in path if a != ISNORMAL]
        if not rest:
            raise TranslateError("2x2: no identity test on some path")
        ident, ident_true = rest[0]
        # the identity test: || S - l_k I ||_inf <= threshold
        if not (ident[0] == "le" and isinstance(ident[1], tuple) and ident[1][0] == "methv" and ident[1][2] == "infinity_norm"):
            raise TranslateError("2x2: the first decision of the eigenvector part is not `temp.infinity_norm() <= threshold`")
        T = ident[1][1]
        ks = set()
        for i in (0, 1):
            for j in (0, 1):
                tij = _RD.read(_RD.read(T, i), j)
                sij = ("idxv", ("idxv", S, i), j)
                if i != j:
                    if tij != sij:
                        raise TranslateError("2x2: the identity test changes an off-diagonal entry")
                elif isinstance(tij, tuple) and tij[:3] == ("op", "-", sij) and isinstance(tij[3], tuple) and tij[3][0] == "idxv" and tij[3][1] == EV:
                    ks.add(tij[3][2])
                else:
                    raise TranslateError("2x2: the identity test does not shift the diagonal by an eigenvalue")
        if len(ks) != 1:
            raise TranslateError("2x2: the two diagonal shifts use different eigenvalues")
        shift_all.add(ks.pop())
        thr_all.add(to_lean(ident[2], atoms, "2x2 identity threshold"))
        vecs = ex.get("eigenVectors")
        if ident_true:
            n_ident += 1
            for i in (0, 1):
                row = _RD.read(vecs, i)
                if not (isinstance(row, tuple) and row[0] == "initv" and [num_value(x) for x in row[1]] == [Fraction(int(i == 0)), Fraction(int(i == 1))]):
                    raise TranslateError("2x2: identity branch does not assign the unit vectors")
            if len(rest) != 1:
                raise TranslateError("2x2: further decisions in the identity branch")
            continue
        n_cols += 1
        if len(rest) != 3:
            raise TranslateError("2x2: the general branch does not make exactly two column choices")
        for vi in (0, 1):
            val = _RD.read(vecs, vi)
            if not (isinstance(val, tuple) and val[0] == "op" and val[1] == "/" and val[3] == ("methv", val[2], "two_norm", ())
                    and isinstance(val[2], tuple) and val[2][0] == "initv" and len(val[2][1]) == 2):
                raise TranslateError("2x2: eigenVectors[%d] is not a candidate column divided by its two_norm()" % vi)
            C = val[2]
            found = None
            for at, b in rest[1:]:
                if at[0] == "le" and all(isinstance(x, tuple) and x[0] == "methv" and x[2] == "two_norm2" for x in at[1:3]):
                    B_, A_ = at[1][1], at[2][1]          # le(|B|^2, |A|^2): true -> A (A wins ties)
                    if C == (A_ if b else B_) and C != (B_ if b else A_):
                        found = (A_, B_)
                        break
            if found is None:
                raise TranslateError("2x2: eigenVectors[%d] is not chosen by comparing the squared norms of two columns (first one on ties)" % vi)
            picks.setdefault((dict(path).get(ISNORMAL), vi), set()).add(found)
    if len(pre_all) != 1 or len(shift_all) != 1 or len(thr_all) != 1 or not n_ident or not n_cols:
        raise TranslateError("2x2: the paths of the routine disagree about preconditioning / shift / threshold")
    for key in picks:
        if len(picks[key]) != 1:
            raise TranslateError("2x2: the column choice for eigenVectors[%d] depends on more than one comparison" % key[1])
    return prog, tree, pre_all.pop(), shift_all.pop(), thr_all.pop(), picks


def cols_to_lean(v2):
    """the four candidate columns as Lean terms (per vector: the tie winner first), identical on all paths"""
    prog, tree, pre, shift, thr, picks = analyse_2x2(v2)
    out = {}
    for (isn, vi), st in picks.items():
        A_, B_ = list(st)[0]
        # names: entries of the matrix the closed form ran on, and its eigenvalues
        def atoms(v):
            if isinstance(v, tuple) and v[0] == "idxv" and isinstance(v[1], tuple) and v[1][0] == "idxv" and \
                    (v[1][1] == MAT or (isinstance(v[1][1], tuple) and v[1][1][:3] == ("op", "/", MAT))):
                return "m%d%d" % (v[1][2], v[2])
            if isinstance(v, tuple) and v[0] == "idxv" and isinstance(v[1], tuple) and v[1][0] == "out" and v[1][1] == "eigenValues2dImpl":
                return "l%d" % v[2]
            return None
        terms = tuple(tuple(to_lean(x, atoms, "2x2 candidate column") for x in C[1]) for C in (A_, B_))
        out.setdefault(vi, set()).add(terms)
    for vi in (0, 1):
        if len(out.get(vi, ())) != 1:
            raise TranslateError("2x2: the candidate columns of eigenVectors[%d] differ between the paths" % vi)
    return pre, shift, thr, [list(out[0])[0], list(out[1])[0]]


def analyse_3x3_prefix(v3):
    """the statements of the 3x3 routine before the eigenvector part: max-norm preconditioning as a state, the call of
    eigenValues3dImpl on the scaled matrix; the names the remaining literal rules rely on must denote these values"""
    def upto(prog):
        out = []
        for s in prog:
            if s[0] == "if":
                break
            out.append(s)
        return out
    env = {"matrix": MAT, "eigenValues": ("sym", "eigenValues0"), "eigenVectors": ("sym", "eigenVectors0")}
    prog, tree = run_body(v3, env, "3x3 eigenValuesVectorsImpl", upto)
    n = 0
    for path, ex, out in leaves(tree):
        n += 1
        calls = [t for t in ex.trace if t[0] == "call"]
        if out[0] != "end" or len(calls) != 1 or calls[0][1] != "eigenValues3dImpl" or calls[0][2][1] != ("sym", "eigenValues0"):
            raise TranslateError("3x3: max-norm preconditioning changed (eigenValues3dImpl is not called once on the caller's vector)")
        S = calls[0][2][0]
        pre, M = precondition_scale(path, S, "3x3")
        if not pre:
            raise TranslateError("3x3: max-norm preconditioning changed")
        try:
            ok = (ex.get("scaledMatrix") == S and ex.get("r") == ("callv", "eigenValues3dImpl", (S,)) and ex.get("maxAbsElement") == M)
        except NeedInit:
            ok = False
        if not ok:
            raise TranslateError("3x3: scaledMatrix / r / maxAbsElement do not name the scaled matrix, the result of eigenValues3dImpl and the scale")
    if n != 2:
        raise TranslateError("3x3: max-norm preconditioning changed (unexpected decisions)")


def subterms(v):
    yield v
    if isinstance(v, tuple):
        for x in v[1:]:
            if isinstance(x, tuple):
                for y in subterms(x):
                    yield y


def analyse_eig0(e0, mat, evn, outv):
    """eig0 by execution, identified by value (no local needs a particular name, or to exist): the result on every path
    is `crossProduct(rowA, rowB) / crossProduct(rowC, rowD).two_norm()`, every decision compares two such lengths.
    Rows are numbered by the row of the matrix they hold, cross products by their (row, row) pair in ascending order.
    Returns (rows as Lean triples, cross pairs, selection tree)"""
    env = {mat: MAT, evn: ("sym", "eval0"), outv: ("sym", "evec0_in")}
    prog, tree = run_body(e0, env, "eig0")

    def is_cross(c):
        return isinstance(c, tuple) and c[0] == "callv" and c[1] == "crossProduct" and len(c[2]) == 2 and \
            all(isinstance(r, tuple) and r[0] == "initv" and len(r[1]) == 3 for r in c[2])

    def is_len(x):
        return isinstance(x, tuple) and x[0] == "methv" and x[2] == "two_norm" and x[3] == () and is_cross(x[1])
    found = []

    def scan(t):
        if t[0] == "leaf":
            ex, outc = t[1], t[2]
            if outc[0] not in ("end", "return") or outc[1] is not None:
                raise TranslateError("eig0: a path throws or returns a value")
            v = ex.get(outv)
            if not (isinstance(v, tuple) and v[0] == "op" and v[1] == "/" and is_cross(v[2]) and is_len(v[3])):
                raise TranslateError("eig0: the result is not a cross product of two rows divided by the length of one")
            found.extend([v[2], v[3][1]])
        else:
            at = t[1]
            if at[0] not in ("lt", "le") or not is_len(at[1]) or not is_len(at[2]):
                raise TranslateError(("eig0: decision %r is not a comparison of two lengths" % (at,))[:300])
            found.extend([at[1][1], at[2][1]])
            scan(t[2])
            scan(t[3])
    scan(tree)

    def row_index(r):
        ij = [[(y[1][2], y[2]) for y in subterms(c) if isinstance(y, tuple) and y[0] == "idxv" and isinstance(y[1], tuple)
               and y[1][0] == "idxv" and y[1][1] == MAT] for c in r[1]]
        if any(len(x) != 1 for x in ij) or len(set(x[0][0] for x in ij)) != 1 or [x[0][1] for x in ij] != [0, 1, 2]:
            raise TranslateError("eig0: a vector entering a cross product is not a row of matrix - eval0*I")
        return ij[0][0][0]
    rows = {}
    for c in found:
        for r in c[2]:
            k = row_index(r)
            if rows.setdefault(k, r) != r:
                raise TranslateError("eig0: two different vectors hold row %d" % k)
    if sorted(rows) != [0, 1, 2]:
        raise TranslateError("eig0: expected three row definitions")
    pair = lambda c: (row_index(c[2][0]), row_index(c[2][1]))
    CR = sorted(set(found), key=pair)
    if len(CR) != 3 or len(set(pair(c) for c in CR)) != 3:
        raise TranslateError("eig0: expected three cross products of rows")
    D = [("methv", c, "two_norm", ()) for c in CR]

    def atoms(v):
        if isinstance(v, tuple) and v[0] == "idxv" and isinstance(v[1], tuple) and v[1][0] == "idxv" and v[1][1] == MAT:
            return "m%d%d" % (v[1][2], v[2])
        if v == ("sym", "eval0"):
            return "eval0"
        return None

    def conv(t):
        if t[0] == "leaf":
            v = t[1].get(outv)
            return "(.leaf %d %d)" % (CR.index(v[2]), D.index(v[3]))
        a, b = conv(t[2]), conv(t[3])
        if a == b:
            return a
        return "(.%s %d %d %s %s)" % (t[1][0], D.index(t[1][1]), D.index(t[1][2]), a, b)
    sel = conv(tree)
    return ([[to_lean(x, atoms, "eig0 row") for x in rows[k][1]] for k in (0, 1, 2)], [pair(c) for c in CR],
            sel[1:-1] if sel.startswith("(") else sel)


# ---- copy loops around the LAPACK calls: executed for concrete orders ------------------------------------------------
LOOP_ORDERS = (1, 2, 3, 4, 5)


def walk_stmts(stmts, anc=()):
    """yield (statement, ancestors) for every statement; ancestors = ((list, index), ...) outermost first"""
    for k, s in enumerate(stmts):
        here = anc + ((stmts, k),)
        yield s, here
        if s[0] == "block":
            for x in walk_stmts(s[1], here):
                yield x
        elif s[0] == "if":
            for br in (s[2], s[3]):
                if br is not None:
                    for x in walk_stmts(br[1] if br[0] == "block" else [br], here):
                        yield x


def int_init_before(anc, name, what):
    """the nearest statement before the loop (same block, then enclosing blocks) that mentions `name` must set it to an
    integer literal"""
    for stmts, k in reversed(anc):
        for j in range(k - 1, -1, -1):
            s = stmts[j]
            if name not in ast_ids(s):
                continue
            if s[0] == "decl" and s[1] == name and s[2] is not None and s[2][0] == "num" and re.match(r"^[0-9]+$", s[2][1]) and "array" not in s[3]:
                return s
            if s[0] == "expr" and s[1][0] == "asg" and s[1][1] == "=" and s[1][2] == ("id", name) and s[1][3][0] == "num" and re.match(r"^[0-9]+$", s[1][3][1]):
                return ("decl", name, s[1][3], frozenset(), None, "int")
            raise TranslateError("%s: cannot tell the value of %s at the loop" % (what, name))
    raise TranslateError("%s: %s is not initialised before the loop" % (what, name))


def run_loop(loop, anc, n, dimnames, bufs, extra, what):
    """execute one outermost `for` statement for order n.  bufs: name -> size expression (python function of n) of the
    flat arrays, pre-filled with symbolic cells.  Returns the executor (its heap / environment hold the result)."""
    inits = []
    for attempt in range(6):
        ex = Exec(())
        env = {"matrix": MAT}
        for d in dimnames:
            env[d] = n
        env.update(extra)
        ex.scopes = [env, {}]
        handles = {}
        for b, size in bufs.items():
            h = ex.alloc(size(n), ("sym", "buf:" + b))
            env[b] = h
            handles[b] = h
        try:
            ex.run(inits + [loop])
            return ex, handles
        except NeedInit as e:
            if any(d[1] == e.name for d in inits):
                raise TranslateError("%s: %s is not known at the loop" % (what, e.name))
            inits.append(int_init_before(anc, e.name, what))
        except NeedChoice as e:
            raise TranslateError("%s: the loop depends on %r" % (what, e.atom))
        except (ReturnEx, ThrowEx):
            raise TranslateError("%s: the loop returns or throws" % what)
        except Unsupported as e:
            raise TranslateError("%s: %s" % (what, e))
    raise TranslateError("%s: too many unknown names at the loop" % what)


def loops_of(body, what):
    try:
        prog = CParser(body).program()
    except CParseError as e:
        raise TranslateError("%s: %s" % (what, e))
    return [(s, anc) for s, anc in walk_stmts(prog) if s[0] == "for" and not any(st[k][0] == "for" for st, k in anc[:-1])]


def pack_orientation_sem(body, dimnames, buf, what):
    """orientation of the copy into the flat LAPACK array `buf`, whatever the spelling of the loops (running counter,
    computed index, renamed / exchanged loop variables, count-down ...): the loops that store into `buf` are executed
    for the orders 1..5 and the final content must be, for every order, buf[n*i+j] = matrix[i][j] (False) or
    matrix[j][i] (True) for all i, j < n."""
    cands = [(s, anc) for s, anc in loops_of(body, what) if buf in ast_ids(s) and "matrix" in ast_ids(s)]
    if len(cands) != 1:
        raise TranslateError("%s: copy loop into the LAPACK array: expected exactly one loop nest, found %d" % (what, len(cands)))
    res = set()
    for n in LOOP_ORDERS:
        ex, h = run_loop(cands[0][0], cands[0][1], n, dimnames, {buf: lambda n: n * n}, {}, what + ": copy loop")
        cell = ex.heap[h[buf][1]]
        for tr_ in (False, True):
            if all(cell.get(n * i + j) == ("idxv", ("idxv", MAT, j if tr_ else i), i if tr_ else j) for i in range(n) for j in range(n)):
                res.add(tr_) if n > 1 else None
                break
        else:
            raise TranslateError("%s: for order %d the copy loop fills the LAPACK array neither row by row nor column by column" % (what, n))
    if len(res) != 1:
        raise TranslateError("%s: the orientation of the copy loop depends on the order" % what)
    return res.pop()


def copyback_sym_sem(body, buf, what):
    """copy-back of the symmetric routine: eigenVectors[i][j] = buf[n*i+j] (False) or eigenVectors[j][i] = buf[n*i+j] (True)"""
    cands = [(s, anc) for s, anc in loops_of(body, what) if buf in ast_ids(s) and "eigenVectors" in ast_ids(s)]
    if len(cands) != 1:
        raise TranslateError("%s: copy-back loop: expected exactly one loop nest, found %d" % (what, len(cands)))
    s, anc = cands[0]
    # the loop must be guarded by the eigenvector job (and by nothing else)
    guards = [st[k] for st, k in anc[:-1] if st[k][0] == "if"]
    ok = len(guards) == 1 and guards[0][3] is None and guards[0][1][0] == "bin" and guards[0][1][1] == "==" and \
        {guards[0][1][2], guards[0][1][3]} in ({("id", "Tag"), ("id", "Jobs::EigenvaluesEigenvectors")}, {("id", "Tag"), ("id", "EigenvaluesEigenvectors")})
    if not ok:
        raise TranslateError("%s: copy-back loop is not guarded by `Tag == EigenvaluesEigenvectors` alone" % what)
    res = set()
    for n in LOOP_ORDERS:
        ex, h = run_loop(s, anc, n, ("dim", "N"), {buf: lambda n: n * n}, {"eigenVectors": ("sym", "eigenVectors0")}, what + ": copy-back loop")
        V = ex.get("eigenVectors")
        B = ("sym", "buf:" + buf)
        for tr_ in (False, True):
            try:
                good = all(_RD.read(_RD.read(V, j if tr_ else i), i if tr_ else j) == ("idxv", B, n * i + j) for i in range(n) for j in range(n))
            except Unsupported:
                good = False
            if good:
                res.add(tr_) if n > 1 else None
                break
        else:
            raise TranslateError("%s: for order %d the copy-back does not fill eigenVectors from the LAPACK array row by row or column by column" % (what, n))
    if len(res) != 1:
        raise TranslateError("%s: the orientation of the copy-back depends on the order" % what)
    return res.pop()


def copyback_dyn_sem(body, vrn, what):
    """dynamic routine: inside `if (eigenVectors)`, after `eigenVectors->resize(N)`: vector i (resized to N) receives
    vr[N*i .. N*(i+1)) -- std::copy / std::copy_n / a hand loop over a pointer or an index"""
    cands = [(s, anc) for s, anc in loops_of(body, what) if vrn in ast_ids(s) and "eigenVectors" in ast_ids(s)]
    if len(cands) != 1:
        raise TranslateError("%s: copy-back: expected exactly one loop over the eigenvectors, found %d" % (what, len(cands)))
    s, anc = cands[0]
    guards = [st[k] for st, k in anc[:-1] if st[k][0] == "if"]
    if not (len(guards) == 1 and guards[0][3] is None and guards[0][1] == ("id", "eigenVectors")):
        raise TranslateError("%s: copy-back is not guarded by `if (eigenVectors)` alone" % what)
    for n in LOOP_ORDERS:
        ex, h = run_loop(s, anc, n, ("N",), {vrn: lambda n: n * n}, {"eigenVectors": ("sym", "eigenVectors0")}, what + ": copy-back")
        V = ex.get("eigenVectors")
        B = ("sym", "buf:" + vrn)
        try:
            good = all(_RD.read(_RD.read(V, i), k) == ("idxv", B, n * i + k) for i in range(n) for k in range(n))
        except Unsupported:
            good = False
        sized = set(t[1] for t in ex.trace if t[0] == "resize" and t[2] == (n,))
        if not good or len(sized) != n:
            raise TranslateError("%s: for order %d vector i is not resized to N and filled from vr[N*i .. N*(i+1))" % (what, n))
    return True



def analyse_orthoComp(oc, en, un, vn):
    """orthoComp by execution: one decision `abs(e[i]) > abs(e[j])` (canonical: abs(e[j]) < abs(e[i])); on both sides
    u = (1 / two_norm(temp)) * {..} and v = crossProduct(evec0, u).  Returns ((i, j), [(temp comps, u comps) for the
    true side, for the false side])"""
    E = ("sym", "evec0")
    prog, tree = run_body(oc, {en: E, un: ("sym", "u_in"), vn: ("sym", "v_in")}, "orthoComp")
    if tree[0] != "node" or tree[2][0] != "leaf" or tree[3][0] != "leaf":
        raise TranslateError("orthoComp: the body does not make exactly one decision")
    at = tree[1]

    def comp(x):
        if isinstance(x, tuple) and x[0] == "callv" and x[1] == "abs" and len(x[2]) == 1 and isinstance(x[2][0], tuple) \
                and x[2][0][0] == "idxv" and x[2][0][1] == E and x[2][0][2] in (0, 1, 2):
            return x[2][0][2]
        return None
    if at[0] != "lt" or comp(at[1]) is None or comp(at[2]) is None:
        raise TranslateError("orthoComp: the decision is not `abs(evec0[i]) > abs(evec0[j])`")
    cond = (comp(at[2]), comp(at[1]))

    def atoms(v):
        if isinstance(v, tuple) and v[0] == "idxv" and v[1] == E:
            return "e%d" % v[2]
        return None
    sides = []
    for tag, lf in (("A", tree[2]), ("B", tree[3])):
        ex, outc = lf[1], lf[2]
        if outc[0] not in ("end", "return") or outc[1] is not None:
            raise TranslateError("orthoComp: branch %s throws or returns a value" % tag)
        u, v = ex.get(un), ex.get(vn)
        if not (isinstance(u, tuple) and u[0] == "op" and u[1] == "*"):
            raise TranslateError("orthoComp: branch %s: u is not a scaled vector" % tag)
        L, vec = (u[2], u[3]) if isinstance(u[3], tuple) and u[3][0] == "initv" else (u[3], u[2])
        if not (isinstance(vec, tuple) and vec[0] == "initv" and len(vec[1]) == 3 and isinstance(L, tuple) and L[0] == "op" and L[1] == "/"
                and num_value(L[2]) == 1 and isinstance(L[3], tuple) and L[3][0] == "methv" and L[3][2] == "two_norm"
                and isinstance(L[3][1], tuple) and L[3][1][0] == "initv" and len(L[3][1][1]) == 2):
            raise TranslateError("orthoComp: branch %s does not normalise u by 1 / two_norm() of a 2-vector" % tag)
        if v != ("callv", "crossProduct", (E, u)):
            raise TranslateError("orthoComp: v is not crossProduct(%s, %s)" % (en, un))
        sides.append(([to_lean(x, atoms, "orthoComp temp") for x in L[3][1][1]], [to_lean(x, atoms, "orthoComp u") for x in vec[1]]))
    return cond, sides


def analyse_crossProduct(cp):
    """the three components of the value crossProduct returns (a returned initialiser list or a local filled entry by entry)"""
    A, B = ("sym", "vec0"), ("sym", "vec1")
    prog, tree = run_body(cp, {"vec0": A, "vec1": B}, "crossProduct")
    if tree[0] != "leaf" or tree[2][0] != "return" or tree[2][1] is None:
        raise TranslateError("crossProduct: the body is not straight-line code returning a value")

    def atoms(v):
        if isinstance(v, tuple) and v[0] == "idxv" and v[1] in (A, B) and v[2] in (0, 1, 2):
            return ("a%d" if v[1] == A else "b%d") % v[2]
        return None
    val = tree[2][1]
    if isinstance(val, tuple) and val[0] == "initv" and len(val[1]) != 3:
        raise TranslateError("crossProduct does not return three components")
    try:
        return [to_lean(_RD.read(val, k), atoms, "crossProduct") for k in range(3)]
    except Unsupported as e:
        raise TranslateError("crossProduct: %s" % e)



def analyse_eig1(e1, en, outn, evn):
    """eig1 by execution: u, v from orthoComp(evec0, u, v); Au, Av by matrix.mv; the reduced matrix; the decisions
    `|m00| >= |m11|`, `max(|mdd|, |m01|) > 0`, `|mdd| >= |m01|` (canonical atoms, any spelling) and on every path
    evec1 = a*u - b*v or evec1 = u.  Returns (m00, m01, m11 as Lean terms over uAu uAv vAv eval1, {leaf name: (a, b)})"""
    E0 = ("sym", "evec0")
    prog, tree = run_body(e1, {"matrix": MAT, en: E0, outn: ("sym", "evec1_in"), evn: ("sym", "eval1")}, "eig1")
    first = next(leaves(tree))[1]
    oc = [t for t in first.trace if t[0] == "call"]
    if len(oc) != 1 or oc[0][1] != "orthoComp" or oc[0][2][0] != E0:
        raise TranslateError("eig1: u, v are not set up by one call orthoComp(evec0, u, v)")
    U = ("out", "orthoComp", 1, first.trace.index(oc[0]), (E0,))
    V = ("out", "orthoComp", 2, first.trace.index(oc[0]), (E0,))
    AU, AV = ("methv", MAT, "mv", (U,)), ("methv", MAT, "mv", (V,))
    dots = {("methv", U, "dot", (AU,)): "uAu", ("methv", U, "dot", (AV,)): "uAv", ("methv", V, "dot", (AV,)): "vAv"}

    def atoms_d(v):
        if v in dots:
            return dots[v]
        if v == ("sym", "eval1"):
            return "eval1"
        return None

    def absarg(x):
        if isinstance(x, tuple) and x[0] == "callv" and x[1] == "abs" and len(x[2]) == 1:
            return x[2][0]
        raise TranslateError("eig1: the branch structure does not compare absolute values")
    if tree[0] != "node" or tree[1][0] != "le":
        raise TranslateError("eig1: the first decision is not `abs(m00) >= abs(m11)`")
    M11, M00 = absarg(tree[1][1]), absarg(tree[1][2])
    res = {}
    M01s = set()
    for tag, sub, Md in (("0", tree[2], M00), ("1", tree[3], M11)):
        if sub[0] != "node" or sub[1][0] != "lt" or sub[1][1] != 0 or not (isinstance(sub[1][2], tuple) and sub[1][2][:2] == ("callv", "max")
                                                                           and len(sub[1][2][2]) == 2 and absarg(sub[1][2][2][0]) == Md):
            raise TranslateError("eig1: outer branch %s does not test `max(abs(m%s), abs(m01)) > 0`" % (tag, "00" if tag == "0" else "11"))
        M01 = absarg(sub[1][2][2][1])
        M01s.add(M01)
        inner, zero = sub[2], sub[3]
        if zero[0] != "leaf" or zero[2][0] not in ("end", "return") or zero[1].get(outn) != U:
            raise TranslateError("eig1: outer branch %s does not return u for a vanishing reduced matrix" % tag)
        if inner[0] != "node" or inner[1] != ("le", ("callv", "abs", (M01,)), ("callv", "abs", (Md,))) or inner[2][0] != "leaf" or inner[3][0] != "leaf":
            raise TranslateError("eig1: outer branch %s does not decide by `abs(mdd) >= abs(m01)`" % tag)

        def atoms_m(v, M01=M01):
            if v == M00:
                return "m00"
            if v == M11:
                return "m11"
            if v == M01:
                return "m01"
            if v == ("fun", "sqrt"):
                return "sqrt"
            return None
        for sub_, lf in (("a", inner[2]), ("b", inner[3])):
            val = lf[1].get(outn)
            if lf[2][0] not in ("end", "return") or not (isinstance(val, tuple) and val[:2] == ("op", "-") and all(
                    isinstance(x, tuple) and x[:2] == ("op", "*") for x in val[2:4]) and val[2][3] == U and val[3][3] == V):
                raise TranslateError("eig1: leaf %s%s: evec1 is not a*u - b*v" % (tag, sub_))
            res[tag + sub_] = (to_lean(val[2][2], atoms_m, "eig1 coefficient"), to_lean(val[3][2], atoms_m, "eig1 coefficient"))
    if len(M01s) != 1 or len({M00, M11, list(M01s)[0]}) != 3:
        raise TranslateError("eig1: the two outer branches use different off-diagonal entries")
    return [to_lean(x, atoms_d, "eig1 reduced matrix") for x in (M00, list(M01s)[0], M11)], res



def analyse_diag_network(dg):
    """the diagonal special case of the 3x3 routine by execution: on every path the final eigenValues / eigenVectors are
    those of the network (0,1),(1,2),(0,1) (`if (v[a] > v[b]) swap values and vectors a, b`) started from the diagonal of
    scaledMatrix and the coordinate vectors, under the same outcomes of the same comparisons; no other decision is made"""
    S = ("sym", "scaledMatrix")
    prog, tree = run_body(dg, {"scaledMatrix": S, "eigenValues": ("sym", "eigenValues_in"), "eigenVectors": ("sym", "eigenVectors_in")},
                          "3x3 diagonal special case")
    n = 0
    for path, ex, outc in leaves(tree):
        n += 1
        if outc[0] not in ("end", "return") or outc[1] is not None:
            raise TranslateError("3x3 diagonal special case: a path throws or returns a value")
        dec = dict(path)
        rv = [("idxv", ("idxv", S, k), k) for k in range(3)]
        rvec = [[Fraction(int(i == k)) for i in range(3)] for k in range(3)]
        used = set()
        for a, b in ((0, 1), (1, 2), (0, 1)):
            at = ("lt", rv[b], rv[a])
            if at not in dec:
                raise TranslateError("3x3 diagonal special case: a path does not compare what the sort network compares")
            used.add(at)
            if dec[at]:
                rv[a], rv[b] = rv[b], rv[a]
                rvec[a], rvec[b] = rvec[b], rvec[a]
        if used != set(dec):
            raise TranslateError("3x3 diagonal special case: decisions beyond the three comparisons of the sort network")
        try:
            vals = [_RD.read(ex.get("eigenValues"), k) for k in range(3)]
            vecs = [[num_value(_RD.read(_RD.read(ex.get("eigenVectors"), k), i)) for i in range(3)] for k in range(3)]
        except Unsupported as e:
            raise TranslateError("3x3 diagonal special case: %s" % e)
        if vals != rv or vecs != rvec:
            raise TranslateError("3x3 diagonal special case: some path does not end in the state of the network (0,1),(1,2),(0,1)")
    if n < 4:
        raise TranslateError("3x3 diagonal special case: fewer paths than the sort network has")


def translate_tables(repo, src):
    out = ["-- GENERATED by tools/translators/tr_c08.py from dune/common/fmatrixev.hh and dynmatrixev.hh -- do not edit",
           "set_option linter.unusedVariables false",
           "namespace DV.C08.Gen",
           ""]

    # ---- eig0: rows of A - ev I, the three cross products, their norms, the running maximum, the result ----------
    e0 = body_after(src, r"void\s+eig0\s*\([^)]*\)\s*\{", "eig0")
    hdr = one(r"void\s+eig0\s*\(\s*const\s+FieldMatrix\s*<\s*K\s*,\s*3\s*,\s*3\s*>\s*&\s*(\w+)\s*,\s*K\s+(\w+)\s*,\s*FieldVector\s*<\s*K\s*,\s*3\s*>\s*&\s*(\w+)\s*\)",
              src, "eig0 signature")
    mat, evn, outv = hdr
    rows3, cpairs, sel = analyse_eig0(e0, mat, evn, outv)
    out.append("section\nvariable {K : Type} [Add K] [Sub K] [Mul K] [Div K] [Neg K] [NatCast K]\n")
    for k, comps in enumerate(rows3):
        out.append("/-- row %d of `matrix - eval0*I` as it enters the cross products -/\ndef eig0_row%d (m00 m01 m02 m10 m11 m12 m20 m21 m22 eval0 : K) : K × K × K :=\n  (%s, %s, %s)\n"
                   % (k, k, comps[0], comps[1], comps[2]))
    out.append("end\n")
    out.append("/-- cross product k is taken of rows (a, b) (numbered by ascending pair) -/\ndef eig0_crossPairs : List (Nat × Nat) := [%s]\n"
               % ", ".join("(%d, %d)" % p for p in cpairs))
    # round 5: rows, cross products and lengths are identified by value (d_k = two_norm() of cross product k, whatever the
    # locals are called or whether there are any), and the search for the longest one is a decision tree obtained by
    # executing the body
    out.append("/-- length k is `two_norm()` of cross product k -/\ndef eig0_normOf : List Nat := [0, 1, 2]\n")
    out.append("/-- decision tree of a selection among candidates: `lt a b t f` = `if d_a < d_b then t else f`, `le` likewise with `<=`;\n"
               "`leaf c k` = candidate c divided by length k -/\ninductive Sel where\n  | leaf (c d : Nat)\n  | lt (a b : Nat) (t f : Sel)\n  | le (a b : Nat) (t f : Sel)\n")
    out.append("/-- the choice of the longest cross product in eig0 (all paths of the function body, comparisons canonicalised to\n"
               "`<` / `<=`): which cross product is divided by which length -/\ndef eig0_select : Sel := %s\n" % sel)

    # ---- 3x3 eigenvector assembly: which eigenvalue goes to eig0 / eig1, where the vectors are stored ---------------
    v3 = body_after(src, r"static\s+void\s+eigenValuesVectorsImpl\s*\(\s*const\s+FieldMatrix\s*<\s*K\s*,\s*3\s*,\s*3\s*>[^)]*\)\s*\{",
                    "3x3 eigenValuesVectorsImpl")
    if not re.search(r"Matrix\s+evec\s*\(\s*0(?:\.0*)?\s*\)\s*;\s*Vector\s+eval\s*\(\s*eigenValues\s*\)\s*;", v3):
        raise TranslateError("3x3: `Matrix evec(0.0); Vector eval(eigenValues);` not found")
    blk = (r"\{\s*Impl::eig0\(\s*scaledMatrix\s*,\s*eval\[([0-2])\]\s*,\s*evec\[([0-2])\]\s*\)\s*;\s*"
           r"Impl::eig1\(\s*scaledMatrix\s*,\s*evec\[([0-2])\]\s*,\s*evec\[([0-2])\]\s*,\s*eval\[([0-2])\]\s*\)\s*;\s*"
           r"evec\[([0-2])\]\s*=\s*Impl::crossProduct\(\s*evec\[([0-2])\]\s*,\s*evec\[([0-2])\]\s*\)\s*;\s*\}")
    asm = one(r"if\s*\(\s*r\s*>=\s*0(?:\.0*)?\s*\)\s*" + blk + r"\s*else\s*" + blk, v3, "3x3 eigenvector assembly")
    names = "(eig0: eigenvalue, target; eig1: first vector, target, eigenvalue; cross product: target, left, right)"
    out.append("/-- branch `r >= 0` %s -/\ndef ev3_asmPos : Nat × Nat × Nat × Nat × Nat × Nat × Nat × Nat := (%s)\n" % (names, ", ".join(asm[:8])))
    out.append("/-- branch `r < 0` -/\ndef ev3_asmNeg : Nat × Nat × Nat × Nat × Nat × Nat × Nat × Nat := (%s)\n" % ", ".join(asm[8:]))

    # ---- 3x3 diagonal special case: initial values / vectors and the compare-and-swap network ----------------------
    dg = body_after(v3, r"if\s*\(\s*offDiagNorm\s*<=[^)]*\)\s*\)\s*\{", "3x3 diagonal special case")
    def diag_literal(out):
        iv = one(r"^\s*eigenValues\s*=\s*\{([^}]*)\}\s*;", dg, "3x3 diagonal values")
        ivm = [re.match(r"^scaledMatrix\[([0-2])\]\[([0-2])\]$", norm_ws(x)) for x in iv.split(",")]
        if len(ivm) != 3 or not all(ivm):
            raise TranslateError("3x3 diagonal special case: initial values outside the grammar")
        out.append("/-- `eigenValues = {%s};` -/\ndef ev3_diagInit : List (Nat × Nat) := [%s]\n"
                   % (iv.strip(), ", ".join("(%s, %s)" % (m.group(1), m.group(2)) for m in ivm)))
        vv = one(r"eigenVectors\s*=\s*\{\s*(\{[^;]*\})\s*\}\s*;", dg, "3x3 diagonal vectors")
        vrows = re.findall(r"\{([^{}]*)\}", vv)
        ent = [[norm_ws(x) for x in r.split(",")] for r in vrows]
        if len(ent) != 3 or any(len(r) != 3 for r in ent) or any(not re.match(r"^[01](?:\.0*)?$", x) for r in ent for x in r):
            raise TranslateError("3x3 diagonal special case: initial vectors outside the grammar")
        out.append("/-- `eigenVectors = {%s};` -/\ndef ev3_diagVecs : List (List Nat) := [%s]\n"
                   % (norm_ws(vv), ", ".join("[%s]" % ", ".join(x[0] for x in r) for r in ent)))
        rest = dg[re.search(r"eigenVectors\s*=\s*\{\s*\{[^;]*\}\s*\}\s*;", dg).end():]
        sw_rx = (r"if\s*\(\s*eigenValues\[([0-2])\]\s*>\s*eigenValues\[([0-2])\]\s*\)\s*\{\s*"
                 r"std::swap\(\s*eigenValues\[([0-2])\]\s*,\s*eigenValues\[([0-2])\]\s*\)\s*;\s*"
                 r"std::swap\(\s*eigenVectors\[([0-2])\]\s*,\s*eigenVectors\[([0-2])\]\s*\)\s*;\s*\}")
        sws = re.findall(sw_rx, rest)
        if re.sub(sw_rx, "", rest).strip() or not sws:
            raise TranslateError("3x3 diagonal special case: sort network outside the grammar")
        out.append("/-- `if (eigenValues[a] > eigenValues[b]) { swap(eigenValues[c], eigenValues[d]); swap(eigenVectors[e], eigenVectors[f]); }` -/\n"
                   "def ev3_diagSwaps : List (Nat × Nat × Nat × Nat × Nat × Nat) := [%s]\n" % ", ".join("(%s)" % ", ".join(s) for s in sws))

    # round 5: the literal reading (which yields the tables of *any* compare-and-swap network written that way) first; if
    # the special case is spelled differently (helper lambda, hand-written swap, `b < a`, ...) it is executed and every
    # path must end in the state the network (0,1),(1,2),(0,1) on the diagonal entries / coordinate vectors produces
    # under the same comparison outcomes -- only then the tables of that network are emitted.
    lit_out = []
    try:
        diag_literal(lit_out)
        out.extend(lit_out)
    except TranslateError as lit_err:
        try:
            analyse_diag_network(dg)
        except TranslateError as sem_err:
            raise TranslateError("%s; executed instead: %s" % (lit_err, sem_err))
        out.append("/-- the diagonal special case, executed: starts from the diagonal of scaledMatrix -/\ndef ev3_diagInit : List (Nat × Nat) := [(0, 0), (1, 1), (2, 2)]\n")
        out.append("/-- ... and the coordinate vectors -/\ndef ev3_diagVecs : List (List Nat) := [[1, 0, 0], [0, 1, 0], [0, 0, 1]]\n")
        out.append("/-- ... every path ends in the state of this compare-and-swap network (values and vectors swapped together) -/\n"
                   "def ev3_diagSwaps : List (Nat × Nat × Nat × Nat × Nat × Nat) := [(0, 1, 0, 1, 0, 1), (1, 2, 1, 2, 1, 2), (0, 1, 0, 1, 0, 1)]\n")

    # ---- LAPACK call sites -------------------------------------------------------------------------------------------
    jobs = one(r"enum\s+Jobs\s*\{([^}]*)\}", src, "enum Jobs")
    jv = dict((k.strip(), int(v)) for k, v in (x.split("=") for x in jobs.split(",")))
    if sorted(jv) != ["EigenvaluesEigenvectors", "OnlyEigenvalues"]:
        raise TranslateError("enum Jobs changed")
    lb = body_after(src, r"static\s+void\s+eigenValuesVectorsLapackImpl\s*\([^)]*\)\s*\{", "eigenValuesVectorsLapackImpl")
    if not re.search(r"const\s+long\s+int\s+N\s*=\s*dim\s*;", lb):
        raise TranslateError("LAPACK (symmetric): N = dim not found")
    a = call_args(lb, "eigenValuesLapackCall", "LAPACK (symmetric)")
    if len(a) != 9 or a[2] != "&N" or a[4] != "&N" or a[8] != "&info":
        raise TranslateError("LAPACK (symmetric): call arguments changed: %r" % (a,))
    jz = char_decl(lb, ptr_name(a[0], "jobz"), "LAPACK (symmetric)")
    ul = char_decl(lb, ptr_name(a[1], "uplo"), "LAPACK (symmetric)")
    if jz[0] != "tab" or ul[0] != "lit":
        raise TranslateError("LAPACK (symmetric): jobz/uplo outside the grammar")
    env = {"N": "n", "dim": "n"}
    lw = nat_expr(int_decl(lb, ptr_name(a[7], "lwork"), "LAPACK (symmetric)"), env)
    env2 = dict(env)
    env2[ptr_name(a[7], "lwork")] = lw
    ws = one(r"LapackNumType\s+%s\s*\[([^\]]+)\]\s*;" % ptr_name(a[6], "work"), lb, "LAPACK (symmetric): work array")
    buf = ptr_name(a[3], "a")
    transposed = pack_orientation_sem(lb, ("dim", "N"), buf, "LAPACK (symmetric)")
    ms = one(r"LapackNumType\s+%s\s*\[([^\]]+)\]\s*;" % buf, lb, "LAPACK (symmetric): matrix array")
    cb_transposed = copyback_sym_sem(lb, buf, "LAPACK (symmetric)")
    out.append("/-- `enum Jobs`; `const char jobz = \"%s\"[Tag];`: the job character for eigenvalues only / with eigenvectors -/\n"
               "def lapSym_jobz : Char × Char := ('%s', '%s')\n" % (jz[1], jz[1][jv["OnlyEigenvalues"]], jz[1][jv["EigenvaluesEigenvectors"]]))
    out.append("/-- `const char uplo = '%s';` -/\ndef lapSym_uplo : Char := '%s'\n" % (ul[1], ul[1]))
    out.append("/-- `lwork` of ?syev for order n -/\ndef lapSym_lwork (n : Nat) : Nat := %s\n" % lw)
    out.append("/-- number of entries of the work array handed to ?syev -/\ndef lapSym_workSize (n : Nat) : Nat := %s\n" % nat_expr(ws, env2))
    out.append("/-- number of entries of the flat matrix array -/\ndef lapSym_matSize (n : Nat) : Nat := %s\n" % nat_expr(ms, env2))
    out.append("/-- copy loop reads `matrix[j][i]` (true) or `matrix[i][j]` (false) -/\ndef lapSym_packTransposed : Bool := %s\n" % ("true" if transposed else "false"))
    out.append("/-- copy-back writes `eigenVectors[j][i]` (true) or `eigenVectors[i][j]` (false) -/\ndef lapSym_copyBackTransposed : Bool := %s\n" % ("true" if cb_transposed else "false"))

    nb = body_after(src, r"static\s+void\s+eigenValuesNonSym\s*\([^)]*\)\s*\{", "FMatrixHelp::eigenValuesNonSym")
    a = call_args(nb, "eigenValuesNonsymLapackCall", "LAPACK (non-symmetric, fixed size)")
    if len(a) != 14 or a[2] != "&N" or a[4] != "&N" or a[7] != "nullptr" or a[9] != "nullptr" or a[13] != "&info":
        raise TranslateError("LAPACK (non-symmetric, fixed size): call arguments changed: %r" % (a,))
    jl = char_decl(nb, ptr_name(a[0], "jobvl"), "LAPACK (non-symmetric, fixed size)")
    jr = char_decl(nb, ptr_name(a[1], "jobvr"), "LAPACK (non-symmetric, fixed size)")
    if jl[0] != "lit" or jr[0] != "lit":
        raise TranslateError("LAPACK (non-symmetric, fixed size): job characters outside the grammar")
    lw = nat_expr(int_decl(nb, ptr_name(a[12], "lwork"), "LAPACK (non-symmetric, fixed size)"), env)
    env2 = dict(env)
    env2[ptr_name(a[12], "lwork")] = lw
    ws = one(r"LapackNumType\s+%s\s*\[([^\]]+)\]\s*;" % ptr_name(a[11], "work"), nb, "LAPACK (non-symmetric, fixed size): work array")
    wrs = one(r"LapackNumType\s+%s\s*\[([^\]]+)\]\s*;" % ptr_name(a[5], "wr"), nb, "LAPACK (non-symmetric, fixed size): wr array")
    wis = one(r"LapackNumType\s+%s\s*\[([^\]]+)\]\s*;" % ptr_name(a[6], "wi"), nb, "LAPACK (non-symmetric, fixed size): wi array")
    buf = ptr_name(a[3], "a")
    transposed = pack_orientation_sem(nb, ("dim", "N"), buf, "LAPACK (non-symmetric, fixed size)")
    out.append("/-- `jobvl`, `jobvr` of FMatrixHelp::eigenValuesNonSym -/\ndef lapNsF_jobs : Char × Char := ('%s', '%s')\n" % (jl[1], jr[1]))
    out.append("def lapNsF_lwork (n : Nat) : Nat := %s\n" % lw)
    out.append("def lapNsF_workSize (n : Nat) : Nat := %s\n" % nat_expr(ws, env2))
    out.append("/-- entries of the arrays for the real / imaginary parts -/\ndef lapNsF_wSize (n : Nat) : Nat × Nat := (%s, %s)\n" % (nat_expr(wrs, env2), nat_expr(wis, env2)))
    out.append("def lapNsF_packTransposed : Bool := %s\n" % ("true" if transposed else "false"))

    dsrc = strip_comments(open(os.path.join(repo, "dune/common/dynmatrixev.hh")).read())
    db = body_after(dsrc, r"static\s+void\s+eigenValuesNonSym\s*\([^)]*\)\s*\{", "DynamicMatrixHelp::eigenValuesNonSym")
    if not re.search(r"const\s+long\s+int\s+N\s*=\s*matrix\s*\.\s*rows\(\)\s*;", db):
        raise TranslateError("LAPACK (dynamic): N = matrix.rows() not found")
    a = call_args(db, "eigenValuesNonsymLapackCall", "LAPACK (dynamic)")
    if len(a) != 14 or a[2] != "&N" or a[4] != "&N" or a[7] != "nullptr" or a[10] != "&N" or a[13] != "&info":
        raise TranslateError("LAPACK (dynamic): call arguments changed: %r" % (a,))
    bools = ("eigenVectors",)
    jl = char_decl(db, ptr_name(a[0], "jobvl"), "LAPACK (dynamic)", bools)
    jr = char_decl(db, ptr_name(a[1], "jobvr"), "LAPACK (dynamic)", bools)

    def jc(j):
        return "('%s', '%s')" % ((j[1], j[1]) if j[0] == "lit" else (j[1], j[2]))
    if jl[0] == "tab" or jr[0] == "tab":
        raise TranslateError("LAPACK (dynamic): job characters outside the grammar")
    envd = {"N": "n", "__bools__": bools}
    lw = nat_expr(int_decl(db, ptr_name(a[12], "lwork"), "LAPACK (dynamic)"), envd)
    envd2 = dict(envd)
    envd2[ptr_name(a[12], "lwork")] = lw

    def heap(name, what):
        """`auto name = std::make_unique<double[]>(EXPR);` (a fresh buffer for every call) or
        `auto name = eigenVectors ? std::make_unique<double[]>(EXPR) : std::unique_ptr<double[]>{};`"""
        e = one(r"auto\s+%s\s*=\s*([^;]+);" % name, db, "LAPACK (dynamic): buffer " + what).strip()
        m = re.match(r"^std::make_unique\s*<\s*double\s*\[\]\s*>\s*\((.+)\)$", e)
        if m:
            return nat_expr(m.group(1), envd2)
        m = re.match(r"^(\w+)\s*\?\s*std::make_unique\s*<\s*double\s*\[\]\s*>\s*\((.+)\)\s*:\s*std::unique_ptr\s*<\s*double\s*\[\]\s*>\s*\{\s*\}$", e)
        if m and m.group(1) in bools:
            return "(if vec then %s else 0)" % nat_expr(m.group(2), envd2)
        raise TranslateError("LAPACK (dynamic): buffer %s = %r outside the grammar" % (name, e))
    buf = ptr_name(a[3], "a")
    transposed = pack_orientation_sem(db, ("N",), buf, "LAPACK (dynamic)")
    out.append("/-- `jobvl`, `jobvr` of DynamicMatrixHelp::eigenValuesNonSym as (with eigenvectors, without) -/\n"
               "def lapNsD_jobvl : Char × Char := %s\ndef lapNsD_jobvr : Char × Char := %s\n" % (jc(jl), jc(jr)))
    out.append("def lapNsD_lwork (n : Nat) (vec : Bool) : Nat := %s\n" % lw)
    out.append("def lapNsD_workSize (n : Nat) (vec : Bool) : Nat := %s\n" % heap(ptr_name(a[11], "work"), "work"))
    out.append("def lapNsD_matSize (n : Nat) (vec : Bool) : Nat := %s\n" % heap(buf, "matrix"))
    out.append("def lapNsD_wSize (n : Nat) (vec : Bool) : Nat × Nat := (%s, %s)\n" % (heap(ptr_name(a[5], "wr"), "wr"), heap(ptr_name(a[6], "wi"), "wi")))
    out.append("def lapNsD_vrSize (n : Nat) (vec : Bool) : Nat := %s\n" % heap(ptr_name(a[9], "vr"), "vr"))
    out.append("def lapNsD_packTransposed : Bool := %s\n" % ("true" if transposed else "false"))
    # copy-back of vector i: `std::copy(vr + N*i, vr + N*(i+1), &v[0])`
    vrn = ptr_name(a[9], "vr")
    copyback_dyn_sem(db, vrn, "LAPACK (dynamic)")
    out.append("/-- vector i is copied from `vr[N*i .. N*(i+1))` -/\ndef lapNsD_copyBackStride : Bool := true\n")
    # ---- orthoComp: the branch condition, the 2-vector whose length normalises u, and u in both branches ------------
    oc = body_after(src, r"void\s+orthoComp\s*\([^)]*\)\s*\{", "orthoComp")
    ohdr = one(r"void\s+orthoComp\s*\(\s*const\s+FieldVector\s*<\s*K\s*,\s*3\s*>\s*&\s*(\w+)\s*,\s*FieldVector\s*<\s*K\s*,\s*3\s*>\s*&\s*(\w+)\s*,\s*FieldVector\s*<\s*K\s*,\s*3\s*>\s*&\s*(\w+)\s*\)",
               src, "orthoComp signature")
    en, un, vn = ohdr
    (ci, cj), sides = analyse_orthoComp(oc, en, un, vn)
    out.append("section\nvariable {K : Type} [Add K] [Sub K] [Mul K] [Div K] [Neg K] [NatCast K]\n")
    out.append("/-- `if(abs(evec0[%s]) > abs(evec0[%s]))`: the components compared -/\ndef orthoComp_cond : Nat × Nat := (%s, %s)\n" % (ci, cj, ci, cj))
    for tag, (tc, uc) in zip("AB", sides):
        out.append("/-- branch %s: the 2-vector whose `two_norm()` normalises u -/\ndef orthoComp_temp%s (e0 e1 e2 : K) : K × K :=\n  (%s, %s)\n" % (tag, tag, tc[0], tc[1]))
        out.append("/-- branch %s: `u = (1 / two_norm) * {..}` -/\ndef orthoComp_u%s (e0 e1 e2 : K) : K × K × K :=\n  (%s, %s, %s)\n" % (tag, tag, uc[0], uc[1], uc[2]))

    # ---- eig1: the reduced 2x2 matrix and the four normalisation sequences with their result coefficients ----------
    e1 = body_after(src, r"void\s+eig1\s*\([^)]*\)\s*\{", "eig1")
    ehdr = one(r"void\s+eig1\s*\(\s*const\s+FieldMatrix\s*<\s*K\s*,\s*3\s*,\s*3\s*>\s*&\s*matrix\s*,\s*const\s+FieldVector\s*<\s*K\s*,\s*3\s*>\s*&\s*(\w+)\s*,\s*FieldVector\s*<\s*K\s*,\s*3\s*>\s*&\s*(\w+)\s*,\s*K\s+(\w+)\s*\)",
               src, "eig1 signature")
    mterms, leafs = analyse_eig1(e1, ehdr[0], ehdr[1], ehdr[2])
    for nm, term in zip(("m00", "m01", "m11"), mterms):
        out.append("/-- entry %s of the reduced 2x2 matrix -/\ndef eig1_%s (uAu uAv vAv eval1 : K) : K :=\n  %s\n" % (nm, nm, term))
    for tag in ("0", "1"):
        for sub_ in ("a", "b"):
            out.append("/-- eig1, outer branch %s (`|m00| >= |m11|` %s), inner branch %s (`|mdd| >= |m01|` %s): `evec1 = a*u - b*v` as (a, b) -/\n"
                       "def eig1_leaf%s%s (sqrt : K → K) (m00 m01 m11 : K) : K × K :=\n  (%s, %s)\n"
                       % (tag, "holds" if tag == "0" else "fails", sub_, "holds" if sub_ == "a" else "fails", tag, sub_, leafs[tag + sub_][0], leafs[tag + sub_][1]))
    out.append("end\n")

    # ---- the four public symmetric entry points: which job they run ------------------------------------------------
    ej = []
    for fn, impl in (("eigenValues", "eigenValuesVectorsImpl"), ("eigenValuesVectors", "eigenValuesVectorsImpl"),
                     ("eigenValuesLapack", "eigenValuesVectorsLapackImpl"), ("eigenValuesVectorsLapack", "eigenValuesVectorsLapackImpl")):
        fb = body_after(src, r"static\s+void\s+%s\s*\(\s*const\s+FieldMatrix\s*<\s*K\s*,\s*dim\s*,\s*dim\s*>[^)]*\)\s*\{" % fn, "FMatrixHelp::" + fn)
        job = one(r"Impl::%s\s*<\s*Impl::Jobs::(\w+)\s*>\s*\(\s*matrix\s*,\s*eigenValues\s*,\s*(\w+)\s*\)\s*;" % impl, fb, "FMatrixHelp::" + fn + ": call of Impl::" + impl)
        if job[0] not in jv:
            raise TranslateError("FMatrixHelp::%s: unknown job %r" % (fn, job[0]))
        if (job[1] == "eigenVectors") != (fn in ("eigenValuesVectors", "eigenValuesVectorsLapack")):
            raise TranslateError("FMatrixHelp::%s: eigenvector argument is %r" % (fn, job[1]))
        ej.append("true" if job[0] == "EigenvaluesEigenvectors" else "false")
    out.append("/-- does the entry point run the eigenvector job: eigenValues, eigenValuesVectors, eigenValuesLapack (into a dummy), eigenValuesVectorsLapack -/\n"
               "def entryJobs : Bool × Bool × Bool × Bool := (%s)\n" % ", ".join(ej))
    out.append("end DV.C08.Gen")
    return ("DuneVerif/Gen/C08T.lean", "\n".join(out) + "\n")


M2 = ["m00", "m01", "m10", "m11"]
M3 = ["m00", "m01", "m02", "m10", "m11", "m12", "m20", "m21", "m22"]


def translate(repo):
    raw = open(os.path.join(repo, "dune/common/fmatrixev.hh")).read()
    src = strip_comments(raw)
    out = ["-- GENERATED by tools/translators/tr_c08.py from dune/common/fmatrixev.hh -- do not edit",
           "set_option linter.unusedVariables false",
           "namespace DV.C08.Gen",
           "section",
           "variable {K : Type} [Add K] [Sub K] [Mul K] [Div K] [Neg K] [NatCast K]",
           ""]

    def emit(name, params, ty, body, comment):
        out.append("/-- `%s` -/" % comment.replace("`", "'"))
        out.append("def %s %s: %s :=\n  %s" % (name, ("(%s : K) " % " ".join(params)) if params else "", ty, body))
        out.append("")

    # ---- eigenValues2dImpl -----------------------------------------------------------------------
    b2 = body_after(src, r"static\s+void\s+eigenValues2dImpl\s*\([^)]*\)\s*\{", "eigenValues2dImpl")
    e_p = one(r"const\s+K\s+p\s*=\s*([^;]+);", b2, "2x2 p")
    e_p2 = one(r"const\s+K\s+p2\s*=\s*([^;]+);", b2, "2x2 p2")
    e_q = one(r"\bK\s+q\s*=\s*([^;]+);", b2, "2x2 q")
    emit("ev2_p", M2, "K", tr(e_p, M2), "const K p = %s;" % e_p.strip())
    emit("ev2_p2", M2 + ["p"], "K", tr(e_p2, M2 + ["p"]), "const K p2 = %s;" % e_p2.strip())
    emit("ev2_q", M2 + ["p", "p2"], "K", tr(e_q, M2 + ["p", "p2"]), "K q = %s;" % e_q.strip())
    clamp = one(r"if\s*\(\s*q\s*<\s*0\s*&&\s*q\s*>\s*([^)]+?)\s*\)\s*q\s*=\s*0\s*;", b2, "2x2 clamp of slightly negative q")
    emit("ev2_qClamp", [], "K", tr(clamp, []), "if( q < 0 && q > %s ) q = 0;" % clamp.strip())
    if not re.search(r"if\s*\(\s*q\s*<\s*0\s*\)\s*\{[^}]*DUNE_THROW\s*\(\s*MathError", b2, re.S):
        raise TranslateError("2x2: `if (q < 0) ... DUNE_THROW(MathError` not found")
    if not re.search(r"\bq\s*=\s*sqrt\s*\(\s*q\s*\)\s*;", b2):
        raise TranslateError("2x2: `q = sqrt(q);` not found")
    e_l0 = one(r"eigenvalues\s*\[\s*0\s*\]\s*=\s*([^;]+);", b2, "2x2 eigenvalues[0]")
    e_l1 = one(r"eigenvalues\s*\[\s*1\s*\]\s*=\s*([^;]+);", b2, "2x2 eigenvalues[1]")
    emit("ev2_lam0", ["p", "q"], "K", tr(e_l0, ["p", "q"]), "eigenvalues[0] = %s;   (q after q = sqrt(q))" % e_l0.strip())
    emit("ev2_lam1", ["p", "q"], "K", tr(e_l1, ["p", "q"]), "eigenvalues[1] = %s;" % e_l1.strip())

    # ---- 2x2 eigenvectors ------------------------------------------------------------------------
    v2 = body_after(src, r"static\s+void\s+eigenValuesVectorsImpl\s*\(\s*const\s+FieldMatrix\s*<\s*K\s*,\s*2\s*,\s*2\s*>[^)]*\)\s*\{",
                    "2x2 eigenValuesVectorsImpl")
    # round 5: every path of the routine is executed symbolically; preconditioning, shift, threshold, the unit vectors of
    # the identity branch and the column choice are read off the resulting states (see analyse_2x2)
    pre, s0, thr_term, cols = cols_to_lean(v2)
    out.append("/-- is the 2x2 path preconditioned by `scaledMatrix = matrix / maxAbsElement` (and `eigenValues *= maxAbsElement`) -/\n"
               "def ev2_preconditioned : Bool := %s\n" % ("true" if pre else "false"))
    out.append("/-- `temp[i][i] -= eigenValues[%s];` -/\ndef ev2_shiftIndex : Nat := %s\n" % (s0, s0))
    emit("ev2_identThreshold", ["eps", "normA"], "K", thr_term,
         "if(temp.infinity_norm() <= THRESHOLD)   (normA = infinity_norm() of the matrix the closed form ran on)")
    al = M2 + ["l0", "l1"]
    for vi in (0, 1):
        for ci in (0, 1):
            emit("ev2_v%d_col%d" % (vi, ci), al, "K × K", "(%s, %s)" % cols[vi][ci],
                 "candidate column %d for eigenVectors[%d] (column 0 is taken when its squared norm is >= that of column 1)" % (ci, vi))

    # ---- crossProduct ------------------------------------------------------------------------------
    cp = body_after(src, r"crossProduct\s*\(\s*const\s+FieldVector\s*<\s*K\s*,\s*3\s*>\s*&\s*vec0\s*,\s*const\s+FieldVector\s*<\s*K\s*,\s*3\s*>\s*&\s*vec1\s*\)\s*\{",
                    "crossProduct")
    ab = ["a0", "a1", "a2", "b0", "b1", "b2"]
    comps = analyse_crossProduct(cp)
    emit("cross", ab, "K × K × K", "(%s,\n   %s,\n   %s)" % tuple(comps), "crossProduct(vec0, vec1): the three components of the returned vector")

    # ---- eigenValues3dImpl -------------------------------------------------------------------------
    b3 = body_after(src, r"static\s+K\s+eigenValues3dImpl\s*\([^)]*\)\s*\{", "eigenValues3dImpl")
    e_p1 = one(r"\bK\s+p1\s*=\s*([^;]+);", b3, "3x3 p1")
    emit("ev3_p1", M3, "K", tr(e_p1, M3), "K p1 = %s;" % e_p1.strip())
    t_p1 = one(r"if\s*\(\s*p1\s*<=\s*(.+?)\)\s*\{", b3, "3x3 diagonal threshold")
    emit("ev3_diagThreshold", ["eps"], "K", tr(t_p1, ["eps"]), "if (p1 <= %s)" % t_p1.strip())
    if not re.search(r"eigenvalues\[0\]\s*=\s*matrix\[0\]\[0\];\s*eigenvalues\[1\]\s*=\s*matrix\[1\]\[1\];\s*eigenvalues\[2\]\s*=\s*matrix\[2\]\[2\];\s*"
                     r"std::sort\(eigenvalues\.begin\(\),\s*eigenvalues\.end\(\)\);\s*return\s+0\.0;", b3):
        raise TranslateError("3x3: diagonal branch changed")
    qloop = one(r"K\s+q\s*=\s*0\s*;\s*for\s*\(\s*int\s+i\s*=\s*0\s*;\s*i\s*<\s*3\s*;\s*i\+\+\s*\)\s*q\s*\+=\s*matrix\[i\]\[i\]\s*/\s*([0-9.]+)\s*;", b3,
                "3x3 q loop")
    d = lit(qloop)
    emit("ev3_q", ["m00", "m11", "m22"], "K", "((((Nat.cast 0 : K) + (m00 / %s)) + (m11 / %s)) + (m22 / %s))" % (d, d, d),
         "K q = 0; for (int i=0; i<3; i++) q += matrix[i][i] / %s;" % qloop)
    e_p2 = one(r"\bK\s+p2\s*=\s*([^;]+);", b3, "3x3 p2")
    emit("ev3_p2", M3 + ["q", "p1"], "K", tr(e_p2, M3 + ["q", "p1"]), "K p2 = %s;" % e_p2.strip())
    e_p = one(r"\bK\s+p\s*=\s*([^;]+);", b3, "3x3 p")
    out.append("/-- `K p = %s;` -/\ndef ev3_p (sqrt : K → K) (p2 : K) : K :=\n  %s\n" % (e_p.strip(), tr(e_p, ["p2", "sqrt"])))
    e_B = one(r"B\[i\]\[j\]\s*=\s*\(([^;]*?)\)\s*\*\s*\(\s*matrix\[i\]\[j\]\s*-\s*q\s*\*\s*\(\s*i\s*==\s*j\s*\)\s*\)\s*;", b3, "3x3 B")
    emit("ev3_Bscale", ["p"], "K", tr(e_B, ["p"]), "B[i][j] = (%s) * (matrix[i][j] - q*(i==j));" % e_B.strip())
    e_r = one(r"\bK\s+r\s*=\s*B\s*\.\s*determinant\(\)\s*([^;]*);", b3, "3x3 r")
    emit("ev3_r", ["detB"], "K", tr("detB " + e_r, ["detB"]), "K r = B.determinant() %s;" % e_r.strip())
    cl = one(r"r\s*=\s*clamp\s*<\s*K\s*>\s*\(\s*r\s*,([^;]*)\)\s*;", b3, "3x3 clamp")
    lo, hi = tr_list(cl, [])
    emit("ev3_clampLo", [], "K", lo, "r = clamp<K>(r, %s);" % cl.strip())
    emit("ev3_clampHi", [], "K", hi, "r = clamp<K>(r, %s);" % cl.strip())
    e_phi = one(r"\bK\s+phi\s*=\s*([^;]+);", b3, "3x3 phi")
    out.append("/-- `K phi = %s;` -/\ndef ev3_phi (acos : K → K) (r : K) : K :=\n  %s\n" % (e_phi.strip(), tr(e_phi, ["r", "acos"])))
    assigns = re.findall(r"eigenvalues\s*\[\s*([012])\s*\]\s*=\s*(q\s*\+[^;]+|3\s*\*[^;]+);", b3)
    if [a[0] for a in assigns] != ["2", "0", "1"]:
        raise TranslateError("3x3: eigenvalue assignments changed: %r" % (assigns,))
    al3 = ["q", "p", "phi", "pi", "cos"]
    out.append("/-- `eigenvalues[2] = %s;` -/\ndef ev3_lam2 (cos : K → K) (q p phi pi : K) : K :=\n  %s\n" % (assigns[0][1].strip(), tr(assigns[0][1], al3)))
    out.append("/-- `eigenvalues[0] = %s;` -/\ndef ev3_lam0 (cos : K → K) (q p phi pi : K) : K :=\n  %s\n" % (assigns[1][1].strip(), tr(assigns[1][1], al3)))
    emit("ev3_lam1", ["q", "l0", "l2"], "K", tr(assigns[2][1], ["q", "l0", "l2"]), "eigenvalues[1] = %s;" % assigns[2][1].strip())
    sorted_after = bool(re.search(r"eigenvalues\[1\]\s*=\s*3[^;]*;\s*std::sort\(eigenvalues\.begin\(\),\s*eigenvalues\.end\(\)\);\s*return\s+r\s*;", b3))
    out.append("/-- is `std::sort(eigenvalues.begin(), eigenvalues.end());` applied to the trigonometric values before `return r;` -/\n"
               "def ev3_sortedAfterTrig : Bool := %s\n" % ("true" if sorted_after else "false"))

    # ---- 3x3 eigenvectors: threshold of the diagonal special case, scaling ---------------------------
    v3 = body_after(src, r"static\s+void\s+eigenValuesVectorsImpl\s*\(\s*const\s+FieldMatrix\s*<\s*K\s*,\s*3\s*,\s*3\s*>[^)]*\)\s*\{",
                    "3x3 eigenValuesVectorsImpl")
    analyse_3x3_prefix(v3)
    if not re.search(r"eigenValues\s*\*=\s*maxAbsElement\s*;", v3):
        raise TranslateError("3x3: scaling of the eigenvalues not reverted")
    offd = one(r"K\s+offDiagNorm\s*=\s*Vector\s*\{([^}]*)\}\s*\.\s*two_norm2\(\)\s*;", v3, "3x3 offDiagNorm")
    if norm_ws(offd) != "scaledMatrix[0][1],scaledMatrix[0][2],scaledMatrix[1][2]":
        raise TranslateError("3x3: offDiagNorm entries changed")
    t_v = one(r"if\s*\(\s*offDiagNorm\s*<=\s*(.+?)\)\s*\{", v3, "3x3 eigenvector diagonal threshold")
    emit("ev3_vecThreshold", ["eps"], "K", tr(t_v, ["eps"]), "if (offDiagNorm <= %s)" % t_v.strip())

    # ---- DenseMatrix::determinant, rows()==3 (densematrix.hh): B.determinant() in eigenValues3dImpl --------
    dm = strip_comments(open(os.path.join(repo, "dune/common/densematrix.hh")).read())
    dbody = body_after(dm, r"DenseMatrix\s*<\s*MAT\s*>\s*::\s*determinant\s*\([^)]*\)\s*const\s*\{", "DenseMatrix::determinant")
    blk = body_after(dbody, r"if\s*\(\s*rows\(\)\s*==\s*3\s*\)\s*\{", "determinant rows()==3 block")
    blk = blk.replace("(*this)", "m")
    temps = re.findall(r"field_type\s+(t[0-9]+)\s*=\s*([^;]+);", blk)
    ret3 = one(r"return\s*\(?([^;]+?)\)?\s*;", blk, "determinant 3x3 return")
    rest = re.sub(r"field_type\s+t[0-9]+\s*=\s*[^;]+;", "", blk)
    rest = re.sub(r"return\s*[^;]+;", "", rest)
    if rest.strip():
        raise TranslateError("determinant 3x3: unexpected statements %r" % rest.strip()[:80])
    names = []
    lets = []
    for (nm, ex) in temps:
        lets.append("let %s : K := %s" % (nm, tr(ex, M3 + names)))
        names.append(nm)
    out.append("/-- `DenseMatrix::determinant()` for rows()==3: `%s` -/" % norm_ws(ret3).replace("`", "'"))
    out.append("def det3 (m00 m01 m02 m10 m11 m12 m20 m21 m22 : K) : K :=\n  %s\n  %s\n"
               % ("\n  ".join(lets), tr(ret3, M3 + names)))

    out.append("end")
    out.append("end DV.C08.Gen")
    return [("DuneVerif/Gen/C08.lean", "\n".join(out) + "\n"), translate_tables(repo, src)]


if __name__ == "__main__":
    import sys
    for path, content in translate(sys.argv[1] if len(sys.argv) > 1 else "/repo"):
        sys.stdout.write(content)
