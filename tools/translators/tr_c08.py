"""Translator for C08: the straight-line arithmetic and the threshold constants of the closed-form eigenvalue code in
dune/common/fmatrixev.hh are re-read from the source on every run and emitted as lean/DuneVerif/Gen/C08.lean,
generic over core arithmetic classes (Add/Sub/Mul/Div/Neg/NatCast).  Translated pieces:

  eigenValues2dImpl        p, p2, q, the clamp constant of `q < 0 && q > -c`, eigenvalues[0], eigenvalues[1]
  2x2 eigenValuesVectorsImpl   which eigenvalue is subtracted for the identity test, the identity threshold expression,
                           the four candidate columns; the selection statement is matched literally
  crossProduct             the three components
  eigenValues3dImpl        p1, its threshold, q (the trace/3 loop), p2, p, the B scaling factor, r, phi, the three
                           eigenvalue formulas
  3x3 eigenValuesVectorsImpl   the threshold of the diagonal special case
  DenseMatrix::determinant (densematrix.hh)   the rows()==3 block (used for B.determinant()): temporaries and the
                           return expression in source order

Anything outside the small expression grammar ( + - * / unary minus, parentheses, literals, the named variables,
sqrt/acos/cos calls, numeric_limits<..>::epsilon(), matrix.infinity_norm(), real_type(c)/K(c) casts ) raises
TranslateError, which check.py reports as a broken obligation and answers with a search for a failing input."""
import os
import re
from fractions import Fraction


class TranslateError(Exception):
    pass


# ------------------------------------------------------------------------------------------------
# C++ expression -> Lean term
# ------------------------------------------------------------------------------------------------
TOKEN = re.compile(r"""
    \s*(?:
      (?P<eps>std::numeric_limits<\s*(?:K|real_type)\s*>::epsilon\(\))   # only the epsilon of the scalar type itself
    | (?P<norm>(?:matrix|scaledMatrix)\s*\.\s*infinity_norm\(\))
    | (?P<cast>(?:real_type|K)\s*\(\s*(?P<castnum>[0-9.]+(?:[eE][-+]?[0-9]+)?)\s*\))
    | (?P<num>(?:[0-9]+\.?[0-9]*|\.[0-9]+)(?:[eE][-+]?[0-9]+)?)
    | (?P<idx>(?P<base>[A-Za-z_][A-Za-z_0-9]*)\s*\[\s*(?P<i>[0-9])\s*\](?:\s*\[\s*(?P<j>[0-9])\s*\])?)
    | (?P<id>[A-Za-z_][A-Za-z_0-9]*)
    | (?P<op>[-+*/(),])
    )""", re.X)


def tokenize(src):
    pos, out = 0, []
    src = src.strip()
    while pos < len(src):
        m = TOKEN.match(src, pos)
        if not m or m.end() == pos:
            raise TranslateError("cannot tokenise %r at %r" % (src, src[pos:pos + 20]))
        pos = m.end()
        if m.group("eps"):
            out.append(("var", "eps"))
        elif m.group("norm"):
            out.append(("var", "normA"))
        elif m.group("cast"):
            out.append(("num", m.group("castnum")))
        elif m.group("num"):
            out.append(("num", m.group("num")))
        elif m.group("idx"):
            base, i, j = m.group("base"), m.group("i"), m.group("j")
            out.append(("var", {"matrix": "m", "scaledMatrix": "m", "eigenValues": "l", "eigenvalues": "l", "vec0": "a", "vec1": "b"}.get(base, base)
                        + i + (j if j is not None else "")))
        elif m.group("id"):
            out.append(("id", m.group("id")))
        else:
            out.append(("op", m.group("op")))
    return out


def lit(text):
    """decimal literal -> Lean term over NatCast/Div (exact rational value of the decimal string)"""
    try:
        f = Fraction(text)
    except Exception:
        raise TranslateError("bad literal %r" % text)
    if f.denominator == 1:
        return "(Nat.cast %d : K)" % f.numerator
    return "((Nat.cast %d : K) / (Nat.cast %d : K))" % (f.numerator, f.denominator)


class Parser:
    FUNCS = {"sqrt", "acos", "cos"}

    def __init__(self, toks, allowed):
        self.t, self.i, self.allowed = toks, 0, allowed

    def peek(self):
        return self.t[self.i] if self.i < len(self.t) else (None, None)

    def eat(self, kind=None, val=None):
        k, v = self.peek()
        if k is None or (kind and k != kind) or (val and v != val):
            raise TranslateError("unexpected token %r (wanted %r %r)" % ((k, v), kind, val))
        self.i += 1
        return v

    def expr(self):
        e = self.term()
        while self.peek() in (("op", "+"), ("op", "-")):
            o = self.eat()
            e = "(%s %s %s)" % (e, o, self.term())
        return e

    def term(self):
        e = self.unary()
        while self.peek() in (("op", "*"), ("op", "/")):
            o = self.eat()
            e = "(%s %s %s)" % (e, o, self.unary())
        return e

    def unary(self):
        if self.peek() == ("op", "-"):
            self.eat()
            return "(-%s)" % self.unary()
        return self.primary()

    def primary(self):
        k, v = self.peek()
        if k == "num":
            self.eat()
            return lit(v)
        if k == "var":
            self.eat()
            if v not in self.allowed:
                raise TranslateError("variable %r not expected here" % v)
            return v
        if k == "id":
            self.eat()
            if v in self.FUNCS:
                self.eat("op", "(")
                e = self.expr()
                self.eat("op", ")")
                if v not in self.allowed:
                    raise TranslateError("function %r not expected here" % v)
                return "(%s %s)" % (v, e)
            if v not in self.allowed:
                raise TranslateError("identifier %r not expected here" % v)
            return v
        if (k, v) == ("op", "("):
            self.eat()
            e = self.expr()
            self.eat("op", ")")
            return e
        raise TranslateError("unexpected token %r" % ((k, v),))


def tr(expr, allowed):
    p = Parser(tokenize(expr), set(allowed))
    e = p.expr()
    if p.i != len(p.t):
        raise TranslateError("trailing tokens in %r" % expr)
    return e


def tr_list(text, allowed):
    """`a, b, c` at top level -> list of Lean terms"""
    parts, depth, cur = [], 0, ""
    for ch in text:
        if ch in "([":
            depth += 1
        if ch in ")]":
            depth -= 1
        if ch == "," and depth == 0:
            parts.append(cur)
            cur = ""
        else:
            cur += ch
    parts.append(cur)
    return [tr(p, allowed) for p in parts]


# ------------------------------------------------------------------------------------------------
# locating the pieces
# ------------------------------------------------------------------------------------------------
def strip_comments(src):
    src = re.sub(r"/\*.*?\*/", lambda m: "\n" * m.group(0).count("\n"), src, flags=re.S)
    return re.sub(r"//[^\n]*", "", src)


def body_after(src, header_rx, what):
    m = re.search(header_rx, src, re.S)
    if not m:
        raise TranslateError("%s not found" % what)
    i = src.index("{", m.end() - 1) if src[m.end() - 1] != "{" else m.end() - 1
    depth, j = 0, i
    while j < len(src):
        if src[j] == "{":
            depth += 1
        elif src[j] == "}":
            depth -= 1
            if depth == 0:
                return src[i + 1:j]
        j += 1
    raise TranslateError("unbalanced braces in %s" % what)


def one(rx, text, what, flags=re.S):
    ms = re.findall(rx, text, flags)
    if len(ms) != 1:
        raise TranslateError("%s: expected exactly one match, found %d" % (what, len(ms)))
    return ms[0]


def norm_ws(s):
    return re.sub(r"\s+", "", s)


M2 = ["m00", "m01", "m10", "m11"]
M3 = ["m00", "m01", "m02", "m10", "m11", "m12", "m20", "m21", "m22"]


def translate(repo):
    raw = open(os.path.join(repo, "dune/common/fmatrixev.hh")).read()
    src = strip_comments(raw)
    out = ["-- GENERATED by tools/translators/tr_c08.py from dune/common/fmatrixev.hh -- do not edit",
           "set_option linter.unusedVariables false",
           "namespace DV.C08.Gen",
           "section",
           "variable {K : Type} [Add K] [Sub K] [Mul K] [Div K] [Neg K] [NatCast K]",
           ""]

    def emit(name, params, ty, body, comment):
        out.append("/-- `%s` -/" % comment.replace("`", "'"))
        out.append("def %s %s: %s :=\n  %s" % (name, ("(%s : K) " % " ".join(params)) if params else "", ty, body))
        out.append("")

    # ---- eigenValues2dImpl -----------------------------------------------------------------------
    b2 = body_after(src, r"static\s+void\s+eigenValues2dImpl\s*\([^)]*\)\s*\{", "eigenValues2dImpl")
    e_p = one(r"const\s+K\s+p\s*=\s*([^;]+);", b2, "2x2 p")
    e_p2 = one(r"const\s+K\s+p2\s*=\s*([^;]+);", b2, "2x2 p2")
    e_q = one(r"\bK\s+q\s*=\s*([^;]+);", b2, "2x2 q")
    emit("ev2_p", M2, "K", tr(e_p, M2), "const K p = %s;" % e_p.strip())
    emit("ev2_p2", M2 + ["p"], "K", tr(e_p2, M2 + ["p"]), "const K p2 = %s;" % e_p2.strip())
    emit("ev2_q", M2 + ["p", "p2"], "K", tr(e_q, M2 + ["p", "p2"]), "K q = %s;" % e_q.strip())
    clamp = one(r"if\s*\(\s*q\s*<\s*0\s*&&\s*q\s*>\s*([^)]+?)\s*\)\s*q\s*=\s*0\s*;", b2, "2x2 clamp of slightly negative q")
    emit("ev2_qClamp", [], "K", tr(clamp, []), "if( q < 0 && q > %s ) q = 0;" % clamp.strip())
    if not re.search(r"if\s*\(\s*q\s*<\s*0\s*\)\s*\{[^}]*DUNE_THROW\s*\(\s*MathError", b2, re.S):
        raise TranslateError("2x2: `if (q < 0) ... DUNE_THROW(MathError` not found")
    if not re.search(r"\bq\s*=\s*sqrt\s*\(\s*q\s*\)\s*;", b2):
        raise TranslateError("2x2: `q = sqrt(q);` not found")
    e_l0 = one(r"eigenvalues\s*\[\s*0\s*\]\s*=\s*([^;]+);", b2, "2x2 eigenvalues[0]")
    e_l1 = one(r"eigenvalues\s*\[\s*1\s*\]\s*=\s*([^;]+);", b2, "2x2 eigenvalues[1]")
    emit("ev2_lam0", ["p", "q"], "K", tr(e_l0, ["p", "q"]), "eigenvalues[0] = %s;   (q after q = sqrt(q))" % e_l0.strip())
    emit("ev2_lam1", ["p", "q"], "K", tr(e_l1, ["p", "q"]), "eigenvalues[1] = %s;" % e_l1.strip())

    # ---- 2x2 eigenvectors ------------------------------------------------------------------------
    v2 = body_after(src, r"static\s+void\s+eigenValuesVectorsImpl\s*\(\s*const\s+FieldMatrix\s*<\s*K\s*,\s*2\s*,\s*2\s*>[^)]*\)\s*\{",
                    "2x2 eigenValuesVectorsImpl")
    s0 = one(r"temp\s*\[0\]\s*\[0\]\s*-=\s*eigenValues\s*\[\s*([01])\s*\]\s*;", v2, "2x2 temp[0][0] shift")
    s1 = one(r"temp\s*\[1\]\s*\[1\]\s*-=\s*eigenValues\s*\[\s*([01])\s*\]\s*;", v2, "2x2 temp[1][1] shift")
    if s0 != s1:
        raise TranslateError("2x2: the two diagonal shifts use different eigenvalues")
    # max-norm preconditioning of the 2x2 path (as in the 3x3 path): either complete or absent
    pre = bool(re.search(r"K\s+maxAbsElement\s*=\s*\(\s*isnormal\s*\(\s*matrix\.infinity_norm\(\)\s*\)\s*\)\s*\?\s*matrix\.infinity_norm\(\)\s*:\s*K\(1\.0\)\s*;\s*"
                         r"(?:const\s+)?FieldMatrix\s*<\s*K\s*,\s*2\s*,\s*2\s*>\s+scaledMatrix\s*=\s*matrix\s*/\s*maxAbsElement\s*;", v2))
    mname = "scaledMatrix" if pre else "matrix"
    other = "matrix" if pre else "scaledMatrix"
    if not re.search(r"Impl::eigenValues2dImpl\(\s*%s\s*,\s*eigenValues\s*\)\s*;" % mname, v2):
        raise TranslateError("2x2: eigenValues2dImpl is not called on %s" % mname)
    if pre != bool(re.search(r"eigenValues\s*\*=\s*maxAbsElement\s*;\s*$", v2.strip())):
        raise TranslateError("2x2: preconditioning and its reversal do not match")
    vecpart = v2[v2.index("if constexpr"):]
    if re.search(r"\b%s\b" % other, vecpart):
        raise TranslateError("2x2: eigenvector code refers to %s although the eigenvalues belong to %s" % (other, mname))
    out.append("/-- is the 2x2 path preconditioned by `scaledMatrix = matrix / maxAbsElement` (and `eigenValues *= maxAbsElement`) -/\n"
               "def ev2_preconditioned : Bool := %s\n" % ("true" if pre else "false"))
    if not re.search(r"FieldMatrix\s*<\s*K\s*,\s*2\s*,\s*2\s*>\s*temp\s*=\s*%s\s*;" % mname, v2):
        raise TranslateError("2x2: `temp = %s` not found" % mname)
    out.append("/-- `temp[i][i] -= eigenValues[%s];` -/\ndef ev2_shiftIndex : Nat := %s\n" % (s0, s0))
    thr = one(r"if\s*\(\s*temp\s*\.\s*infinity_norm\(\)\s*<=\s*(.+?)\)\s*\{", v2, "2x2 identity threshold")
    emit("ev2_identThreshold", ["eps", "normA"], "K", tr(thr, ["eps", "normA"]),
         "if(temp.infinity_norm() <= %s)" % thr.strip())
    # the identity branch must assign all four entries of the caller's matrix (which may hold anything on entry): either
    # row by row or as a whole; literals 1 / 1.0 / 0 / 0.0
    one_, zero_ = r"1(?:\.0*)?", r"0(?:\.0*)?"
    rowwise = (r"eigenVectors\s*\[0\]\s*=\s*\{\s*%s\s*,\s*%s\s*\}\s*;\s*eigenVectors\s*\[1\]\s*=\s*\{\s*%s\s*,\s*%s\s*\}\s*;"
               % (one_, zero_, zero_, one_))
    whole = (r"eigenVectors\s*=\s*\{\s*\{\s*%s\s*,\s*%s\s*\}\s*,\s*\{\s*%s\s*,\s*%s\s*\}\s*\}\s*;" % (one_, zero_, zero_, one_))
    if not re.search(rowwise, v2) and not re.search(whole, v2):
        raise TranslateError("2x2: identity branch does not assign the unit vectors")
    cols0 = re.findall(r"(?:FieldVector\s*<\s*K\s*,\s*2\s*>\s+)?\bev0\s*=\s*\{([^}]*)\}\s*;", v2)
    cols1 = re.findall(r"(?:FieldVector\s*<\s*K\s*,\s*2\s*>\s+)?\bev1\s*=\s*\{([^}]*)\}\s*;", v2)
    if len(cols0) != 2 or len(cols1) != 2:
        raise TranslateError("2x2: expected two definitions each of ev0 and ev1")
    al = M2 + ["l0", "l1"]
    for vi in (0, 1):
        for ci, txt in ((0, cols0[vi]), (1, cols1[vi])):
            comps = tr_list(txt, al)
            if len(comps) != 2:
                raise TranslateError("2x2: candidate column is not a pair")
            emit("ev2_v%d_col%d" % (vi, ci), al, "K × K", "(%s, %s)" % tuple(comps),
                 "ev%d = {%s};   (candidate for eigenVectors[%d])" % (ci, txt.strip(), vi))
    sel = re.findall(r"eigenVectors\s*\[\s*([01])\s*\]\s*=\s*\(([^;]*);", v2)
    want = norm_ws("ev0.two_norm2() >= ev1.two_norm2()) ? ev0/ev0.two_norm() : ev1/ev1.two_norm()")
    if [s[0] for s in sel] != ["0", "1"] or any(norm_ws(s[1]) != want for s in sel):
        raise TranslateError("2x2: column selection statement changed: %r" % (sel,))
    # the order of the four column definitions and two selections must be ev0,ev1,sel0,ev0,ev1,sel1
    order = [m.group(1) or m.group(2) for m in re.finditer(r"\b(ev[01])\s*=\s*\{|(eigenVectors)\s*\[\s*[01]\s*\]\s*=\s*\(", v2)]
    if order != ["ev0", "ev1", "eigenVectors", "ev0", "ev1", "eigenVectors"]:
        raise TranslateError("2x2: statement order changed: %r" % order)

    # ---- crossProduct ------------------------------------------------------------------------------
    cp = body_after(src, r"crossProduct\s*\(\s*const\s+FieldVector\s*<\s*K\s*,\s*3\s*>\s*&\s*vec0\s*,\s*const\s+FieldVector\s*<\s*K\s*,\s*3\s*>\s*&\s*vec1\s*\)\s*\{",
                    "crossProduct")
    ret = one(r"return\s*\{(.*)\}\s*;", cp, "crossProduct return")
    ab = ["a0", "a1", "a2", "b0", "b1", "b2"]
    comps = tr_list(ret, ab)
    if len(comps) != 3:
        raise TranslateError("crossProduct does not return three components")
    emit("cross", ab, "K × K × K", "(%s,\n   %s,\n   %s)" % tuple(comps), "return {%s};" % ret.strip())

    # ---- eigenValues3dImpl -------------------------------------------------------------------------
    b3 = body_after(src, r"static\s+K\s+eigenValues3dImpl\s*\([^)]*\)\s*\{", "eigenValues3dImpl")
    e_p1 = one(r"\bK\s+p1\s*=\s*([^;]+);", b3, "3x3 p1")
    emit("ev3_p1", M3, "K", tr(e_p1, M3), "K p1 = %s;" % e_p1.strip())
    t_p1 = one(r"if\s*\(\s*p1\s*<=\s*(.+?)\)\s*\{", b3, "3x3 diagonal threshold")
    emit("ev3_diagThreshold", ["eps"], "K", tr(t_p1, ["eps"]), "if (p1 <= %s)" % t_p1.strip())
    if not re.search(r"eigenvalues\[0\]\s*=\s*matrix\[0\]\[0\];\s*eigenvalues\[1\]\s*=\s*matrix\[1\]\[1\];\s*eigenvalues\[2\]\s*=\s*matrix\[2\]\[2\];\s*"
                     r"std::sort\(eigenvalues\.begin\(\),\s*eigenvalues\.end\(\)\);\s*return\s+0\.0;", b3):
        raise TranslateError("3x3: diagonal branch changed")
    qloop = one(r"K\s+q\s*=\s*0\s*;\s*for\s*\(\s*int\s+i\s*=\s*0\s*;\s*i\s*<\s*3\s*;\s*i\+\+\s*\)\s*q\s*\+=\s*matrix\[i\]\[i\]\s*/\s*([0-9.]+)\s*;", b3,
                "3x3 q loop")
    d = lit(qloop)
    emit("ev3_q", ["m00", "m11", "m22"], "K", "((((Nat.cast 0 : K) + (m00 / %s)) + (m11 / %s)) + (m22 / %s))" % (d, d, d),
         "K q = 0; for (int i=0; i<3; i++) q += matrix[i][i] / %s;" % qloop)
    e_p2 = one(r"\bK\s+p2\s*=\s*([^;]+);", b3, "3x3 p2")
    emit("ev3_p2", M3 + ["q", "p1"], "K", tr(e_p2, M3 + ["q", "p1"]), "K p2 = %s;" % e_p2.strip())
    e_p = one(r"\bK\s+p\s*=\s*([^;]+);", b3, "3x3 p")
    out.append("/-- `K p = %s;` -/\ndef ev3_p (sqrt : K → K) (p2 : K) : K :=\n  %s\n" % (e_p.strip(), tr(e_p, ["p2", "sqrt"])))
    e_B = one(r"B\[i\]\[j\]\s*=\s*\(([^;]*?)\)\s*\*\s*\(\s*matrix\[i\]\[j\]\s*-\s*q\s*\*\s*\(\s*i\s*==\s*j\s*\)\s*\)\s*;", b3, "3x3 B")
    emit("ev3_Bscale", ["p"], "K", tr(e_B, ["p"]), "B[i][j] = (%s) * (matrix[i][j] - q*(i==j));" % e_B.strip())
    e_r = one(r"\bK\s+r\s*=\s*B\s*\.\s*determinant\(\)\s*([^;]*);", b3, "3x3 r")
    emit("ev3_r", ["detB"], "K", tr("detB " + e_r, ["detB"]), "K r = B.determinant() %s;" % e_r.strip())
    cl = one(r"r\s*=\s*clamp\s*<\s*K\s*>\s*\(\s*r\s*,([^;]*)\)\s*;", b3, "3x3 clamp")
    lo, hi = tr_list(cl, [])
    emit("ev3_clampLo", [], "K", lo, "r = clamp<K>(r, %s);" % cl.strip())
    emit("ev3_clampHi", [], "K", hi, "r = clamp<K>(r, %s);" % cl.strip())
    e_phi = one(r"\bK\s+phi\s*=\s*([^;]+);", b3, "3x3 phi")
    out.append("/-- `K phi = %s;` -/\ndef ev3_phi (acos : K → K) (r : K) : K :=\n  %s\n" % (e_phi.strip(), tr(e_phi, ["r", "acos"])))
    assigns = re.findall(r"eigenvalues\s*\[\s*([012])\s*\]\s*=\s*(q\s*\+[^;]+|3\s*\*[^;]+);", b3)
    if [a[0] for a in assigns] != ["2", "0", "1"]:
        raise TranslateError("3x3: eigenvalue assignments changed: %r" % (assigns,))
    al3 = ["q", "p", "phi", "pi", "cos"]
    out.append("/-- `eigenvalues[2] = %s;` -/\ndef ev3_lam2 (cos : K → K) (q p phi pi : K) : K :=\n  %s\n" % (assigns[0][1].strip(), tr(assigns[0][1], al3)))
    out.append("/-- `eigenvalues[0] = %s;` -/\ndef ev3_lam0 (cos : K → K) (q p phi pi : K) : K :=\n  %s\n" % (assigns[1][1].strip(), tr(assigns[1][1], al3)))
    emit("ev3_lam1", ["q", "l0", "l2"], "K", tr(assigns[2][1], ["q", "l0", "l2"]), "eigenvalues[1] = %s;" % assigns[2][1].strip())
    sorted_after = bool(re.search(r"eigenvalues\[1\]\s*=\s*3[^;]*;\s*std::sort\(eigenvalues\.begin\(\),\s*eigenvalues\.end\(\)\);\s*return\s+r\s*;", b3))
    out.append("/-- is `std::sort(eigenvalues.begin(), eigenvalues.end());` applied to the trigonometric values before `return r;` -/\n"
               "def ev3_sortedAfterTrig : Bool := %s\n" % ("true" if sorted_after else "false"))

    # ---- 3x3 eigenvectors: threshold of the diagonal special case, scaling ---------------------------
    v3 = body_after(src, r"static\s+void\s+eigenValuesVectorsImpl\s*\(\s*const\s+FieldMatrix\s*<\s*K\s*,\s*3\s*,\s*3\s*>[^)]*\)\s*\{",
                    "3x3 eigenValuesVectorsImpl")
    if not re.search(r"K\s+maxAbsElement\s*=\s*\(\s*isnormal\s*\(\s*matrix\.infinity_norm\(\)\s*\)\s*\)\s*\?\s*matrix\.infinity_norm\(\)\s*:\s*K\(1\.0\)\s*;\s*"
                     r"Matrix\s+scaledMatrix\s*=\s*matrix\s*/\s*maxAbsElement\s*;\s*K\s+r\s*=\s*Impl::eigenValues3dImpl\(\s*scaledMatrix\s*,\s*eigenValues\s*\)\s*;", v3):
        raise TranslateError("3x3: max-norm preconditioning changed")
    if not re.search(r"eigenValues\s*\*=\s*maxAbsElement\s*;", v3):
        raise TranslateError("3x3: scaling of the eigenvalues not reverted")
    offd = one(r"K\s+offDiagNorm\s*=\s*Vector\s*\{([^}]*)\}\s*\.\s*two_norm2\(\)\s*;", v3, "3x3 offDiagNorm")
    if norm_ws(offd) != "scaledMatrix[0][1],scaledMatrix[0][2],scaledMatrix[1][2]":
        raise TranslateError("3x3: offDiagNorm entries changed")
    t_v = one(r"if\s*\(\s*offDiagNorm\s*<=\s*(.+?)\)\s*\{", v3, "3x3 eigenvector diagonal threshold")
    emit("ev3_vecThreshold", ["eps"], "K", tr(t_v, ["eps"]), "if (offDiagNorm <= %s)" % t_v.strip())

    # ---- DenseMatrix::determinant, rows()==3 (densematrix.hh): B.determinant() in eigenValues3dImpl --------
    dm = strip_comments(open(os.path.join(repo, "dune/common/densematrix.hh")).read())
    dbody = body_after(dm, r"DenseMatrix\s*<\s*MAT\s*>\s*::\s*determinant\s*\([^)]*\)\s*const\s*\{", "DenseMatrix::determinant")
    blk = body_after(dbody, r"if\s*\(\s*rows\(\)\s*==\s*3\s*\)\s*\{", "determinant rows()==3 block")
    blk = blk.replace("(*this)", "m")
    temps = re.findall(r"field_type\s+(t[0-9]+)\s*=\s*([^;]+);", blk)
    ret3 = one(r"return\s*\(?([^;]+?)\)?\s*;", blk, "determinant 3x3 return")
    rest = re.sub(r"field_type\s+t[0-9]+\s*=\s*[^;]+;", "", blk)
    rest = re.sub(r"return\s*[^;]+;", "", rest)
    if rest.strip():
        raise TranslateError("determinant 3x3: unexpected statements %r" % rest.strip()[:80])
    names = []
    lets = []
    for (nm, ex) in temps:
        lets.append("let %s : K := %s" % (nm, tr(ex, M3 + names)))
        names.append(nm)
    out.append("/-- `DenseMatrix::determinant()` for rows()==3: `%s` -/" % norm_ws(ret3).replace("`", "'"))
    out.append("def det3 (m00 m01 m02 m10 m11 m12 m20 m21 m22 : K) : K :=\n  %s\n  %s\n"
               % ("\n  ".join(lets), tr(ret3, M3 + names)))

    out.append("end")
    out.append("end DV.C08.Gen")
    return [("DuneVerif/Gen/C08.lean", "\n".join(out) + "\n")]


if __name__ == "__main__":
    import sys
    for path, content in translate(sys.argv[1] if len(sys.argv) > 1 else "/repo"):
        sys.stdout.write(content)
